// Harnesses for src/config.rs (child module `config::verif`).
//
// C07, first half: "verification accepts a configuration if and only if every field at every
// nesting level lies in its documented range".  The claim is proved COMPOSITIONALLY, one struct per
// unit:
//
//     X.verify().is_ok()  <=>  own_fields_in_range(X)  &&  for every child c of X: c.verify().is_ok()
//
// In a unit for a struct with children, each child's `verify` is replaced by a callee contract that
// returns an arbitrary verdict and records it (`CHILD_*_OK`); the child's own unit proves that this
// verdict is exactly the child's range predicate.  By induction over the nesting
//     Encoder -> {StereoCoding, SubFrameCoding -> {Fixed -> OrderSel, Qlpc -> Window, Prc}}
// the eight equivalences give the "every field at every nesting level" statement.  A parent that
// forgets to ask one of its children is refuted: the stub's verdict `false` is then not reflected
// in the parent's result.
//
// The range predicates below are transcribed from the PROPERTY STATEMENT (block size 32..=32767,
// fixed max order <= 4, entropy-estimator partitions 1..=64, LPC order 1..=24, coefficient
// precision 1..=15, Rice max parameter <= 14, Tukey alpha within [0,1] and not NaN, experimental
// options only when compiled in) with literal numbers, not with the crate's constants.

// ------------------------------------------------------------------------------------------------
// Specification: own-field range predicates
// ------------------------------------------------------------------------------------------------

fn spec_prc_in_range(max_parameter: usize) -> bool {
    max_parameter <= 14
}

fn spec_order_sel_in_range(o: &OrderSel) -> bool {
    match *o {
        OrderSel::BitCount => true,
        OrderSel::ApproxEnt { partitions } => 1 <= partitions && partitions <= 64,
    }
}

fn spec_window_in_range(w: &Window) -> bool {
    match *w {
        Window::Rectangle => true,
        // NaN fails both comparisons; +-inf fail one of them; -0.0 >= 0.0 holds (it IS zero).
        Window::Tukey { alpha } => alpha >= 0.0f32 && alpha <= 1.0f32,
    }
}

fn spec_fixed_own_in_range(max_order: usize) -> bool {
    max_order <= 4
}

fn spec_qlpc_own_in_range(
    lpc_order: usize,
    quant_precision: usize,
    use_direct_mse: bool,
    mae_optimization_steps: usize,
) -> bool {
    let experimental_compiled_in = cfg!(feature = "experimental");
    1 <= lpc_order
        && lpc_order <= 24
        && 1 <= quant_precision
        && quant_precision <= 15
        && (experimental_compiled_in || (!use_direct_mse && mae_optimization_steps == 0))
}

fn spec_encoder_own_in_range(block_size: usize) -> bool {
    32 <= block_size && block_size <= 32767
}

// ------------------------------------------------------------------------------------------------
// Symbolic values of the two enums (both variants, payload over the full domain)
// ------------------------------------------------------------------------------------------------

fn any_order_sel() -> OrderSel {
    if kani::any() {
        OrderSel::BitCount
    } else {
        OrderSel::ApproxEnt {
            partitions: kani::any(),
        }
    }
}

fn any_window() -> Window {
    if kani::any() {
        Window::Rectangle
    } else {
        // every f32 bit pattern: NaNs, infinities, subnormals, both zeros.
        Window::Tukey { alpha: kani::any() }
    }
}

fn any_prc() -> Prc {
    Prc {
        max_parameter: kani::any(),
    }
}

fn any_fixed() -> Fixed {
    Fixed {
        max_order: kani::any(),
        order_sel: any_order_sel(),
    }
}

fn any_qlpc() -> Qlpc {
    Qlpc {
        lpc_order: kani::any(),
        quant_precision: kani::any(),
        use_direct_mse: kani::any(),
        mae_optimization_steps: kani::any(),
        window: any_window(),
    }
}

fn any_stereo_coding() -> StereoCoding {
    StereoCoding {
        use_leftside: kani::any(),
        use_rightside: kani::any(),
        use_midside: kani::any(),
    }
}

fn any_subframe_coding() -> SubFrameCoding {
    SubFrameCoding {
        use_constant: kani::any(),
        use_fixed: kani::any(),
        use_lpc: kani::any(),
        fixed: any_fixed(),
        qlpc: any_qlpc(),
        prc: any_prc(),
    }
}

// ------------------------------------------------------------------------------------------------
// Callee contracts for the children's `verify` (arbitrary verdict, recorded)
// ------------------------------------------------------------------------------------------------

static mut CHILD_ORDER_SEL_OK: bool = true;
static mut CHILD_WINDOW_OK: bool = true;
static mut CHILD_FIXED_OK: bool = true;
static mut CHILD_QLPC_OK: bool = true;
static mut CHILD_PRC_OK: bool = true;
static mut CHILD_STEREO_OK: bool = true;
static mut CHILD_SUBFRAME_OK: bool = true;

fn verdict(ok: bool) -> Result<(), VerifyError> {
    if ok {
        Ok(())
    } else {
        Err(VerifyError::new("child", "out of range"))
    }
}

// Each contract is only ever invoked through the parent; the verdict is fixed by the harness
// BEFORE the parent runs (`CHILD_*_OK = kani::any()`), so "the parent did not ask" and "the child
// said no" are distinguishable in the post-condition.
fn contract_order_sel_verify(_s: &OrderSel) -> Result<(), VerifyError> {
    verdict(unsafe { CHILD_ORDER_SEL_OK })
}
fn contract_window_verify(_s: &Window) -> Result<(), VerifyError> {
    verdict(unsafe { CHILD_WINDOW_OK })
}
fn contract_fixed_verify(_s: &Fixed) -> Result<(), VerifyError> {
    verdict(unsafe { CHILD_FIXED_OK })
}
fn contract_qlpc_verify(_s: &Qlpc) -> Result<(), VerifyError> {
    verdict(unsafe { CHILD_QLPC_OK })
}
fn contract_prc_verify(_s: &Prc) -> Result<(), VerifyError> {
    verdict(unsafe { CHILD_PRC_OK })
}
fn contract_stereo_verify(_s: &StereoCoding) -> Result<(), VerifyError> {
    verdict(unsafe { CHILD_STEREO_OK })
}
fn contract_subframe_verify(_s: &SubFrameCoding) -> Result<(), VerifyError> {
    verdict(unsafe { CHILD_SUBFRAME_OK })
}

/// Abstraction of `VerifyError::within` (pushes the component name onto the error's path, which
/// costs a `Vec` reallocation per nesting level in CBMC): the units below only ask `is_ok()`, for
/// which the error's path is irrelevant; that the real `within` returns normally is unit
/// `c07_error_within_total`.
fn abstract_within(e: VerifyError, _component: &str) -> VerifyError {
    e
}

/// `VerifyError::new(..).within(..).within(..)` returns (no panic), as deep as the configuration
/// nests (Encoder > subframe_coding > fixed > order_sel: three levels).
//@ unit props=C07 tier=quick kind=complete timeout=300 funcs="VerifyError::new; VerifyError::within" note="justifies abstract_within"
#[kani::proof]
#[kani::unwind(24)]
fn c07_error_within_total() {
    let e = VerifyError::new("ApproxEnt.partitions", "out of range")
        .within("order_sel")
        .within("fixed")
        .within("subframe_coding");
    let r: Result<(), VerifyError> = Err(e);
    assert!(r.is_err());
    kani::cover!(r.is_err());
}

// ================================================================================================
// Leaves
// ================================================================================================

/// Prc: accepted <=> max_parameter <= 14, over all usize.
//@ unit props=C07 tier=quick kind=complete timeout=300 funcs="Prc::verify"
#[kani::proof]
#[kani::unwind(6)]
#[kani::stub(std::fmt::format, stub_format)]
fn c07_prc_exact() {
    let c = any_prc();
    let expected = spec_prc_in_range(c.max_parameter);
    assert!(c.verify().is_ok() == expected);
    kani::cover!(c.max_parameter == 14);
    kani::cover!(c.max_parameter == 15);
    kani::cover!(c.max_parameter == usize::MAX);
}

/// OrderSel: BitCount always; ApproxEnt accepted <=> 1 <= partitions <= 64, over all usize.
//@ unit props=C07 tier=quick kind=complete timeout=300 funcs="OrderSel::verify"
#[kani::proof]
#[kani::unwind(6)]
#[kani::stub(std::fmt::format, stub_format)]
fn c07_order_sel_exact() {
    let c = any_order_sel();
    let expected = spec_order_sel_in_range(&c);
    assert!(c.verify().is_ok() == expected);
    kani::cover!(matches!(c, OrderSel::BitCount));
    kani::cover!(matches!(c, OrderSel::ApproxEnt { partitions: 0 }));
    kani::cover!(matches!(c, OrderSel::ApproxEnt { partitions: 1 }));
    kani::cover!(matches!(c, OrderSel::ApproxEnt { partitions: 64 }));
    kani::cover!(matches!(c, OrderSel::ApproxEnt { partitions: 65 }));
}

/// Window: Rectangle always; Tukey accepted <=> 0 <= alpha <= 1 (so NaN and +-inf are rejected),
/// over every f32 bit pattern.
//@ unit props=C07 tier=quick kind=complete timeout=300 funcs="Window::verify"
#[kani::proof]
#[kani::unwind(6)]
#[kani::stub(std::fmt::format, stub_format)]
fn c07_window_exact() {
    let c = any_window();
    let expected = spec_window_in_range(&c);
    let got = c.verify().is_ok();
    assert!(got == expected);
    if let Window::Tukey { alpha } = c {
        // the property's wording, spelled out once more independently of `spec_window_in_range`
        if alpha.is_nan() || alpha.is_infinite() || alpha < 0.0 || alpha > 1.0 {
            assert!(!got);
        }
        kani::cover!(alpha.is_nan());
        kani::cover!(alpha == f32::INFINITY);
        kani::cover!(alpha == 0.0 && alpha.is_sign_negative());
        kani::cover!(alpha == 1.0);
        kani::cover!(alpha > 1.0 && alpha < 1.000_001);
        kani::cover!(alpha > 0.0 && alpha < 1.0e-40); // subnormal
    }
    kani::cover!(matches!(c, Window::Rectangle));
}

/// StereoCoding has only flags: every value is accepted.
//@ unit props=C07 tier=quick kind=complete timeout=300 funcs="StereoCoding::verify"
#[kani::proof]
#[kani::unwind(6)]
#[kani::stub(std::fmt::format, stub_format)]
fn c07_stereo_coding_exact() {
    let c = any_stereo_coding();
    assert!(c.verify().is_ok());
    kani::cover!(!c.use_leftside && !c.use_rightside && !c.use_midside);
}

// ================================================================================================
// Inner nodes (children's `verify` replaced by their contracts)
// ================================================================================================

/// Fixed: accepted <=> max_order <= 4 AND order_sel accepted.
//@ unit props=C07 tier=quick kind=complete timeout=300 funcs="Fixed::verify" stubs="OrderSel::verify -> contract_order_sel_verify (arbitrary recorded verdict; exactness is c07_order_sel_exact)"
#[kani::proof]
#[kani::unwind(6)]
#[kani::stub(std::fmt::format, stub_format)]
#[kani::stub(<OrderSel as Verify>::verify, contract_order_sel_verify)]
#[kani::stub(VerifyError::within, abstract_within)]
fn c07_fixed_exact() {
    let c = any_fixed();
    let child_ok: bool = kani::any();
    unsafe {
        CHILD_ORDER_SEL_OK = child_ok;
    }
    let expected = spec_fixed_own_in_range(c.max_order) && child_ok;
    assert!(c.verify().is_ok() == expected);
    kani::cover!(c.max_order == 4 && child_ok);
    kani::cover!(c.max_order == 4 && !child_ok);
    kani::cover!(c.max_order == 5 && child_ok);
}

/// Qlpc: accepted <=> 1 <= lpc_order <= 24, 1 <= quant_precision <= 15, the two experimental
/// options at their "off" values unless the `experimental` feature is compiled in, AND window
/// accepted.
//@ unit props=C07 tier=quick kind=complete timeout=300 funcs="Qlpc::verify" stubs="Window::verify -> contract_window_verify (arbitrary recorded verdict; exactness is c07_window_exact)" note="verified for the feature set of the verification build (experimental NOT compiled in); the predicate is written for both"
#[kani::proof]
#[kani::unwind(6)]
#[kani::stub(std::fmt::format, stub_format)]
#[kani::stub(<Window as Verify>::verify, contract_window_verify)]
#[kani::stub(VerifyError::within, abstract_within)]
fn c07_qlpc_exact() {
    let c = any_qlpc();
    let child_ok: bool = kani::any();
    unsafe {
        CHILD_WINDOW_OK = child_ok;
    }
    let own = spec_qlpc_own_in_range(
        c.lpc_order,
        c.quant_precision,
        c.use_direct_mse,
        c.mae_optimization_steps,
    );
    assert!(c.verify().is_ok() == (own && child_ok));
    kani::cover!(own && child_ok);
    kani::cover!(own && !child_ok);
    kani::cover!(c.lpc_order == 0);
    kani::cover!(c.lpc_order == 24 && c.quant_precision == 15 && own);
    kani::cover!(c.lpc_order == 25);
    kani::cover!(c.quant_precision == 0);
    kani::cover!(c.quant_precision == 16);
    kani::cover!(c.use_direct_mse && c.lpc_order == 1 && c.quant_precision == 1);
    kani::cover!(c.mae_optimization_steps == 1 && !c.use_direct_mse);
}

/// SubFrameCoding has only flags of its own: accepted <=> fixed, qlpc and prc are all accepted.
//@ unit props=C07 tier=quick kind=complete timeout=300 funcs="SubFrameCoding::verify" stubs="Fixed::verify -> contract_fixed_verify (c07_fixed_exact); Qlpc::verify -> contract_qlpc_verify (c07_qlpc_exact); Prc::verify -> contract_prc_verify (c07_prc_exact)"
#[kani::proof]
#[kani::unwind(6)]
#[kani::stub(std::fmt::format, stub_format)]
#[kani::stub(<Fixed as Verify>::verify, contract_fixed_verify)]
#[kani::stub(<Qlpc as Verify>::verify, contract_qlpc_verify)]
#[kani::stub(<Prc as Verify>::verify, contract_prc_verify)]
#[kani::stub(VerifyError::within, abstract_within)]
fn c07_subframe_coding_exact() {
    let c = any_subframe_coding();
    let fixed_ok: bool = kani::any();
    let qlpc_ok: bool = kani::any();
    let prc_ok: bool = kani::any();
    unsafe {
        CHILD_FIXED_OK = fixed_ok;
        CHILD_QLPC_OK = qlpc_ok;
        CHILD_PRC_OK = prc_ok;
    }
    assert!(c.verify().is_ok() == (fixed_ok && qlpc_ok && prc_ok));
    kani::cover!(fixed_ok && qlpc_ok && prc_ok);
    kani::cover!(!fixed_ok && qlpc_ok && prc_ok);
    kani::cover!(fixed_ok && !qlpc_ok && prc_ok);
    kani::cover!(fixed_ok && qlpc_ok && !prc_ok);
    kani::cover!(!c.use_constant && !c.use_fixed && !c.use_lpc);
}

/// Encoder: accepted <=> 32 <= block_size <= 32767 AND stereo_coding, subframe_coding accepted
/// (`multithread` and `workers` are unconstrained: every bool / Option<NonZeroUsize>).
//@ unit props=C07 tier=quick kind=complete timeout=300 funcs="Encoder::verify" stubs="StereoCoding::verify -> contract_stereo_verify (c07_stereo_coding_exact); SubFrameCoding::verify -> contract_subframe_verify (c07_subframe_coding_exact)"
#[kani::proof]
#[kani::unwind(6)]
#[kani::stub(std::fmt::format, stub_format)]
#[kani::stub(<StereoCoding as Verify>::verify, contract_stereo_verify)]
#[kani::stub(<SubFrameCoding as Verify>::verify, contract_subframe_verify)]
#[kani::stub(VerifyError::within, abstract_within)]
fn c07_encoder_exact() {
    let workers_raw: usize = kani::any();
    let workers_some: bool = kani::any();
    let c = Encoder {
        block_size: kani::any(),
        multithread: kani::any(),
        // all of Option<NonZeroUsize>: None, or Some(n) for every n != 0
        workers: if workers_some {
            NonZeroUsize::new(workers_raw)
        } else {
            None
        },
        stereo_coding: any_stereo_coding(),
        subframe_coding: any_subframe_coding(),
    };
    let stereo_ok: bool = kani::any();
    let subframe_ok: bool = kani::any();
    unsafe {
        CHILD_STEREO_OK = stereo_ok;
        CHILD_SUBFRAME_OK = subframe_ok;
    }
    let expected = spec_encoder_own_in_range(c.block_size) && stereo_ok && subframe_ok;
    assert!(c.verify().is_ok() == expected);
    kani::cover!(c.block_size == 32 && stereo_ok && subframe_ok);
    kani::cover!(c.block_size == 31 && stereo_ok && subframe_ok);
    kani::cover!(c.block_size == 32767 && stereo_ok && subframe_ok);
    kani::cover!(c.block_size == 32768 && stereo_ok && subframe_ok);
    kani::cover!(c.block_size == 4096 && !stereo_ok && subframe_ok);
    kani::cover!(c.block_size == 4096 && stereo_ok && !subframe_ok);
    kani::cover!(c.workers.is_some() && c.multithread);
    kani::cover!(c.workers.is_none() && !c.multithread);
}

// ================================================================================================
// End-to-end cross-checks with the REAL chain (no child stubs)
// ================================================================================================

/// The default configuration is accepted (used as the contract of `verified_default_config` in
/// coding::verif), and is inside the documented ranges at every level.
//@ unit props=C07 tier=quick kind=complete timeout=300 funcs="Encoder::verify; Encoder::default"
#[kani::proof]
#[kani::unwind(6)]
#[kani::stub(std::fmt::format, stub_format)]
fn c07_default_is_valid() {
    let c = Encoder::default();
    assert!(c.verify().is_ok());
    assert!(spec_encoder_own_in_range(c.block_size));
    assert!(spec_fixed_own_in_range(c.subframe_coding.fixed.max_order));
    assert!(spec_order_sel_in_range(&c.subframe_coding.fixed.order_sel));
    assert!(spec_qlpc_own_in_range(
        c.subframe_coding.qlpc.lpc_order,
        c.subframe_coding.qlpc.quant_precision,
        c.subframe_coding.qlpc.use_direct_mse,
        c.subframe_coding.qlpc.mae_optimization_steps
    ));
    assert!(spec_window_in_range(&c.subframe_coding.qlpc.window));
    assert!(spec_prc_in_range(c.subframe_coding.prc.max_parameter));
    kani::cover!(c.block_size == 4096);
}

/// Real chain, the deepest leaves: starting from the default configuration, replace the two
/// `fixed` leaves (the ones the consumers `fixed_lpc` / `estimate_entropy` read) by arbitrary
/// values; the TOP-LEVEL `Encoder::verify` must accept exactly the in-range ones.  Redundant with
/// the compositional units, kept as a direct witness for the finding (partitions = 0 and
/// fixed.max_order = 100 are accepted by the unchanged tree).
//@ unit props=C07 tier=quick kind=complete timeout=300 funcs="Encoder::verify; SubFrameCoding::verify; Fixed::verify; OrderSel::verify"
#[kani::proof]
#[kani::unwind(6)]
#[kani::stub(std::fmt::format, stub_format)]
#[kani::stub(VerifyError::within, abstract_within)]
fn c07_encoder_chain_reaches_fixed() {
    let mut c = Encoder::default();
    c.subframe_coding.fixed = any_fixed();
    let expected = spec_fixed_own_in_range(c.subframe_coding.fixed.max_order)
        && spec_order_sel_in_range(&c.subframe_coding.fixed.order_sel);
    assert!(c.verify().is_ok() == expected);
    kani::cover!(expected);
    kani::cover!(c.subframe_coding.fixed.max_order == 100);
    kani::cover!(matches!(
        c.subframe_coding.fixed.order_sel,
        OrderSel::ApproxEnt { partitions: 0 }
    ));
}

/// Real chain, the other nested leaves (qlpc, window, prc) through the top-level `verify`.
//@ unit props=C07 tier=quick kind=complete timeout=300 funcs="Encoder::verify; SubFrameCoding::verify; Qlpc::verify; Window::verify; Prc::verify"
#[kani::proof]
#[kani::unwind(6)]
#[kani::stub(std::fmt::format, stub_format)]
#[kani::stub(VerifyError::within, abstract_within)]
fn c07_encoder_chain_reaches_qlpc_prc() {
    let mut c = Encoder::default();
    c.subframe_coding.qlpc = any_qlpc();
    c.subframe_coding.prc = any_prc();
    let q = &c.subframe_coding.qlpc;
    let expected = spec_qlpc_own_in_range(
        q.lpc_order,
        q.quant_precision,
        q.use_direct_mse,
        q.mae_optimization_steps,
    ) && spec_window_in_range(&q.window)
        && spec_prc_in_range(c.subframe_coding.prc.max_parameter);
    assert!(c.verify().is_ok() == expected);
    kani::cover!(expected);
    kani::cover!(matches!(q.window, Window::Tukey { alpha } if alpha > 1.0));
    kani::cover!(c.subframe_coding.prc.max_parameter == 15);
}
