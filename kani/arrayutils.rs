// Harnesses for src/arrayutils.rs (child module `arrayutils::verif`).

// ================================================================================================
// C14 / C03: little-endian byte <-> i32 conversion
// ================================================================================================

/// Independent specification: the sample stored in `bps` little-endian bytes starting at
/// `b[off]`, sign-extended to 32 bits (assemble into a u32, shift the sign bit to bit 31,
/// arithmetic shift back).
fn spec_le_sample(b: &[u8], off: usize, bps: usize) -> i32 {
    let mut u: u32 = 0;
    let mut k = 0;
    while k < bps {
        u |= (b[off + k] as u32) << (8 * k);
        k += 1;
    }
    let sh = (8 * (4 - bps)) as u32;
    ((u << sh) as i32) >> sh
}

/// The little-endian specification used by the Verus unit of `Context` (MD5 feed):
/// byte k of `i32::to_le_bytes(v)` is bits 8k..8k+7 of the two's complement pattern of v.
//@ unit props=C14,C03 tier=quick kind=complete timeout=120 funcs="i32::to_le_bytes" note="loop-free over every i32: complete"
#[kani::proof]
#[kani::unwind(6)]
fn le_bytes_spec() {
    let v: i32 = kani::any();
    let b = i32::to_le_bytes(v);
    let mut k = 0;
    while k < 4 {
        assert!(b[k] == ((v as u32) >> (8 * k)) as u8);
        k += 1;
    }
    kani::cover!(v == i32::MIN);
    kani::cover!(v == -1);
}

const LE_N: usize = 3;

fn c14_le_bytes_to_i32s_check(bytes: &[u8; 4 * LE_N], old: &[i32; LE_N + 2], dest: &[i32; LE_N + 2], bps: usize) {
    let mut i = 0;
    while i < LE_N {
        assert!(dest[i] == spec_le_sample(bytes, i * bps, bps));
        // range of a bps-byte sample
        assert!(spec_fits(dest[i] as i64, 8 * bps));
        i += 1;
    }
    // elements beyond the converted samples are untouched
    assert!(dest[LE_N] == old[LE_N]);
    assert!(dest[LE_N + 1] == old[LE_N + 1]);
}

fn c14_le_bytes_to_i32s_impl_body<const B: usize>() {
    let bytes: [u8; 4 * LE_N] = kani::any();
    let old: [i32; LE_N + 2] = kani::any();
    let mut dest = old;
    le_bytes_to_i32s_impl::<B>(&bytes[0..LE_N * B], &mut dest);
    c14_le_bytes_to_i32s_check(&bytes, &old, &dest, B);
    kani::cover!(dest[0] < 0 && dest[1] > 0);
    kani::cover!(dest[2] as i64 == -(1i64 << (8 * B - 1)));
    kani::cover!(dest[2] as i64 == (1i64 << (8 * B - 1)) - 1);
}

//@ unit props=C14,C03 tier=quick kind=bounded timeout=300 funcs="le_bytes_to_i32s_impl" bound="3 samples of 1 byte, every byte value; the loop body is identical for every sample"
#[kani::proof]
#[kani::unwind(6)]
fn c14_le_bytes_to_i32s_impl_b1() {
    c14_le_bytes_to_i32s_impl_body::<1>();
}

//@ unit props=C14,C03 tier=quick kind=bounded timeout=300 funcs="le_bytes_to_i32s_impl" bound="3 samples of 2 bytes, every byte value"
#[kani::proof]
#[kani::unwind(6)]
fn c14_le_bytes_to_i32s_impl_b2() {
    c14_le_bytes_to_i32s_impl_body::<2>();
}

//@ unit props=C14,C03 tier=quick kind=bounded timeout=300 funcs="le_bytes_to_i32s_impl" bound="3 samples of 3 bytes, every byte value"
#[kani::proof]
#[kani::unwind(6)]
fn c14_le_bytes_to_i32s_impl_b3() {
    c14_le_bytes_to_i32s_impl_body::<3>();
}

//@ unit props=C14,C03 tier=quick kind=bounded timeout=300 funcs="le_bytes_to_i32s_impl" bound="3 samples of 4 bytes, every byte value"
#[kani::proof]
#[kani::unwind(6)]
fn c14_le_bytes_to_i32s_impl_b4() {
    c14_le_bytes_to_i32s_impl_body::<4>();
}

fn c14_le_bytes_to_i32s_dispatch_body(bps: usize) {
    let bytes: [u8; 4 * LE_N] = kani::any();
    let old: [i32; LE_N + 2] = kani::any();
    let mut dest = old;
    le_bytes_to_i32s(&bytes[0..LE_N * bps], &mut dest, bps);
    c14_le_bytes_to_i32s_check(&bytes, &old, &dest, bps);
    kani::cover!(dest[0] < 0);
}

/// The dispatcher selects the implementation matching `bytes_per_sample` (1..=4).
//@ unit props=C14,C03 tier=quick kind=bounded timeout=300 funcs="le_bytes_to_i32s" bound="3 samples for each bytes-per-sample 1..=4 (concrete loop), every byte value"
#[kani::proof]
#[kani::unwind(6)]
fn c14_le_bytes_to_i32s_dispatch() {
    c14_le_bytes_to_i32s_dispatch_body(1);
    c14_le_bytes_to_i32s_dispatch_body(2);
    c14_le_bytes_to_i32s_dispatch_body(3);
    c14_le_bytes_to_i32s_dispatch_body(4);
}

fn c14_i32s_to_le_bytes_body<const N: usize>(bps: usize) {
    let ints: [i32; N] = kani::any();
    let old: [u8; 24] = kani::any();
    let mut dest = old;
    i32s_to_le_bytes(&ints, &mut dest, bps);
    let mut i = 0;
    while i < N {
        let mut k = 0;
        while k < bps {
            assert!(dest[i * bps + k] == (ints[i] >> (8 * k)) as u8);
            k += 1;
        }
        i += 1;
    }
    let mut j = N * bps;
    while j < 24 {
        assert!(dest[j] == old[j]);
        j += 1;
    }
    // conversion back gives the same integers whenever they fit in `bps` bytes: the two delivery
    // forms of one signal describe the same samples.
    let mut all_fit = true;
    let mut i = 0;
    while i < N {
        if !spec_fits(ints[i] as i64, 8 * bps) {
            all_fit = false;
        }
        i += 1;
    }
    if all_fit {
        let mut back = [0i32; N];
        le_bytes_to_i32s(&dest[0..N * bps], &mut back, bps);
        let mut i = 0;
        while i < N {
            assert!(back[i] == ints[i]);
            i += 1;
        }
    }
    kani::cover!(ints[0] < 0 && spec_fits(ints[0] as i64, 8 * bps));
    kani::cover!(ints[N - 1] as i64 == -(1i64 << (8 * bps - 1)));
    kani::cover!(!spec_fits(ints[0] as i64, 8 * bps) || bps == 4);
}

/// `i32s_to_le_bytes`: byte k of sample i is bits 8k.. of the integer (inverse of the above), for
/// EVEN and ODD sample counts (a pair-wise or batched rewrite must not drop the tail).
//@ unit props=C14,C03 tier=quick kind=bounded timeout=600 funcs="i32s_to_le_bytes; le_bytes_to_i32s" bound="2, 3 and 5 samples for each bytes-per-sample 1..=4 (concrete loops), every i32 value"
#[kani::proof]
#[kani::unwind(26)]
fn c14_i32s_to_le_bytes() {
    c14_i32s_to_le_bytes_body::<2>(1);
    c14_i32s_to_le_bytes_body::<3>(2);
    c14_i32s_to_le_bytes_body::<3>(3);
    c14_i32s_to_le_bytes_body::<5>(3);
    c14_i32s_to_le_bytes_body::<2>(3);
    c14_i32s_to_le_bytes_body::<3>(4);
    c14_i32s_to_le_bytes_body::<5>(1);
}

// ================================================================================================
// C14 / C10: de-interleaving into a buffer with arbitrary previous content
// ================================================================================================

/// One call `f(src[0 .. N*src_samples], STRIDE, dest)` on a `dest` of N*STRIDE arbitrary (stale)
/// values; afterwards every element of `dest` is determined by the source alone.
macro_rules! deinterleave_case {
    ($f:expr, $n:expr, $stride:expr, $src_samples:expr) => {{
        const N: usize = $n;
        const STRIDE: usize = $stride;
        const SRC: usize = $src_samples;
        let src: [i32; N * STRIDE] = kani::any();
        let mut dest: [i32; N * STRIDE] = kani::any();
        $f(&src[0..N * SRC], STRIDE, &mut dest);
        let mut ch = 0;
        while ch < N {
            let mut t = 0;
            while t < STRIDE {
                let want = if t < SRC { src[N * t + ch] } else { 0 };
                assert!(dest[ch * STRIDE + t] == want);
                t += 1;
            }
            ch += 1;
        }
        kani::cover!(src[0] == i32::MIN && src[N * STRIDE - 1] == i32::MAX);
    }};
}

/// Same through the public dispatcher `deinterleave(src, channels, stride, dest)`.
macro_rules! deinterleave_dispatch_case {
    ($n:expr, $stride:expr, $src_samples:expr) => {{
        deinterleave_case!(
            |s: &[i32], st: usize, d: &mut [i32]| deinterleave(s, $n, st, d),
            $n,
            $stride,
            $src_samples
        )
    }};
}

//@ unit props=C14,C10 tier=quick kind=bounded timeout=300 funcs="deinterleave_ch2" bound="stride 34 (one full 32-way unrolled round + tail of 2), source 0, 5, 33 and 34 samples; every sample value, every stale dest content"
#[kani::proof]
#[kani::unwind(36)]
fn c14_deinterleave_ch2() {
    deinterleave_case!(deinterleave_ch2, 2, 34, 0);
    deinterleave_case!(deinterleave_ch2, 2, 34, 5);
    deinterleave_case!(deinterleave_ch2, 2, 34, 33);
    deinterleave_case!(deinterleave_ch2, 2, 34, 34);
}

//@ unit props=C14,C10 tier=thorough kind=bounded timeout=900 funcs="deinterleave_ch3" bound="stride 33 and 34, source 0, 5, 32 and stride samples"
#[kani::proof]
#[kani::unwind(36)]
fn c14_deinterleave_ch3() {
    deinterleave_case!(deinterleave_ch3, 3, 33, 0);
    deinterleave_case!(deinterleave_ch3, 3, 33, 5);
    deinterleave_case!(deinterleave_ch3, 3, 33, 33);
    deinterleave_case!(deinterleave_ch3, 3, 34, 32);
    deinterleave_case!(deinterleave_ch3, 3, 34, 34);
}

//@ unit props=C14,C10 tier=thorough kind=bounded timeout=900 funcs="deinterleave_ch8" bound="stride 33 and 34, source 0, 5, 32 and stride samples"
#[kani::proof]
#[kani::unwind(36)]
fn c14_deinterleave_ch8() {
    deinterleave_case!(deinterleave_ch8, 8, 33, 0);
    deinterleave_case!(deinterleave_ch8, 8, 33, 5);
    deinterleave_case!(deinterleave_ch8, 8, 33, 33);
    deinterleave_case!(deinterleave_ch8, 8, 34, 32);
    deinterleave_case!(deinterleave_ch8, 8, 34, 34);
}

/// `deinterleave_ch1` copies the source prefix and leaves the REST OF `dest` UNCHANGED (it does
/// not zero-fill, unlike the multi-channel versions).
//@ unit props=C14,C10 tier=quick kind=bounded timeout=300 funcs="deinterleave_ch1" bound="dest 34, source 0, 5 and 34 samples" note="mono: stale data beyond the source length stays in the buffer; it is unobservable because FrameBuf only exposes channel_slice(ch)[0..filled_size] (see c14_fill_* units in source_c14.rs)"
#[kani::proof]
#[kani::unwind(36)]
fn c14_deinterleave_ch1() {
    c14_deinterleave_ch1_body(0);
    c14_deinterleave_ch1_body(5);
    c14_deinterleave_ch1_body(34);
}

fn c14_deinterleave_ch1_body(n: usize) {
    const L: usize = 34;
    let src: [i32; L] = kani::any();
    let old: [i32; L] = kani::any();
    let mut dest = old;
    deinterleave_ch1(&src[0..n], L, &mut dest);
    let mut t = 0;
    while t < L {
        assert!(dest[t] == if t < n { src[t] } else { old[t] });
        t += 1;
    }
    kani::cover!(src[0] == i32::MIN && old[33] == 7 && dest[33] == 7);
}

/// The dispatcher reaches the implementation of the requested channel count, for every channel
/// count FLAC allows.
//@ unit props=C14,C10 tier=quick kind=bounded timeout=300 funcs="deinterleave; deinterleave_ch2; deinterleave_ch3; deinterleave_ch4; deinterleave_ch5; deinterleave_ch6; deinterleave_ch7; deinterleave_ch8" bound="channels 2..=8, stride 3, source 0, 2 and 3 samples"
#[kani::proof]
#[kani::unwind(10)]
fn c14_deinterleave_dispatch() {
    deinterleave_dispatch_case!(2, 3, 2);
    deinterleave_dispatch_case!(3, 3, 0);
    deinterleave_dispatch_case!(3, 3, 2);
    deinterleave_dispatch_case!(4, 3, 2);
    deinterleave_dispatch_case!(5, 3, 3);
    deinterleave_dispatch_case!(6, 3, 2);
    deinterleave_dispatch_case!(7, 3, 2);
    deinterleave_dispatch_case!(8, 3, 0);
    deinterleave_dispatch_case!(8, 3, 2);
    deinterleave_dispatch_case!(8, 3, 3);
}

//@ unit props=C14,C10 tier=quick kind=bounded timeout=300 funcs="deinterleave; deinterleave_ch1" bound="1 channel, dest 3, source 0 and 2 samples" note="mono: prefix copied, rest unchanged (unobservable through FrameBuf::channel_slice)"
#[kani::proof]
#[kani::unwind(6)]
fn c14_deinterleave_dispatch_ch1() {
    let src: [i32; 3] = kani::any();
    let old: [i32; 3] = kani::any();
    let mut dest = old;
    deinterleave(&src[0..2], 1, 3, &mut dest);
    assert!(dest[0] == src[0] && dest[1] == src[1] && dest[2] == old[2]);
    let mut dest = old;
    deinterleave(&src[0..0], 1, 3, &mut dest);
    assert!(dest[0] == old[0] && dest[1] == old[1] && dest[2] == old[2]);
    kani::cover!(src[0] == i32::MIN);
}

// ================================================================================================
// C01: maximum absolute value
// ================================================================================================

/// `find_max_abs::<16>(data)` is the largest |data[i]| as u32 (|i32::MIN| = 2^31 included), and 0
/// for empty input.
//@ unit props=C01 tier=quick kind=bounded timeout=300 funcs="find_max_abs; simd_map_and_reduce" bound="0 and 3 samples, every i32 value (stable build: slice_as_simd yields only the scalar head)"
#[kani::proof]
#[kani::unwind(18)]
fn c01_find_max_abs() {
    let d: [i32; 3] = kani::any();
    let r = find_max_abs::<16>(&d);
    let mut want: u64 = 0;
    let mut i = 0;
    while i < 3 {
        let a = (d[i] as i64).abs() as u64;
        if a > want {
            want = a;
        }
        i += 1;
    }
    assert!(r as u64 == want);
    assert!(find_max_abs::<16>(&d[0..0]) == 0);
    kani::cover!(d[1] == i32::MIN && r == 0x8000_0000);
    kani::cover!(r == 0);
    kani::cover!(d[2] < 0 && r == 5);
}

// ================================================================================================
// C01 / C10: SimdVec packing
// ================================================================================================

fn any_simdvec_i32x16(vectors: usize) -> SimdVec<i32, 16> {
    let mut inner: Vec<simd::Simd<i32, 16>> = Vec::new();
    let mut i = 0;
    while i < vectors {
        let a: [i32; 16] = kani::any();
        inner.push(simd::Simd::from_array(a));
        i += 1;
    }
    // any length consistent with the number of vectors (the invariant `as_ref` relies on)
    let len: usize = kani::any();
    kani::assume(len <= vectors * 16);
    SimdVec { inner, len }
}

/// After `reset_from_slice(data)` on a SimdVec with arbitrary previous length and contents:
/// `as_ref() == data`, ceil(len/16) vectors, and the unused lanes of the last vector are zero
/// (the vector code sums/compares whole vectors, so the padding must be neutral).
fn c01_simdvec_reset_body<const LEN: usize>(old_vectors: usize) {
    let mut sv = any_simdvec_i32x16(old_vectors);
    let data: [i32; LEN] = kani::any();
    sv.reset_from_slice(&data);
    assert!(sv.len() == LEN);
    assert!(sv.simd_len() == (LEN + 15) / 16);
    let view = sv.as_ref();
    assert!(view.len() == LEN);
    let mut i = 0;
    while i < LEN {
        assert!(view[i] == data[i]);
        i += 1;
    }
    let vs = sv.as_ref_simd();
    let mut j = LEN;
    while j < vs.len() * 16 {
        assert!(vs[j / 16].as_array()[j % 16] == 0);
        j += 1;
    }
    let mut j = 0;
    while j < LEN {
        assert!(vs[j / 16].as_array()[j % 16] == data[j]);
        j += 1;
    }
    kani::cover!(LEN == 0 || data[0] == i32::MIN);
}

//@ unit props=C01,C10 tier=quick kind=bounded timeout=300 funcs="pack_into_simd_vec; SimdVec::reset_from_slice; SimdVec::as_ref; transmute_and_flatten_simd; transmute_and_flatten_simd_mut" bound="3 and 0 samples, 16 lanes, previous content: 0 or 2 arbitrary vectors"
#[kani::proof]
#[kani::unwind(34)]
fn c01_simdvec_reset_len3() {
    c01_simdvec_reset_body::<3>(2);
    c01_simdvec_reset_body::<3>(0);
    c01_simdvec_reset_body::<0>(2);
}

//@ unit props=C01,C10 tier=quick kind=bounded timeout=300 funcs="pack_into_simd_vec; SimdVec::reset_from_slice; SimdVec::as_ref" bound="17 samples (2 vectors, 15 padding lanes), 16 lanes, previous content: 1 arbitrary vector"
#[kani::proof]
#[kani::unwind(34)]
fn c01_simdvec_reset_len17() {
    c01_simdvec_reset_body::<17>(1);
}

/// `SimdVec::resize(new_len, value)`: ceil(new_len/16) vectors, kept vectors unchanged, new
/// vectors equal to `value`, scalar view has `new_len` elements.
//@ unit props=C01,C10 tier=quick kind=bounded timeout=300 funcs="SimdVec::resize; SimdVec::as_ref" bound="1 previous vector; new length 0, 3, 16 and 17"
#[kani::proof]
#[kani::unwind(34)]
fn c01_simdvec_resize() {
    c01_simdvec_resize_body(0);
    c01_simdvec_resize_body(3);
    c01_simdvec_resize_body(16);
    c01_simdvec_resize_body(17);
}

fn c01_simdvec_resize_body(new_len: usize) {
    let mut sv = any_simdvec_i32x16(1);
    let first: [i32; 16] = *sv.as_ref_simd()[0].as_array();
    let fill: [i32; 16] = kani::any();
    sv.resize(new_len, simd::Simd::from_array(fill));
    assert!(sv.len() == new_len);
    assert!(sv.simd_len() == (new_len + 15) / 16);
    let view = sv.as_ref();
    assert!(view.len() == new_len);
    let mut i = 0;
    while i < new_len {
        assert!(view[i] == if i < 16 { first[i] } else { fill[i - 16] });
        i += 1;
    }
    kani::cover!(first[0] == i32::MIN && fill[0] == 9);
}

/// `reset_from_iter_simd(new_len, iter)` on a SimdVec with ARBITRARY previous length and contents
/// (2 stale vectors): afterwards the vectors are exactly the first ceil(new_len/16) items of the
/// iterator - nothing of the previous block survives, nothing beyond the needed vectors is taken -
/// and the scalar view has `new_len` elements.  This is how the windowed-signal scratch of the LPC
/// estimator is refilled for every block (`fill_windowed_signal`).
//@ unit props=C10,C01 tier=quick kind=bounded timeout=600 funcs="SimdVec::reset_from_iter_simd; SimdVec::iter_simd; SimdVec::simd_len" bound="2 stale vectors; new length 0, 5, 16, 17 and 32 from an iterator of 3 vectors"
#[kani::proof]
#[kani::unwind(70)]
fn c10_simdvec_reset_from_iter() {
    c10_simdvec_reset_from_iter_body(0);
    c10_simdvec_reset_from_iter_body(5);
    c10_simdvec_reset_from_iter_body(16);
    c10_simdvec_reset_from_iter_body(17);
    c10_simdvec_reset_from_iter_body(32);
}

fn c10_simdvec_reset_from_iter_body(new_len: usize) {
    let mut sv = any_simdvec_i32x16(2);
    let src = any_simdvec_i32x16(3);
    let a: [i32; 16] = *src.as_ref_simd()[0].as_array();
    let b: [i32; 16] = *src.as_ref_simd()[1].as_array();
    sv.reset_from_iter_simd(new_len, src.iter_simd().map(|v| *v));
    let want = (new_len + 15) / 16;
    assert!(sv.len() == new_len);
    assert!(sv.simd_len() == want);
    if want >= 1 {
        assert!(*sv.as_ref_simd()[0].as_array() == a);
    }
    if want >= 2 {
        assert!(*sv.as_ref_simd()[1].as_array() == b);
    }
    let view = sv.as_ref();
    assert!(view.len() == new_len);
    let mut i = 0;
    while i < new_len {
        assert!(view[i] == if i < 16 { a[i] } else { b[i - 16] });
        i += 1;
    }
}

// ================================================================================================
// C01: constant-block detection (bounded companion of Verus unit `is_constant`, which is unbounded
// but tied to the text of the loop; this one accepts any rewrite of the body)
// ================================================================================================

fn is_constant_body<const N: usize>() {
    let a: [i32; N] = kani::any();
    let mut all_equal = true;
    let mut i = 1;
    while i < N {
        if a[i] != a[0] {
            all_equal = false;
        }
        i += 1;
    }
    assert!(is_constant(&a[..]) == all_equal);
    kani::cover!(all_equal);
    kani::cover!(!all_equal);
}

/// `is_constant(s)` is true exactly when every element equals the first (true for the empty and
/// the one-element slice).  A CONSTANT subframe stores one sample for the whole block, so a
/// `true` for a non-constant block loses audio (C01) and a `false` for a constant one only costs bits.
//@ unit props=C01 tier=quick kind=bounded timeout=600 funcs="arrayutils::is_constant" bound="slices of 0, 1, 2, 3, 15, 16, 17, 31, 33 and 65 samples (below, at and above 16/32/64-lane boundaries); every i32 value"
#[kani::proof]
#[kani::unwind(70)]
fn c01_is_constant_small() {
    let e: [i32; 0] = [];
    assert!(is_constant(&e[..]));
    let one: [i32; 1] = kani::any();
    assert!(is_constant(&one[..]));
    is_constant_body::<2>();
    is_constant_body::<3>();
    is_constant_body::<15>();
    is_constant_body::<16>();
    is_constant_body::<17>();
    is_constant_body::<31>();
    is_constant_body::<33>();
    is_constant_body::<65>();
}
