// Harnesses for src/component/datatype.rs (child module `component::datatype::verif_c18`).
//
// C18 "Public component constructors are total and imply serialisability":
//   every public constructor either returns Err or returns a component that verifies, serialises
//   without panicking to exactly `count_bits()` bits (in the RFC 9639 layout, so that a decoder
//   reads the same component back); no argument combination makes a constructor or `verify()`
//   panic.
//
// Conventions of this file
// * slice LENGTHS and the scalars that steer loops / divisions (partition order, block size,
//   warm-up length, LPC order) are concrete per call of a body fn (README pitfall 1: a symbolic
//   warm-up length alone costs 4x, a symbolic block size > 400 s); each unit enumerates a set of
//   such "shapes" that contains every inconsistent combination named by the property.  Every
//   element value and every remaining scalar is symbolic over its full type.
// * "total" == the call returns: Kani reports every reachable panic / arithmetic overflow / failed
//   (debug_)assert / out-of-bounds index inside the callee as a failed check.
// * the 64/32-lane reductions called by `Residual::from_parts` are replaced by their scalar
//   contracts (README pitfall 5); the contracts are proved by c18_find_max_contract /
//   c18_wrapping_sum_contract below.
// * `StreamInfo::new` and `FrameHeader::new` are covered by datatype::verif::c17_*.
// * error VALUES are abstracted (`format!` and `VerifyError::within` stubbed): only Ok/Err matters.
//
// Proof architecture (each arrow is a unit family; all on the bounded shapes listed per unit)
//   X::new total; Ok ==> F(c)              c18_*_new*        (F: facts about the accessors)
//   verify() total on arbitrary fields,
//   verify() Ok <==> wf(c)                  c18_*_verify_gate* (wf: spec predicate, RFC + crate limits)
//   wf(c) ==> count_bits()/write() do not panic and agree (and the header fields are in place)
//                                           c18_*_verify_gate*, c18_residual_new_ok_*
//   F(c) is wf(c) given that component-typed arguments are public values (verify() Ok)
// `Residual`, `Constant`, `Verbatim`, `QuantizedParameters`, `MetadataBlockData` are additionally
// checked end-to-end (new -> verify -> write) in one unit; for `FixedLpc` / `Lpc` the end-to-end
// instance exceeds 400 s even for a 2-sample residual, hence the split.

use crate::bitsink::verif::SpecSink;

// ================================================================================================
// Callee contracts for the fake-SIMD reductions used by `Residual::from_parts`
// ================================================================================================

/// contract of `arrayutils::find_max::<N>`: the maximum of the slice, 0 when empty.
fn contract_find_max<const N: usize>(data: &[u32]) -> u32
where
    simd::LaneCount<N>: simd::SupportedLaneCount,
{
    let mut m = 0u32;
    let mut i = 0;
    while i < data.len() {
        if data[i] > m {
            m = data[i];
        }
        i += 1;
    }
    m
}

/// contract of `arrayutils::wrapping_sum::<T, N>`: the wrapping sum of the slice.
fn contract_wrapping_sum<T, const N: usize>(data: &[T]) -> T
where
    T: simd::SimdElement + num_traits::WrappingAdd + num_traits::Zero,
    simd::LaneCount<N>: simd::SupportedLaneCount,
{
    let mut s = T::zero();
    let mut i = 0;
    while i < data.len() {
        s = s.wrapping_add(&data[i]);
        i += 1;
    }
    s
}

//@ unit props=C18 tier=quick kind=bounded timeout=600 funcs="arrayutils::find_max::<64>" bound="slices of 0..=4 elements (the sizes the C18 units use), every u32 value"
#[kani::proof]
#[kani::unwind(66)]
fn c18_find_max_contract() {
    let a: [u32; 4] = kani::any();
    let n: usize = kani::any();
    kani::assume(n <= 4);
    assert!(find_max::<64>(&a[0..n]) == contract_find_max::<64>(&a[0..n]));
    kani::cover!(n == 4 && a[3] > a[0]);
}

//@ unit props=C18 tier=quick kind=bounded timeout=600 funcs="arrayutils::wrapping_sum::<u32, 32>" bound="slices of 0..=4 elements (the sizes the C18 units use), every u32 value"
#[kani::proof]
#[kani::unwind(34)]
fn c18_wrapping_sum_contract() {
    let a: [u32; 4] = kani::any();
    let n: usize = kani::any();
    kani::assume(n <= 4);
    assert!(wrapping_sum::<u32, 32>(&a[0..n]) == contract_wrapping_sum::<u32, 32>(&a[0..n]));
    kani::cover!(n == 4 && a[0] == u32::MAX && a[1] == 2);
}

// ================================================================================================
// Shared helpers
// ================================================================================================

/// Replacement for `VerifyError::within` (appends a path component to an error value): the
/// harnesses only observe `is_ok()/is_err()`, and growing a `Vec<String>` that is merged over
/// ~30 error paths dominates `FixedLpc::verify` / `Lpc::verify` otherwise (260 s -> 31 s).
fn stub_within(e: VerifyError, _component: &str) -> VerifyError {
    e
}

/// A user sink that only measures: every primitive operation checks its own pre-condition (no
/// more bits than the value type has) and advances the length; `write_zeros` is overridden the
/// way `MemSink` does.  All panics / overflows / index errors inside a component's `write` stay
/// visible; the bit CONTENTS of well-formed components are bitrepr::verif_sub (C02/C08).
struct LenSink {
    len: usize,
}

impl BitSink for LenSink {
    type Error = crate::bitsink::verif::SpecSinkError;
    fn align_to_byte(&mut self) -> Result<usize, Self::Error> {
        let r = (8 - self.len % 8) % 8;
        self.len += r;
        Ok(r)
    }
    fn write_lsbs<T: crate::bitsink::Bits>(&mut self, _val: T, n: usize) -> Result<(), Self::Error> {
        assert!(n <= 8 * std::mem::size_of::<T>());
        self.len += n;
        Ok(())
    }
    fn write_msbs<T: crate::bitsink::Bits>(&mut self, _val: T, n: usize) -> Result<(), Self::Error> {
        assert!(n <= 8 * std::mem::size_of::<T>());
        self.len += n;
        Ok(())
    }
    fn write<T: crate::bitsink::Bits>(&mut self, _val: T) -> Result<(), Self::Error> {
        self.len += 8 * std::mem::size_of::<T>();
        Ok(())
    }
    fn write_zeros(&mut self, n: usize) -> Result<(), Self::Error> {
        self.len += n;
        Ok(())
    }
}

/// `count_bits()` does not panic, `write` succeeds without panicking and delivers exactly
/// `count_bits()` bits (length only; every quotient value).
fn serialises_len<T: BitRepr>(c: &T) -> usize {
    let n = c.count_bits();
    let mut s = LenSink { len: 0 };
    assert!(c.write(&mut s).is_ok());
    assert!(s.len == n);
    n
}

/// Same into the ideal bit string; returns the written bits for layout checks.
fn serialises<T: BitRepr>(c: &T) -> SpecSink {
    let n = c.count_bits();
    let mut s = SpecSink::new();
    assert!(c.write(&mut s).is_ok());
    assert!(s.id.len == n);
    s
}

/// Bits `[pos, pos + n)` of the written string as an integer (1 <= n <= 32, pos + n <= 64).
fn field(s: &SpecSink, pos: usize, n: usize) -> u64 {
    (s.id.w[0] << pos) >> (64 - n)
}

// ================================================================================================
// Specification predicates (from RFC 9639 and the crate's documented limits, not from the code)
// ================================================================================================

/// The sample widths a sub-frame can have in this crate: 8..=24 in steps of 4, plus one for a
/// side channel.
fn spec_bps(bps: usize) -> bool {
    8 <= bps && bps <= 25 && (bps % 4 == 0 || bps % 4 == 1)
}

/// RESIDUAL (RFC 9639 section 9.2.7, 4-bit parameters): partition order <= 15 with 2^order
/// parameters, block (<= 32767) split evenly, the warm-up samples all in the first partition,
/// no parameter is the escape code (<= 14), every remainder fits its parameter, the padding of
/// the warm-up samples is zero, and the cached sums are the sums.  Some(size in bits) / None.
fn spec_residual_bits(res: &Residual) -> Option<u64> {
    let order = res.partition_order as usize;
    if order > 15 {
        return None;
    }
    let nparts = 1usize << order;
    let bs = res.block_size;
    if res.rice_params.len() != nparts || res.quotients.len() != bs || res.remainders.len() != bs {
        return None;
    }
    if bs > 32767 || bs % nparts != 0 {
        return None;
    }
    let part_len = bs / nparts;
    if res.warmup_length > part_len {
        return None;
    }
    let mut bits: u64 = 6 + 4 * nparts as u64;
    let mut sum_p = 0usize;
    let mut i = 0;
    while i < nparts {
        if res.rice_params[i] > 14 {
            return None;
        }
        sum_p += res.rice_params[i] as usize;
        i += 1;
    }
    let mut sum_q = 0usize;
    let mut t = 0;
    while t < bs {
        if t < res.warmup_length {
            if res.quotients[t] != 0 || res.remainders[t] != 0 {
                return None;
            }
        } else {
            let p = res.rice_params[t / part_len];
            if (res.remainders[t] as u64) >= (1u64 << p) {
                return None;
            }
            bits += res.quotients[t] as u64 + 1 + p as u64;
        }
        sum_q += res.quotients[t] as usize;
        t += 1;
    }
    if res.sum_quotients != sum_q || res.sum_rice_params != sum_p {
        return None;
    }
    Some(bits)
}

/// Quantised LPC parameters as the LPC sub-frame header can carry them (RFC 9639 section 9.2.6
/// and the crate's limits): at most 24 coefficients, precision 1..=15 (written as precision-1 in
/// 4 bits, 0b1111 is invalid), non-negative 5-bit shift, every coefficient fits the precision.
fn spec_qp_wf(qp: &QuantizedParameters) -> bool {
    if qp.order > 24 || qp.precision < 1 || qp.precision > 15 || qp.shift < 0 || qp.shift > 15 {
        return false;
    }
    let mut j = 0;
    while j < qp.order {
        if !spec_fits(qp.coefs[j] as i64, qp.precision) {
            return false;
        }
        j += 1;
    }
    true
}

fn spec_samples_fit(x: &[i32], bps: usize) -> bool {
    let mut i = 0;
    while i < x.len() {
        if !spec_fits(x[i] as i64, bps) {
            return false;
        }
        i += 1;
    }
    true
}

/// SUBFRAME_FIXED (section 9.2.5): order <= 4 (structural), valid width, warm-up samples fit,
/// and the residual codes exactly block - order samples.  Some(size in bits) / None.
fn spec_fixed_bits(c: &FixedLpc) -> Option<u64> {
    let bps = c.bits_per_sample as usize;
    if !spec_bps(bps) || !spec_samples_fit(&c.warm_up, bps) {
        return None;
    }
    if c.residual.warmup_length != c.warm_up.len() {
        return None;
    }
    match spec_residual_bits(&c.residual) {
        Some(b) => Some(8 + (bps * c.warm_up.len()) as u64 + b),
        None => None,
    }
}

/// SUBFRAME_LPC (section 9.2.6): 1 <= order == number of warm-up samples == warm-up length of
/// the residual, parameters well-formed, valid width, samples fit.  Some(size in bits) / None.
fn spec_lpc_bits(c: &Lpc) -> Option<u64> {
    let bps = c.bits_per_sample as usize;
    let order = c.parameters.order;
    if !spec_qp_wf(&c.parameters) || order < 1 || c.warm_up.len() != order {
        return None;
    }
    if !spec_bps(bps) || !spec_samples_fit(&c.warm_up, bps) {
        return None;
    }
    if c.residual.warmup_length != order {
        return None;
    }
    match spec_residual_bits(&c.residual) {
        Some(b) => Some(8 + (bps * order) as u64 + 4 + 5 + (c.parameters.precision * order) as u64 + b),
        None => None,
    }
}

// ================================================================================================
// Residual
// ================================================================================================

/// One call of `Residual::new` with a concrete shape and symbolic contents.  The call must return;
/// `Ok` must report the arguments unchanged (no `as u8` re-interpretation of the order) and the
/// lengths must have been consistent.
fn residual_new_total<const NP: usize, const NQ: usize, const NR: usize>(
    order: usize,
    bs: usize,
    w: usize,
) -> bool {
    let p: [u8; NP] = kani::any();
    let q: [u32; NQ] = kani::any();
    let r: [u32; NR] = kani::any();
    match Residual::new(order, bs, w, &p, &q, &r) {
        Ok(c) => {
            assert!(c.partition_order() == order && c.block_size() == bs);
            assert!(c.warmup_length() == w);
            assert!(NQ == bs && NR == bs && order < 64 && NP == (1usize << order));
            true
        }
        Err(_) => false,
    }
}

//@ unit props=C18 tier=quick kind=bounded timeout=600 funcs="Residual::new; Residual::from_parts; Residual::verify" stubs="find_max -> scalar maximum (c18_find_max_contract); wrapping_sum -> scalar wrapping sum (c18_wrapping_sum_contract)" bound="shapes (order, block, warm-up | #params, #quotients, #remainders): lengths that disagree with each other, with the block size, or with 2^order; all values symbolic"
#[kani::proof]
#[kani::unwind(8)]
#[kani::stub(std::fmt::format, stub_format)]
#[kani::stub(find_max, contract_find_max)]
#[kani::stub(wrapping_sum, contract_wrapping_sum)]
fn c18_residual_new_total_lengths() {
    let ok = residual_new_total::<1, 2, 2>(0, 2, 0); // consistent: reachable Ok
    kani::cover!(ok);
    residual_new_total::<1, 2, 1>(0, 2, 0); // remainders shorter than quotients
    residual_new_total::<1, 1, 2>(0, 2, 0); // quotients shorter than the block
    residual_new_total::<1, 2, 2>(0, 3, 0); // block size above the lengths
    residual_new_total::<1, 2, 2>(1, 2, 0); // 1 parameter for 2 partitions
    residual_new_total::<2, 2, 2>(0, 2, 0); // 2 parameters for 1 partition
    residual_new_total::<0, 2, 2>(0, 2, 0); // no parameter at all
}

//@ unit props=C18 tier=quick kind=bounded timeout=600 funcs="Residual::new; Residual::from_parts; Residual::verify" stubs="find_max -> scalar maximum (c18_find_max_contract); wrapping_sum -> scalar wrapping sum (c18_wrapping_sum_contract)" bound="shapes: partition order 20 / 64 / 256, warm-up above the block size / usize::MAX, block size usize::MAX; all values symbolic"
#[kani::proof]
#[kani::unwind(8)]
#[kani::stub(std::fmt::format, stub_format)]
#[kani::stub(find_max, contract_find_max)]
#[kani::stub(wrapping_sum, contract_wrapping_sum)]
fn c18_residual_new_total_scalars() {
    residual_new_total::<1, 2, 2>(20, 2, 0); // order above 15
    residual_new_total::<1, 2, 2>(64, 2, 0); // `1 << order` out of range
    residual_new_total::<1, 2, 2>(256, 2, 0); // `order as u8` == 0
    residual_new_total::<1, 2, 2>(0, 2, 3); // warm-up longer than the block
    residual_new_total::<1, 2, 2>(0, 2, usize::MAX);
    residual_new_total::<1, 2, 2>(0, usize::MAX, 0); // `max_quotient * block_size`
}

//@ unit props=C18 tier=quick kind=bounded timeout=600 funcs="Residual::new; Residual::from_parts; Residual::verify" stubs="find_max -> scalar maximum (c18_find_max_contract); wrapping_sum -> scalar wrapping sum (c18_wrapping_sum_contract)" bound="shapes: empty block, more partitions than samples, block not a multiple of the partition count, warm-up reaching into the second partition; all values symbolic"
#[kani::proof]
#[kani::unwind(8)]
#[kani::stub(std::fmt::format, stub_format)]
#[kani::stub(find_max, contract_find_max)]
#[kani::stub(wrapping_sum, contract_wrapping_sum)]
fn c18_residual_new_total_partitions() {
    let ok = residual_new_total::<1, 0, 0>(0, 0, 0); // empty block
    kani::cover!(ok);
    residual_new_total::<4, 2, 2>(2, 2, 0); // partition length 0
    residual_new_total::<2, 3, 3>(1, 3, 0); // 3 samples in 2 partitions
    residual_new_total::<2, 2, 2>(1, 2, 2); // warm-up == block > partition length
    let ok = residual_new_total::<2, 4, 4>(1, 4, 1);
    kani::cover!(ok);
}

/// A `Residual` of a concrete shape with arbitrary contents and cached sums (what serde
/// `Deserialize` or the crate-private `from_parts` can produce).
fn any_residual_literal<const NP: usize, const NQ: usize, const NR: usize>(
    order: u8,
    bs: usize,
    w: usize,
) -> Residual {
    Residual {
        partition_order: order,
        block_size: bs,
        warmup_length: w,
        rice_params: Vec::from(kani::any::<[u8; NP]>()),
        quotients: Vec::from(kani::any::<[u32; NQ]>()),
        remainders: Vec::from(kani::any::<[u32; NR]>()),
        sum_quotients: kani::any(),
        sum_rice_params: kani::any(),
    }
}

/// `Residual::verify()` is the gate for values that did not come through `new`.  On a concrete
/// shape with ARBITRARY contents it returns, Ok <==> the residual is well-formed
/// (`spec_residual_bits`), and then `count_bits()` does not panic and is the independently
/// computed size.  (Well-formed ==> `write` delivers that many bits in the RFC layout:
/// c18_residual_new_ok_* here and bitrepr::verif_sub.)
fn residual_verify_gate<const NP: usize, const NQ: usize, const NR: usize>(
    order: u8,
    bs: usize,
    w: usize,
) -> bool {
    let res = any_residual_literal::<NP, NQ, NR>(order, bs, w);
    let ok = res.verify().is_ok();
    let wf = spec_residual_bits(&res);
    assert!(ok == wf.is_some());
    if let Some(bits) = wf {
        assert!(res.count_bits() as u64 == bits);
    }
    ok
}

//@ unit props=C18 tier=quick kind=bounded timeout=600 funcs="Residual::verify; Residual::count_bits" bound="shapes (order, block, warm-up | #params, #quotients, #remainders) as in c18_residual_new_total_lengths plus well-formed ones; contents and cached sums symbolic"
#[kani::proof]
#[kani::unwind(8)]
#[kani::stub(std::fmt::format, stub_format)]
fn c18_residual_verify_gate_lengths() {
    let ok = residual_verify_gate::<1, 2, 2>(0, 2, 0);
    kani::cover!(ok);
    let ok = residual_verify_gate::<1, 3, 3>(0, 3, 2);
    kani::cover!(ok);
    residual_verify_gate::<1, 2, 1>(0, 2, 0);
    residual_verify_gate::<1, 1, 2>(0, 2, 0);
    residual_verify_gate::<1, 2, 2>(0, 3, 0);
    residual_verify_gate::<1, 2, 2>(1, 2, 0);
    residual_verify_gate::<2, 2, 2>(0, 2, 0);
    residual_verify_gate::<0, 2, 2>(0, 2, 0);
}

//@ unit props=C18 tier=quick kind=bounded timeout=600 funcs="Residual::verify; Residual::count_bits" bound="shapes: partition order 20 / 64 / 255, warm-up above the block size / usize::MAX, empty block; contents and cached sums symbolic"
#[kani::proof]
#[kani::unwind(8)]
#[kani::stub(std::fmt::format, stub_format)]
fn c18_residual_verify_gate_scalars() {
    residual_verify_gate::<1, 2, 2>(20, 2, 0);
    residual_verify_gate::<1, 2, 2>(64, 2, 0);
    residual_verify_gate::<1, 2, 2>(255, 2, 0);
    residual_verify_gate::<1, 2, 2>(0, 2, 3);
    residual_verify_gate::<1, 2, 2>(0, 2, usize::MAX);
    let ok = residual_verify_gate::<1, 0, 0>(0, 0, 0);
    kani::cover!(ok);
}

//@ unit props=C18 tier=quick kind=bounded timeout=600 funcs="Residual::verify; Residual::count_bits" bound="shapes: partition length 0, uneven partitions, warm-up beyond the first partition, order 1 with block 4 and warm-up 2; contents and cached sums symbolic"
#[kani::proof]
#[kani::unwind(8)]
#[kani::stub(std::fmt::format, stub_format)]
fn c18_residual_verify_gate_partitions() {
    residual_verify_gate::<4, 2, 2>(2, 2, 0);
    residual_verify_gate::<2, 3, 3>(1, 3, 0);
    residual_verify_gate::<2, 2, 2>(1, 2, 2);
    residual_verify_gate::<2, 4, 4>(1, 4, 3);
    let ok = residual_verify_gate::<2, 4, 4>(1, 4, 2);
    kani::cover!(ok);
}

/// Field-wise identical copy of `c`, rebuilt from the (asserted equal) concrete scalars and the
/// argument arrays: a value moved out of a `Result` loses CBMC's constant propagation for the
/// loop-steering scalars and the Vec pointers (block 2: 267 s with the moved value, 41 s with the
/// copy).  The cached sums are taken from `c`.
fn residual_rebuilt(
    c: Residual,
    order: usize,
    bs: usize,
    w: usize,
    p: &[u8],
    q: &[u32],
    r: &[u32],
) -> Residual {
    assert!(c.partition_order as usize == order && c.block_size == bs && c.warmup_length == w);
    assert!(c.rice_params.len() == p.len());
    assert!(c.quotients.len() == q.len() && c.remainders.len() == r.len());
    let mut i = 0;
    while i < p.len() {
        assert!(c.rice_params[i] == p[i]);
        i += 1;
    }
    let mut i = 0;
    while i < q.len() {
        assert!(c.quotients[i] == q[i]);
        i += 1;
    }
    let mut i = 0;
    while i < r.len() {
        assert!(c.remainders[i] == r[i]);
        i += 1;
    }
    Residual {
        partition_order: order as u8,
        block_size: bs,
        warmup_length: w,
        rice_params: p.to_vec(),
        quotients: q.to_vec(),
        remainders: r.to_vec(),
        sum_quotients: c.sum_quotients,
        sum_rice_params: c.sum_rice_params,
    }
}

/// END-TO-END: `Residual::new(..) == Ok(c)`  ==>  `c` holds the arguments, is well-formed,
/// verifies, and serialises without panicking to exactly `count_bits()` bits (== the
/// independently computed size) with the partition order and the first parameter at their RFC
/// positions.  Quotients are bounded by 70 only here (the zero run is `BitSink::write_zeros`,
/// proved for every length in bitsink::verif); parameters and remainders range over their types.
fn residual_new_ok_serialises<const NP: usize, const N: usize>(order: usize, w: usize) -> bool {
    let p: [u8; NP] = kani::any();
    let q: [u32; N] = kani::any();
    let r: [u32; N] = kani::any();
    let mut i = 0;
    while i < N {
        kani::assume(q[i] <= 70);
        i += 1;
    }
    match Residual::new(order, N, w, &p, &q, &r) {
        Ok(c) => {
            let c = residual_rebuilt(c, order, N, w, &p, &q, &r);
            let wf = spec_residual_bits(&c);
            assert!(wf.is_some());
            let s = serialises(&c);
            assert!(Some(s.id.len as u64) == wf);
            assert!(field(&s, 0, 6) == order as u64);
            assert!(field(&s, 6, 4) == p[0] as u64);
            assert!(c.rice_parameter(0) == p[0] as usize);
            assert!(c.verify().is_ok());
            true
        }
        Err(_) => false,
    }
}

macro_rules! residual_new_ok_harness {
    ($name:ident, $np:expr, $n:expr, $order:expr, $w:expr, $reachable:expr) => {
        #[kani::proof]
        #[kani::unwind(8)]
        #[kani::stub(std::fmt::format, stub_format)]
        #[kani::stub(find_max, contract_find_max)]
        #[kani::stub(wrapping_sum, contract_wrapping_sum)]
        fn $name() {
            let ok = residual_new_ok_serialises::<$np, $n>($order, $w);
            if $reachable {
                kani::cover!(ok);
            }
        }
    };
}

//@ unit name=c18_residual_new_ok_o0_n2_w0 props=C18 tier=thorough kind=bounded timeout=600 funcs="Residual::new; Residual::verify; Residual::write; Residual::count_bits" stubs="find_max -> scalar maximum (c18_find_max_contract); wrapping_sum -> scalar wrapping sum (c18_wrapping_sum_contract)" bound="partition order 0, block 2, warm-up 0; quotients <= 70, parameters and remainders symbolic"
//@ unit name=c18_residual_new_ok_o0_n3_w2 props=C18 tier=thorough kind=bounded timeout=600 funcs="Residual::new; Residual::verify; Residual::write; Residual::count_bits" stubs="find_max -> scalar maximum (c18_find_max_contract); wrapping_sum -> scalar wrapping sum (c18_wrapping_sum_contract)" bound="partition order 0, block 3, warm-up 2; quotients <= 70, parameters and remainders symbolic"
//@ unit name=c18_residual_new_ok_o1_n4_w1 props=C18 tier=thorough kind=bounded timeout=600 funcs="Residual::new; Residual::verify; Residual::write; Residual::count_bits" stubs="find_max -> scalar maximum (c18_find_max_contract); wrapping_sum -> scalar wrapping sum (c18_wrapping_sum_contract)" bound="partition order 1, block 4, warm-up 1; quotients <= 70, parameters and remainders symbolic"
//@ unit name=c18_residual_new_ok_o1_n4_w3 props=C18 tier=quick kind=bounded timeout=600 funcs="Residual::new; Residual::verify; Residual::write; Residual::count_bits" stubs="find_max -> scalar maximum (c18_find_max_contract); wrapping_sum -> scalar wrapping sum (c18_wrapping_sum_contract)" bound="partition order 1, block 4, warm-up 3 (reaches into the second partition: must be rejected or serialisable); quotients <= 70, parameters and remainders symbolic"
residual_new_ok_harness!(c18_residual_new_ok_o0_n2_w0, 1, 2, 0, 0, true);
residual_new_ok_harness!(c18_residual_new_ok_o0_n3_w2, 1, 3, 0, 2, true);
residual_new_ok_harness!(c18_residual_new_ok_o1_n4_w1, 2, 4, 1, 1, true);
residual_new_ok_harness!(c18_residual_new_ok_o1_n4_w3, 2, 4, 1, 3, false);

// ================================================================================================
// QuantizedParameters
// ================================================================================================

/// Field-wise identical copy with the (asserted equal) concrete order, see `residual_rebuilt`.
fn qp_rebuilt(qp: QuantizedParameters, order: usize) -> QuantizedParameters {
    assert!(qp.order == order);
    QuantizedParameters {
        coefs: qp.coefs,
        order,
        shift: qp.shift,
        precision: qp.precision,
    }
}

/// One call of `QuantizedParameters::new` with a concrete (number of coefficients, order) and
/// symbolic coefficients / shift / precision: returns; Ok ==> the lengths were consistent, the
/// value reports the arguments, is well-formed and verifies.
fn qp_new<const NC: usize>(order: usize) -> bool {
    let coefs: [i16; NC] = kani::any();
    let shift: i8 = kani::any();
    let precision: usize = kani::any();
    match QuantizedParameters::new(&coefs, order, shift, precision) {
        Ok(qp) => {
            assert!(order == NC);
            assert!(qp.order() == order && qp.shift() == shift && qp.precision() == precision);
            let qp = qp_rebuilt(qp, NC);
            assert!(spec_qp_wf(&qp));
            assert!(qp.verify().is_ok());
            let mut j = 0;
            while j < NC {
                assert!(qp.coefficient(j) == Some(coefs[j]));
                j += 1;
            }
            assert!(qp.coefficient(NC).is_none());
            true
        }
        Err(_) => false,
    }
}

//@ unit props=C18 tier=quick kind=bounded timeout=600 funcs="QuantizedParameters::new; QuantizedParameters::from_parts; QuantizedParameters::verify" bound="(#coefficients, order) in {(1,1),(2,2),(0,0),(2,1),(1,2),(0,1),(2,33),(1,usize::MAX)}; coefficients, shift (every i8) and precision (every usize) symbolic"
#[kani::proof]
#[kani::unwind(8)]
#[kani::stub(std::fmt::format, stub_format)]
fn c18_qp_new_small() {
    let ok = qp_new::<1>(1);
    kani::cover!(ok);
    let ok = qp_new::<2>(2);
    kani::cover!(ok);
    qp_new::<0>(0);
    qp_new::<2>(1); // more coefficients than the order
    qp_new::<1>(2); // fewer
    qp_new::<0>(1);
    qp_new::<2>(33); // order beyond the 32 lanes
    qp_new::<1>(usize::MAX);
}

//@ unit props=C18 tier=quick kind=bounded timeout=600 funcs="QuantizedParameters::new; QuantizedParameters::from_parts; QuantizedParameters::verify" bound="(#coefficients, order) in {(25,25),(33,33)}: above the maximum order / above the 32 lanes; coefficients, shift and precision symbolic"
#[kani::proof]
#[kani::unwind(36)]
#[kani::stub(std::fmt::format, stub_format)]
fn c18_qp_new_too_large() {
    qp_new::<25>(25);
    qp_new::<33>(33);
}

//@ unit props=C18 tier=thorough kind=bounded timeout=1800 funcs="QuantizedParameters::new; QuantizedParameters::from_parts; QuantizedParameters::verify" bound="24 coefficients, order 24 (the maximum); coefficients, shift and precision symbolic"
#[kani::proof]
#[kani::unwind(27)]
#[kani::stub(std::fmt::format, stub_format)]
fn c18_qp_new_max_order() {
    let ok = qp_new::<24>(24);
    kani::cover!(ok);
}

/// `QuantizedParameters::verify()` on arbitrary field values: returns, and Ok <==> well-formed.
fn qp_verify_gate(order: usize) -> bool {
    let qp = QuantizedParameters {
        coefs: simd::i16x32::from_array(kani::any()),
        order,
        shift: kani::any(),
        precision: kani::any(),
    };
    let ok = qp.verify().is_ok();
    assert!(ok == spec_qp_wf(&qp));
    ok
}

//@ unit props=C18 tier=quick kind=bounded timeout=600 funcs="QuantizedParameters::verify" bound="order in {0,1,2,25,32,33,usize::MAX}; all 32 lanes, shift and precision symbolic"
#[kani::proof]
#[kani::unwind(8)]
#[kani::stub(std::fmt::format, stub_format)]
fn c18_qp_verify_gate_small() {
    qp_verify_gate(0);
    let ok = qp_verify_gate(1);
    kani::cover!(ok);
    let ok = qp_verify_gate(2);
    kani::cover!(ok);
    qp_verify_gate(25);
    qp_verify_gate(32);
    qp_verify_gate(33);
    qp_verify_gate(usize::MAX);
}

//@ unit props=C18 tier=thorough kind=bounded timeout=600 funcs="QuantizedParameters::verify" bound="order 24 (the maximum); all 32 lanes, shift and precision symbolic"
#[kani::proof]
#[kani::unwind(27)]
#[kani::stub(std::fmt::format, stub_format)]
fn c18_qp_verify_gate_max_order() {
    let ok = qp_verify_gate(24);
    kani::cover!(ok);
}

// ================================================================================================
// Constant / Verbatim
// ================================================================================================

/// `Constant::new` over the full domain of all three arguments (loop-free: complete).
/// Ok <=> block size <= 32767, valid width, offset fits the width; Ok ==> verifies and
/// serialises to 8 + bps bits: header byte 0 and the offset in two's complement.
//@ unit props=C18 tier=quick kind=complete timeout=600 funcs="Constant::new; Constant::verify; Constant::write; Constant::count_bits"
#[kani::proof]
#[kani::unwind(8)]
#[kani::stub(std::fmt::format, stub_format)]
fn c18_constant_new() {
    let bs: usize = kani::any();
    let dc: i32 = kani::any();
    let bps: usize = kani::any();
    let valid = bs <= 32767 && spec_bps(bps) && spec_fits(dc as i64, if spec_bps(bps) { bps } else { 8 });
    match Constant::new(bs, dc, bps) {
        Ok(c) => {
            assert!(valid);
            assert!(c.verify().is_ok());
            assert!(c.block_size() == bs && c.dc_offset() == dc && c.bits_per_sample() == bps);
            let s = serialises(&c);
            assert!(s.id.len == 8 + bps);
            assert!(field(&s, 0, 8) == 0);
            assert!(field(&s, 8, bps) == (dc as i64 as u64) & ((1u64 << bps) - 1));
        }
        Err(_) => assert!(!valid),
    }
    kani::cover!(valid && bs == 0);
    kani::cover!(valid && bps == 25 && dc < 0);
    kani::cover!(bps == 0);
    kani::cover!(bps == 300);
}

/// `Constant::verify()` on arbitrary fields: returns; Ok <==> well-formed; then serialisable.
//@ unit props=C18 tier=quick kind=complete timeout=600 funcs="Constant::verify; Constant::write; Constant::count_bits"
#[kani::proof]
#[kani::unwind(8)]
#[kani::stub(std::fmt::format, stub_format)]
fn c18_constant_verify_gate() {
    let c = Constant {
        block_size: kani::any(),
        dc_offset: kani::any(),
        bits_per_sample: kani::any(),
    };
    let bps = c.bits_per_sample as usize;
    let wf = c.block_size <= 32767 && spec_bps(bps) && spec_fits(c.dc_offset as i64, if spec_bps(bps) { bps } else { 8 });
    let ok = c.verify().is_ok();
    assert!(ok == wf);
    if ok {
        serialises(&c);
    }
    kani::cover!(ok);
    kani::cover!(c.bits_per_sample == 0);
}

fn verbatim_new<const N: usize>() {
    let x: [i32; N] = kani::any();
    let bps: usize = kani::any();
    let fits = spec_bps(bps) && spec_samples_fit(&x, if spec_bps(bps) { bps } else { 8 });
    match Verbatim::new(&x, bps) {
        Ok(c) => {
            assert!(fits);
            assert!(c.verify().is_ok());
            assert!(c.bits_per_sample() == bps && c.samples().len() == N);
            let s = serialises(&c);
            assert!(s.id.len == 8 + N * bps);
            assert!(field(&s, 0, 8) == 2);
            if N > 0 {
                assert!(c.samples()[0] == x[0]);
                assert!(field(&s, 8, bps) == (x[0] as i64 as u64) & ((1u64 << bps) - 1));
            }
        }
        Err(_) => assert!(!fits),
    }
    kani::cover!(fits);
    kani::cover!(bps == 0);
}

/// `Verbatim::new`: Ok <=> valid width and every sample fits; Ok ==> verifies and serialises to
/// 8 + n * bps bits (header byte 0x02, first sample at its position).
//@ unit props=C18 tier=quick kind=bounded timeout=600 funcs="Verbatim::new; Verbatim::verify; Verbatim::write; Verbatim::count_bits" bound="2 samples; every sample value and every usize width" note="the upper length limit (32767 samples) is out of reach for a symbolic unit; Verbatim::new(&[0; 40000], 16) is Ok but verify() is Err on the unchanged tree (native probe)"
#[kani::proof]
#[kani::unwind(8)]
#[kani::stub(std::fmt::format, stub_format)]
fn c18_verbatim_new_n2() {
    verbatim_new::<2>();
}

//@ unit props=C18 tier=quick kind=bounded timeout=600 funcs="Verbatim::new; Verbatim::verify; Verbatim::write; Verbatim::count_bits" bound="no sample; every usize width"
#[kani::proof]
#[kani::unwind(8)]
#[kani::stub(std::fmt::format, stub_format)]
fn c18_verbatim_new_n0() {
    verbatim_new::<0>();
}

// ================================================================================================
// FixedLpc / Lpc
// ================================================================================================

/// Component-typed ARGUMENTS of `FixedLpc::new` / `Lpc::new` in the c18_*_new units: a residual
/// (partition order 0, block 2, given warm-up length) and parameters (given order) with arbitrary
/// contents.  A user of the public API can only hold values on which `verify()` is Ok
/// (`X::new` is `from_parts` + `verify()`); the units do not even need that assumption: the facts
/// they prove about an `Ok` result hold for every argument value.
fn any_residual_arg(w: usize) -> Residual {
    any_residual_literal::<1, 2, 2>(0, 2, w)
}

fn any_qp_arg(order: usize) -> QuantizedParameters {
    QuantizedParameters {
        coefs: simd::i16x32::from_array(kani::any()),
        order,
        shift: kani::any(),
        precision: kani::any(),
    }
}

fn any_heapless<const NW: usize, const CAP: usize>() -> heapless::Vec<i32, CAP> {
    let warm: [i32; NW] = kani::any();
    let mut out = heapless::Vec::<i32, CAP>::new();
    let mut i = 0;
    while i < NW {
        out.push(warm[i]).unwrap();
        i += 1;
    }
    out
}

/// `FixedLpc::new` with NW warm-up samples (symbolic), a residual of block 2 whose own warm-up
/// length is `rw`, and a symbolic width: returns; Ok ==> order <= 4, valid width, the samples fit
/// and are stored, the residual is the argument and codes exactly block - order samples (else a
/// decoder misreads the sub-frame).  For a public (verifying, hence well-formed:
/// c18_residual_verify_gate_*) residual these facts are `spec_fixed_bits(c).is_some()`.
fn fixed_lpc_new<const NW: usize>(rw: usize) -> bool {
    let warm: [i32; NW] = kani::any();
    let bps: usize = kani::any();
    let res = any_residual_arg(rw);
    let q0 = res.quotients[0];
    match FixedLpc::new(&warm, res, bps) {
        Ok(c) => {
            assert!(NW <= 4 && c.order() == NW && spec_bps(bps) && c.bits_per_sample() == bps);
            assert!(c.residual().warmup_length() == NW && rw == NW);
            assert!(c.residual().block_size() == 2 && c.residual().partition_order() == 0);
            assert!(c.residual().quotients()[0] == q0);
            let mut i = 0;
            while i < NW {
                assert!(spec_fits(warm[i] as i64, bps) && c.warm_up()[i] == warm[i]);
                i += 1;
            }
            true
        }
        Err(_) => false,
    }
}

//@ unit props=C18 tier=quick kind=bounded timeout=600 funcs="FixedLpc::new; FixedLpc::from_parts" bound="(#warm-up samples, residual warm-up) in {(0,0),(1,1),(2,2)}, residual of block 2; samples, width (every usize), residual contents symbolic"
#[kani::proof]
#[kani::unwind(8)]
#[kani::stub(std::fmt::format, stub_format)]
#[kani::stub(VerifyError::within, stub_within)]
fn c18_fixed_lpc_new_consistent() {
    let ok = fixed_lpc_new::<0>(0);
    kani::cover!(ok);
    let ok = fixed_lpc_new::<1>(1);
    kani::cover!(ok);
    let ok = fixed_lpc_new::<2>(2);
    kani::cover!(ok);
}

//@ unit props=C18 tier=quick kind=bounded timeout=600 funcs="FixedLpc::new; FixedLpc::from_parts" bound="(#warm-up samples, residual warm-up) in {(1,0),(2,1),(0,1),(5,2)}: order and residual disagree, order above 4; all values symbolic"
#[kani::proof]
#[kani::unwind(8)]
#[kani::stub(std::fmt::format, stub_format)]
#[kani::stub(VerifyError::within, stub_within)]
fn c18_fixed_lpc_new_inconsistent() {
    fixed_lpc_new::<1>(0);
    fixed_lpc_new::<2>(1);
    fixed_lpc_new::<0>(1);
    fixed_lpc_new::<5>(2);
}

/// `FixedLpc::verify()` on arbitrary field values of a concrete shape: returns; Ok <==>
/// well-formed (`spec_fixed_bits`); well-formed ==> serialises without panicking to
/// `count_bits()` bits == the independent size, header byte 0b0001_ooo0 (quotients <= 70 for the
/// serialisation part only).
fn fixed_lpc_verify_gate<const NW: usize>(rw: usize) -> bool {
    let c = FixedLpc {
        warm_up: any_heapless::<NW, 4>(),
        residual: any_residual_literal::<1, 2, 2>(0, 2, rw),
        bits_per_sample: kani::any(),
    };
    let ok = c.verify().is_ok();
    let wf = spec_fixed_bits(&c);
    assert!(ok == wf.is_some());
    if wf.is_some() && c.residual.quotients[0] <= 70 && c.residual.quotients[1] <= 70 {
        let s = serialises(&c);
        assert!(Some(s.id.len as u64) == wf);
        assert!(field(&s, 0, 8) == (0x10 | (NW << 1)) as u64);
    }
    ok
}

//@ unit props=C18 tier=thorough kind=bounded timeout=600 funcs="FixedLpc::verify; FixedLpc::write; FixedLpc::count_bits; Residual::verify; Residual::write" bound="(#warm-up samples, residual warm-up) in {(1,1),(0,0)}, residual of block 2; every field value symbolic"
#[kani::proof]
#[kani::unwind(8)]
#[kani::stub(std::fmt::format, stub_format)]
#[kani::stub(VerifyError::within, stub_within)]
fn c18_fixed_lpc_verify_gate_consistent() {
    let ok = fixed_lpc_verify_gate::<1>(1);
    kani::cover!(ok);
    let ok = fixed_lpc_verify_gate::<0>(0);
    kani::cover!(ok);
}

//@ unit props=C18 tier=quick kind=bounded timeout=600 funcs="FixedLpc::verify; FixedLpc::write; FixedLpc::count_bits; Residual::verify; Residual::write" bound="(#warm-up samples, residual warm-up) in {(2,2),(1,0),(2,1)}, residual of block 2; every field value symbolic"
#[kani::proof]
#[kani::unwind(8)]
#[kani::stub(std::fmt::format, stub_format)]
#[kani::stub(VerifyError::within, stub_within)]
fn c18_fixed_lpc_verify_gate_inconsistent() {
    let ok = fixed_lpc_verify_gate::<2>(2);
    kani::cover!(ok);
    fixed_lpc_verify_gate::<1>(0);
    fixed_lpc_verify_gate::<2>(1);
}

/// `Lpc::new` with NW warm-up samples, parameters of order NC, a residual of block 2 / warm-up
/// `rw`, symbolic width: returns; Ok ==> 1 <= order == NW == residual warm-up, valid width,
/// samples fit and are stored, parameters and residual are the arguments.  For public (verifying,
/// hence well-formed: c18_qp_verify_gate_*, c18_residual_verify_gate_*) arguments these facts are
/// `spec_lpc_bits(c).is_some()`.
fn lpc_new<const NW: usize, const NC: usize>(rw: usize) -> bool {
    let warm: [i32; NW] = kani::any();
    let bps: usize = kani::any();
    let qp = any_qp_arg(NC);
    let (shift, precision, c0) = (qp.shift, qp.precision, qp.coefs[0]);
    let res = any_residual_arg(rw);
    let q0 = res.quotients[0];
    match Lpc::new(&warm, qp, res, bps) {
        Ok(c) => {
            assert!(1 <= NC && NC == NW && c.order() == NC);
            assert!(spec_bps(bps) && c.bits_per_sample() == bps);
            assert!(c.residual().warmup_length() == NC && rw == NC);
            assert!(c.residual().block_size() == 2 && c.residual().partition_order() == 0);
            assert!(c.parameters().shift() == shift && c.parameters().precision() == precision);
            assert!(c.parameters().coefficient(0) == Some(c0));
            assert!(c.residual().quotients()[0] == q0);
            let mut i = 0;
            while i < NW {
                assert!(spec_fits(warm[i] as i64, bps) && c.warm_up()[i] == warm[i]);
                i += 1;
            }
            true
        }
        Err(_) => false,
    }
}

macro_rules! lpc_new_harness {
    ($name:ident, $unwind:expr, $reachable:expr, $(($nw:expr, $nc:expr, $rw:expr)),+) => {
        #[kani::proof]
        #[kani::unwind($unwind)]
        #[kani::stub(std::fmt::format, stub_format)]
        #[kani::stub(VerifyError::within, stub_within)]
        fn $name() {
            $(
                let ok = lpc_new::<$nw, $nc>($rw);
                if $reachable {
                    kani::cover!(ok);
                }
            )+
        }
    };
}

//@ unit name=c18_lpc_new_o1 props=C18 tier=quick kind=bounded timeout=600 funcs="Lpc::new; Lpc::from_parts; Lpc::verify" bound="order 1, 1 warm-up sample, residual of block 2 / warm-up 1; coefficient, shift, precision, width, samples symbolic"
//@ unit name=c18_lpc_new_o2 props=C18 tier=thorough kind=bounded timeout=600 funcs="Lpc::new; Lpc::from_parts; Lpc::verify" bound="order 2, 2 warm-up samples, residual of block 2 / warm-up 2; all values symbolic"
//@ unit name=c18_lpc_new_o0 props=C18 tier=thorough kind=bounded timeout=600 funcs="Lpc::new; Lpc::from_parts; Lpc::verify" bound="order 0 (no coefficient, no warm-up sample), residual of block 2 / warm-up 0; all values symbolic"
//@ unit name=c18_lpc_new_lengths props=C18 tier=quick kind=bounded timeout=600 funcs="Lpc::new; Lpc::from_parts; Lpc::verify" bound="(#warm-up samples, order, residual warm-up) in {(1,2,1),(2,1,1),(0,1,0)}: warm-up length and order disagree; all values symbolic"
//@ unit name=c18_lpc_new_o1_rw0 props=C18 tier=quick kind=bounded timeout=600 funcs="Lpc::new; Lpc::from_parts; Lpc::verify" bound="order 1, 1 warm-up sample, but a residual with warm-up length 0; all values symbolic"
//@ unit name=c18_lpc_new_w25 props=C18 tier=thorough kind=bounded timeout=600 funcs="Lpc::new" bound="25 warm-up samples (above the maximum order 24), order 1; all values symbolic"
lpc_new_harness!(c18_lpc_new_o1, 8, true, (1, 1, 1));
lpc_new_harness!(c18_lpc_new_o2, 8, true, (2, 2, 2));
lpc_new_harness!(c18_lpc_new_o0, 8, false, (0, 0, 0));
lpc_new_harness!(c18_lpc_new_lengths, 8, false, (1, 2, 1), (2, 1, 1), (0, 1, 0));
lpc_new_harness!(c18_lpc_new_o1_rw0, 8, false, (1, 1, 0));
lpc_new_harness!(c18_lpc_new_w25, 28, false, (25, 1, 1));

/// `Lpc::verify()` on arbitrary field values of a concrete shape: returns; Ok <==> well-formed
/// (`spec_lpc_bits`); well-formed ==> none of the writer's assertions (`precision < 16`,
/// `shift >= 0`, `order - 1`, coefficient range, warm-up indexing) fires: it serialises to
/// `count_bits()` bits == the independent size with the header byte 0b01oo_ooo0, precision-1 and
/// the shift in place (quotients <= 70 for the serialisation part only).
fn lpc_verify_gate<const NW: usize>(order: usize, rw: usize) -> bool {
    let c = Lpc {
        parameters: QuantizedParameters {
            coefs: simd::i16x32::from_array(kani::any()),
            order,
            shift: kani::any(),
            precision: kani::any(),
        },
        warm_up: any_heapless::<NW, 24>(),
        residual: any_residual_literal::<1, 2, 2>(0, 2, rw),
        bits_per_sample: kani::any(),
    };
    let ok = c.verify().is_ok();
    let wf = spec_lpc_bits(&c);
    assert!(ok == wf.is_some());
    if wf.is_some() && c.residual.quotients[0] <= 70 && c.residual.quotients[1] <= 70 {
        let s = serialises(&c);
        assert!(Some(s.id.len as u64) == wf);
        assert!(field(&s, 0, 8) == (0x40 | ((order - 1) << 1)) as u64);
        if order == 1 && c.bits_per_sample == 16 {
            assert!(field(&s, 24, 4) == (c.parameters.precision - 1) as u64);
            assert!(field(&s, 28, 5) == c.parameters.shift as u64);
        }
    }
    ok
}

macro_rules! lpc_gate_harness {
    ($name:ident, $reachable:expr, $(($nw:expr, $order:expr, $rw:expr)),+) => {
        #[kani::proof]
        #[kani::unwind(8)]
        #[kani::stub(std::fmt::format, stub_format)]
        #[kani::stub(VerifyError::within, stub_within)]
        fn $name() {
            $(
                let ok = lpc_verify_gate::<$nw>($order, $rw);
                if $reachable {
                    kani::cover!(ok);
                }
            )+
        }
    };
}

//@ unit name=c18_lpc_verify_gate_o1 props=C18 tier=quick kind=bounded timeout=600 funcs="Lpc::verify; QuantizedParameters::verify; Lpc::write; Lpc::count_bits" bound="order 1, 1 warm-up sample, residual of block 2 / warm-up 1; every field value symbolic"
//@ unit name=c18_lpc_verify_gate_o2 props=C18 tier=thorough kind=bounded timeout=600 funcs="Lpc::verify; QuantizedParameters::verify; Lpc::write; Lpc::count_bits" bound="order 2, 2 warm-up samples, residual of block 2 / warm-up 2; every field value symbolic"
//@ unit name=c18_lpc_verify_gate_o0 props=C18 tier=quick kind=bounded timeout=600 funcs="Lpc::verify; Lpc::write; Lpc::count_bits" bound="order 0, no warm-up sample, residual of block 2 / warm-up 0; every field value symbolic"
//@ unit name=c18_lpc_verify_gate_lengths props=C18 tier=quick kind=bounded timeout=600 funcs="Lpc::verify; Lpc::write; Lpc::count_bits" bound="(#warm-up samples, order, residual warm-up) in {(1,2,1),(2,1,1),(1,1,0)}; every field value symbolic"
lpc_gate_harness!(c18_lpc_verify_gate_o1, true, (1, 1, 1));
lpc_gate_harness!(c18_lpc_verify_gate_o2, true, (2, 2, 2));
lpc_gate_harness!(c18_lpc_verify_gate_o0, false, (0, 0, 0));
lpc_gate_harness!(c18_lpc_verify_gate_lengths, false, (1, 2, 1), (2, 1, 1), (1, 1, 0));

// ================================================================================================
// Frame / MetadataBlockData / StreamInfo setters
// ================================================================================================

/// `Frame::new(header, K sub-frames)` for a header as `FrameHeader::new` returns it (block size
/// 1..=32767, 1..=8 independent channels or a stereo pair: datatype::verif::c17_frame_header_new)
/// with a symbolic channel assignment and K constant sub-frames as `Constant::new` returns them:
/// returns; Ok <=> the channel count is K and every sub-frame has the header's block size and the
/// width of its channel (16, or 17 for a side channel); Ok ==> the frame holds the header and the K sub-frames
/// and verifies.  `Frame::verify()` is: every sub-frame verifies, a precomputed bitstream (absent
/// after `new`) matches, the header verifies; the unit checks these conjuncts instead of
/// calling `Frame::verify()` (504 s even for an empty frame: its body pulls in the whole frame
/// writer and CRC-16; a unit calling it did not finish in 600 s and was dropped).
fn any_frame_header() -> (FrameHeader, usize, usize) {
    let n: u8 = kani::any();
    kani::assume(1 <= n && n <= 8);
    let which: u8 = kani::any();
    let ca = match which % 4 {
        0 => ChannelAssignment::Independent(n),
        1 => ChannelAssignment::LeftSide,
        2 => ChannelAssignment::RightSide,
        _ => ChannelAssignment::MidSide,
    };
    let x: u16 = kani::any();
    kani::assume(x < 32767);
    let mut header = FrameHeader::from_specs(
        BlockSizeSpec::ExtraTwoBytes(x),
        ca,
        SampleSizeSpec::B16,
        SampleRateSpec::R44_1kHz,
    );
    header.set_frame_offset(FrameOffset::Frame(kani::any()));
    let channels = header.channel_assignment().channels();
    (header, channels, x as usize + 1)
}

/// a constant sub-frame as `Constant::new` returns it, whose block size is the header's or some
/// other one and whose width is 16 or 17 bits; returns (sub-frame, block size agrees, width)
fn any_constant_subframe(bs: usize) -> (SubFrame, bool, usize) {
    let dc: i16 = kani::any();
    let same: bool = kani::any();
    let other: u16 = kani::any();
    kani::assume(1 <= other && other <= 32767 && other as usize != bs);
    let sbs = if same { bs } else { other as usize };
    let wide: bool = kani::any();
    let bps: u8 = if wide { 17 } else { 16 };
    (Constant::from_parts(sbs, dc as i32, bps).into(), same, bps as usize)
}

/// RFC 9639 9.1.3: the side channel of a stereo pair is one bit wider (channel 1 for left/side and
/// mid/side, channel 0 for side/right).
fn spec_width(header: &FrameHeader, ch: usize) -> usize {
    let side = match header.channel_assignment() {
        ChannelAssignment::Independent(_) => false,
        ChannelAssignment::LeftSide | ChannelAssignment::MidSide => ch == 1,
        ChannelAssignment::RightSide => ch == 0,
    };
    16 + if side { 1 } else { 0 }
}

fn frame_new_check(
    r: Result<Frame, VerifyError>,
    channels: usize,
    bs: usize,
    k: usize,
    call_verify: bool,
    shapes_ok: bool,
) -> bool {
    match r {
        Ok(f) => {
            assert!(channels == k);
            // the sub-frames have the block size and the widths the header declares: a decoder
            // reads them with those, so anything else cannot parse back to the same frame
            assert!(shapes_ok);
            assert!(f.subframe_count() == k && f.block_size() == bs);
            if call_verify {
                assert!(f.verify().is_ok());
            } else {
                assert!(f.precomputed_bitstream().is_none());
                assert!(f.header().verify().is_ok());
                let mut ch = 0;
                while ch < k {
                    // (matching the variant keeps the other variants' verify out of the model)
                    match f.subframe(ch) {
                        Some(SubFrame::Constant(c)) => assert!(c.verify().is_ok()),
                        _ => assert!(false),
                    }
                    ch += 1;
                }
            }
            // skip the drop glue of `Vec<SubFrame>` (all four variants): irrelevant to C18
            std::mem::forget(f);
            true
        }
        Err(e) => {
            assert!(channels != k || !shapes_ok);
            std::mem::forget(e);
            false
        }
    }
}

//@ unit props=C18 tier=quick kind=bounded timeout=600 funcs="Frame::new; Frame::from_parts; FrameHeader::verify; Constant::verify" bound="0, 1 and 2 constant sub-frames; channel assignment (every variant, 1..=8 channels), block size, frame number, offsets symbolic" note="whole-frame serialisation (CRC-16 over MemSink<u64>) is C08 / bitrepr units; Ok <=> the channel count matches AND every sub-frame has the header's block size and the width RFC 9639 assigns to its channel"
#[kani::proof]
#[kani::unwind(8)]
#[kani::stub(std::fmt::format, stub_format)]
#[kani::stub(VerifyError::within, stub_within)]
fn c18_frame_new() {
    let (header, channels, bs) = any_frame_header();
    let ok = frame_new_check(Frame::new(header, std::iter::empty()), channels, bs, 0, false, true);
    assert!(!ok);
    let (header, channels, bs) = any_frame_header();
    let (s0, same0, w0) = any_constant_subframe(bs);
    let shapes_ok = same0 && w0 == spec_width(&header, 0);
    let ok = frame_new_check(Frame::new(header, std::iter::once(s0)), channels, bs, 1, false, shapes_ok);
    kani::cover!(ok);
    kani::cover!(!ok && channels == 1);
    let (header, channels, bs) = any_frame_header();
    let (s0, same0, w0) = any_constant_subframe(bs);
    let (s1, same1, w1) = any_constant_subframe(bs);
    let shapes_ok = same0 && same1 && w0 == spec_width(&header, 0) && w1 == spec_width(&header, 1);
    let it = std::iter::once(s0).chain(std::iter::once(s1));
    let ok = frame_new_check(Frame::new(header, it), channels, bs, 2, false, shapes_ok);
    kani::cover!(ok && w0 == 17);
    kani::cover!(ok && w1 == 17);
    kani::cover!(!ok && channels == 2 && same0 && same1);
    kani::cover!(!ok && channels == 2 && !same1);
}

fn new_unknown<const N: usize>() {
    let tag: u8 = kani::any();
    let data: [u8; N] = kani::any();
    match MetadataBlockData::new_unknown(tag, &data) {
        Ok(m) => {
            assert!(tag <= 126); // 127 is forbidden by RFC 9639 8.1 (looks like a frame sync)
            assert!(m.verify().is_ok());
            assert!(m.typetag() == tag);
            let s = serialises(&m);
            assert!(s.id.len == 8 * N);
            if N > 0 {
                assert!(field(&s, 0, 8) == data[0] as u64);
            }
            let blk = MetadataBlock::from_parts(true, m);
            let s = serialises(&blk);
            assert!(field(&s, 0, 8) == 0x80 | tag as u64);
            assert!(field(&s, 8, 24) == N as u64);
        }
        Err(_) => assert!(tag == 127 || tag > 127),
    }
    kani::cover!(tag == 126);
    kani::cover!(tag == 127);
}

//@ unit props=C18 tier=quick kind=bounded timeout=600 funcs="MetadataBlockData::new_unknown; MetadataBlockData::verify; MetadataBlockData::write; MetadataBlock::write" bound="bodies of 0 and 3 bytes, every tag and byte value" note="bodies of 2^24 bytes or more (length field overflow) are out of reach for a symbolic unit; see report"
#[kani::proof]
#[kani::unwind(8)]
#[kani::stub(std::fmt::format, stub_format)]
fn c18_metadata_new_unknown() {
    new_unknown::<0>();
    new_unknown::<3>();
}

fn any_stream_info() -> StreamInfo {
    // a value as `StreamInfo::new` + successful setters can produce it
    let minb: u16 = kani::any();
    let maxb: u16 = kani::any();
    let minf: u32 = kani::any();
    let maxf: u32 = kani::any();
    let bps: u8 = kani::any();
    kani::assume(bps == 8 || bps == 12 || bps == 16 || bps == 20 || bps == 24);
    let rate: u32 = kani::any();
    kani::assume(rate <= 96_000);
    let ch: u8 = kani::any();
    kani::assume(1 <= ch && ch <= 8);
    StreamInfo {
        min_block_size: minb,
        max_block_size: maxb,
        min_frame_size: minf,
        max_frame_size: maxf,
        sample_rate: rate,
        channels: ch,
        bits_per_sample: bps,
        total_samples: kani::any(),
        md5: kani::any(),
    }
}

/// The setters of `StreamInfo` over their full argument domains: each returns; Ok ==> the
/// arguments are stored unchanged; Err ==> the component is left as it was (an error must not
/// leave a half-updated, non-verifying component behind); a component on which both range
/// setters succeeded verifies and serialises to 272 bits.
//@ unit props=C18 tier=quick kind=complete timeout=600 funcs="StreamInfo::set_block_sizes; StreamInfo::set_frame_sizes; StreamInfo::set_total_samples; StreamInfo::set_md5_digest; StreamInfo::verify; StreamInfo::write"
#[kani::proof]
#[kani::unwind(20)]
#[kani::stub(std::fmt::format, stub_format)]
fn c18_stream_info_setters() {
    let mut info = any_stream_info();
    let before = info.clone();
    let a: usize = kani::any();
    let b: usize = kani::any();
    let r1 = info.set_block_sizes(a, b).is_ok();
    if r1 {
        assert!(a <= b && b <= 32767);
        assert!(info.min_block_size() == a && info.max_block_size() == b);
    } else {
        assert!(info == before);
    }
    let mid = info.clone();
    let c: usize = kani::any();
    let d: usize = kani::any();
    let r2 = info.set_frame_sizes(c, d).is_ok();
    if r2 {
        assert!(c <= d && d <= u32::MAX as usize);
        assert!(info.min_frame_size() == c && info.max_frame_size() == d);
    } else {
        assert!(info == mid);
    }
    let n: usize = kani::any();
    info.set_total_samples(n);
    assert!(info.total_samples() == n);
    let digest: [u8; 16] = kani::any();
    info.set_md5_digest(&digest);
    assert!(*info.md5_digest() == digest);
    if r1 && r2 {
        assert!(info.verify().is_ok());
        let s = serialises(&info);
        assert!(s.id.len == 272);
    }
    kani::cover!(r1 && r2);
    kani::cover!(!r1 && a > b);
    kani::cover!(!r2);
}


