// Harnesses for src/component/datatype.rs (child module `component::datatype::verif_c18`).
//
// C18 "Public component constructors are total and imply serialisability":
//   every public constructor either returns Err or returns a component that verifies, serialises
//   without panicking to exactly `count_bits()` bits (in the RFC 9639 layout, so that a decoder
//   reads the same component back); no argument combination makes a constructor or `verify()`
//   panic.
//
// Conventions of this file
// * slice LENGTHS and the scalars that steer loops / divisions (partition order, block size,
//   warm-up length, LPC order) are concrete per call of a body fn (README pitfall 1: a symbolic
//   warm-up length alone costs 4x, a symbolic block size > 400 s); each unit enumerates a set of
//   such "shapes" that contains every inconsistent combination named by the property.  Every
//   element value and every remaining scalar is symbolic over its full type.
// * "total" == the call returns: Kani reports every reachable panic / arithmetic overflow / failed
//   (debug_)assert / out-of-bounds index inside the callee as a failed check.
// * the 64/32-lane reductions called by `Residual::from_parts` are replaced by their scalar
//   contracts (README pitfall 5); the contracts are proved by c18_find_max_contract /
//   c18_wrapping_sum_contract below.
// * `StreamInfo::new` and `FrameHeader::new` are covered by datatype::verif::c17_*.

use crate::bitsink::verif::SpecSink;

// ================================================================================================
// Callee contracts for the fake-SIMD reductions used by `Residual::from_parts`
// ================================================================================================

/// contract of `arrayutils::find_max::<N>`: the maximum of the slice, 0 when empty.
fn contract_find_max<const N: usize>(data: &[u32]) -> u32
where
    simd::LaneCount<N>: simd::SupportedLaneCount,
{
    let mut m = 0u32;
    let mut i = 0;
    while i < data.len() {
        if data[i] > m {
            m = data[i];
        }
        i += 1;
    }
    m
}

/// contract of `arrayutils::wrapping_sum::<T, N>`: the wrapping sum of the slice.
fn contract_wrapping_sum<T, const N: usize>(data: &[T]) -> T
where
    T: simd::SimdElement + num_traits::WrappingAdd + num_traits::Zero,
    simd::LaneCount<N>: simd::SupportedLaneCount,
{
    let mut s = T::zero();
    let mut i = 0;
    while i < data.len() {
        s = s.wrapping_add(&data[i]);
        i += 1;
    }
    s
}

//@ unit props=C18 tier=quick kind=bounded timeout=600 funcs="arrayutils::find_max::<64>" bound="slices of 0..=4 elements (the sizes the C18 units use), every u32 value"
#[kani::proof]
#[kani::unwind(66)]
fn c18_find_max_contract() {
    let a: [u32; 4] = kani::any();
    let n: usize = kani::any();
    kani::assume(n <= 4);
    assert!(find_max::<64>(&a[0..n]) == contract_find_max::<64>(&a[0..n]));
    kani::cover!(n == 4 && a[3] > a[0]);
}

//@ unit props=C18 tier=quick kind=bounded timeout=600 funcs="arrayutils::wrapping_sum::<u32, 32>" bound="slices of 0..=4 elements (the sizes the C18 units use), every u32 value"
#[kani::proof]
#[kani::unwind(34)]
fn c18_wrapping_sum_contract() {
    let a: [u32; 4] = kani::any();
    let n: usize = kani::any();
    kani::assume(n <= 4);
    assert!(wrapping_sum::<u32, 32>(&a[0..n]) == contract_wrapping_sum::<u32, 32>(&a[0..n]));
    kani::cover!(n == 4 && a[0] == u32::MAX && a[1] == 2);
}

// ================================================================================================
// Shared helpers
// ================================================================================================

/// A user sink that only measures: every primitive operation checks its own pre-condition (no
/// more bits than the value type has) and advances the length.  It overrides `write_zeros` the
/// way `MemSink` does.  Components that contain a `Residual` are serialised into it: all panics /
/// overflows / index errors inside the component's `write` stay visible, while the bit CONTENTS
/// (RFC layout) of well-formed components are the subject of bitrepr::verif_sub (C02/C08), which
/// needs `SpecSink` and is ~10x more expensive per written sample.
struct LenSink {
    len: usize,
}

impl BitSink for LenSink {
    type Error = crate::bitsink::verif::SpecSinkError;
    fn align_to_byte(&mut self) -> Result<usize, Self::Error> {
        let r = (8 - self.len % 8) % 8;
        self.len += r;
        Ok(r)
    }
    fn write_lsbs<T: crate::bitsink::Bits>(&mut self, _val: T, n: usize) -> Result<(), Self::Error> {
        assert!(n <= 8 * std::mem::size_of::<T>());
        self.len += n;
        Ok(())
    }
    fn write_msbs<T: crate::bitsink::Bits>(&mut self, _val: T, n: usize) -> Result<(), Self::Error> {
        assert!(n <= 8 * std::mem::size_of::<T>());
        self.len += n;
        Ok(())
    }
    fn write<T: crate::bitsink::Bits>(&mut self, _val: T) -> Result<(), Self::Error> {
        self.len += 8 * std::mem::size_of::<T>();
        Ok(())
    }
    fn write_zeros(&mut self, n: usize) -> Result<(), Self::Error> {
        self.len += n;
        Ok(())
    }
}

/// `count_bits()` does not panic, `write` succeeds without panicking and delivers exactly
/// `count_bits()` bits (length only).
fn serialises_len<T: BitRepr>(c: &T) -> usize {
    let n = c.count_bits();
    let mut s = LenSink { len: 0 };
    assert!(c.write(&mut s).is_ok());
    assert!(s.len == n);
    n
}

/// Same into the ideal bit string; returns the written bits for layout checks.
fn serialises<T: BitRepr>(c: &T) -> SpecSink {
    let n = c.count_bits();
    let mut s = SpecSink::new();
    assert!(c.write(&mut s).is_ok());
    assert!(s.id.len == n);
    s
}

/// Bits `[pos, pos + n)` of the written string as an integer (n <= 32, pos + n <= 64).
fn field(s: &SpecSink, pos: usize, n: usize) -> u64 {
    (s.id.w[0] << pos) >> (64 - n)
}

/// What an RFC 9639 decoder needs of a RESIDUAL (section 9.2.7) in the 4-bit-parameter coding this
/// crate writes, stated on the component's fields: partition order <= 15 with 2^order parameters,
/// the block is split evenly, the warm-up samples all lie in the first partition, parameters are
/// not the escape code (<= 14), every remainder fits its parameter, and the padding of the warm-up
/// samples is zero.  Returns the number of bits of the coded residual.
fn spec_residual_wellformed(res: &Residual) -> u64 {
    let order = res.partition_order as usize;
    assert!(order <= 15);
    let nparts = 1usize << order;
    assert!(res.rice_params.len() == nparts);
    assert!(res.quotients.len() == res.block_size);
    assert!(res.remainders.len() == res.block_size);
    assert!(res.block_size <= 32767);
    assert!(res.block_size % nparts == 0);
    let part_len = res.block_size / nparts;
    assert!(res.warmup_length <= part_len);
    let mut bits: u64 = 6 + 4 * nparts as u64;
    let mut i = 0;
    while i < res.rice_params.len() {
        assert!(res.rice_params[i] <= 14);
        i += 1;
    }
    let mut t = 0;
    while t < res.block_size {
        if t < res.warmup_length {
            assert!(res.quotients[t] == 0 && res.remainders[t] == 0);
        } else {
            let p = res.rice_params[t / part_len];
            assert!((res.remainders[t] as u64) < (1u64 << p));
            bits += res.quotients[t] as u64 + 1 + p as u64;
        }
        t += 1;
    }
    bits
}

// ================================================================================================
// Residual
// ================================================================================================

/// One call of `Residual::new` with a concrete shape and symbolic contents.  The call must return;
/// `Ok` must report the arguments unchanged (no `as u8` re-interpretation of the order).
fn residual_new_total<const NP: usize, const NQ: usize, const NR: usize>(
    order: usize,
    bs: usize,
    w: usize,
) -> bool {
    let p: [u8; NP] = kani::any();
    let q: [u32; NQ] = kani::any();
    let r: [u32; NR] = kani::any();
    match Residual::new(order, bs, w, &p, &q, &r) {
        Ok(c) => {
            assert!(c.partition_order() == order && c.block_size() == bs);
            assert!(c.warmup_length() == w);
            assert!(NQ == bs && NR == bs && order < 64 && NP == (1usize << order));
            true
        }
        Err(_) => false,
    }
}

//@ unit props=C18 tier=quick kind=bounded timeout=600 funcs="Residual::new; Residual::from_parts; Residual::verify" stubs="find_max -> scalar maximum (c18_find_max_contract); wrapping_sum -> scalar wrapping sum (c18_wrapping_sum_contract)" bound="shapes (order, block, warm-up | #params, #quotients, #remainders): lengths that disagree with each other, with the block size, or with 2^order; all values symbolic"
#[kani::proof]
#[kani::unwind(8)]
#[kani::stub(std::fmt::format, stub_format)]
#[kani::stub(find_max, contract_find_max)]
#[kani::stub(wrapping_sum, contract_wrapping_sum)]
fn c18_residual_new_total_lengths() {
    let ok = residual_new_total::<1, 2, 2>(0, 2, 0); // consistent: reachable Ok
    kani::cover!(ok);
    residual_new_total::<1, 2, 1>(0, 2, 0); // remainders shorter than quotients
    residual_new_total::<1, 1, 2>(0, 2, 0); // quotients shorter than the block
    residual_new_total::<1, 2, 2>(0, 3, 0); // block size above the lengths
    residual_new_total::<1, 2, 2>(1, 2, 0); // 1 parameter for 2 partitions
    residual_new_total::<2, 2, 2>(0, 2, 0); // 2 parameters for 1 partition
    residual_new_total::<0, 2, 2>(0, 2, 0); // no parameter at all
}

//@ unit props=C18 tier=quick kind=bounded timeout=600 funcs="Residual::new; Residual::from_parts; Residual::verify" stubs="find_max -> scalar maximum (c18_find_max_contract); wrapping_sum -> scalar wrapping sum (c18_wrapping_sum_contract)" bound="shapes: partition order 20 / 64 / 256, warm-up above the block size / usize::MAX, block size usize::MAX; all values symbolic"
#[kani::proof]
#[kani::unwind(8)]
#[kani::stub(std::fmt::format, stub_format)]
#[kani::stub(find_max, contract_find_max)]
#[kani::stub(wrapping_sum, contract_wrapping_sum)]
fn c18_residual_new_total_scalars() {
    residual_new_total::<1, 2, 2>(20, 2, 0); // order above 15
    residual_new_total::<1, 2, 2>(64, 2, 0); // `1 << order` out of range
    residual_new_total::<1, 2, 2>(256, 2, 0); // `order as u8` == 0
    residual_new_total::<1, 2, 2>(0, 2, 3); // warm-up longer than the block
    residual_new_total::<1, 2, 2>(0, 2, usize::MAX);
    residual_new_total::<1, 2, 2>(0, usize::MAX, 0); // `max_quotient * block_size`
}

//@ unit props=C18 tier=quick kind=bounded timeout=600 funcs="Residual::new; Residual::from_parts; Residual::verify" stubs="find_max -> scalar maximum (c18_find_max_contract); wrapping_sum -> scalar wrapping sum (c18_wrapping_sum_contract)" bound="shapes: empty block, more partitions than samples, block not a multiple of the partition count, warm-up reaching into the second partition; all values symbolic"
#[kani::proof]
#[kani::unwind(8)]
#[kani::stub(std::fmt::format, stub_format)]
#[kani::stub(find_max, contract_find_max)]
#[kani::stub(wrapping_sum, contract_wrapping_sum)]
fn c18_residual_new_total_partitions() {
    let ok = residual_new_total::<1, 0, 0>(0, 0, 0); // empty block
    kani::cover!(ok);
    residual_new_total::<4, 2, 2>(2, 2, 0); // partition length 0
    residual_new_total::<2, 3, 3>(1, 3, 0); // 3 samples in 2 partitions
    residual_new_total::<2, 2, 2>(1, 2, 2); // warm-up == block > partition length
    let ok = residual_new_total::<2, 4, 4>(1, 4, 1);
    kani::cover!(ok);
}

/// `Residual::verify()` is the gate for values that did not come through `new` (crate-private
/// `from_parts`, serde `Deserialize` of arbitrary field values).  On a concrete shape with
/// ARBITRARY contents and cached sums it returns, and `Ok` implies the residual is well-formed
/// per the RFC (`spec_residual_wellformed`), i.e. the pre-condition under which
/// bitrepr::verif_sub proves the writer, and `count_bits()` does not panic and equals the
/// independently computed size.
fn residual_verify_gate<const NP: usize, const NQ: usize, const NR: usize>(
    order: u8,
    bs: usize,
    w: usize,
) -> bool {
    let res = Residual {
        partition_order: order,
        block_size: bs,
        warmup_length: w,
        rice_params: Vec::from(kani::any::<[u8; NP]>()),
        quotients: Vec::from(kani::any::<[u32; NQ]>()),
        remainders: Vec::from(kani::any::<[u32; NR]>()),
        sum_quotients: kani::any(),
        sum_rice_params: kani::any(),
    };
    let ok = res.verify().is_ok();
    if ok {
        let bits = spec_residual_wellformed(&res);
        assert!(res.count_bits() as u64 == bits);
    }
    ok
}

//@ unit props=C18 tier=quick kind=bounded timeout=600 funcs="Residual::verify; Residual::count_bits" bound="shapes (order, block, warm-up | #params, #quotients, #remainders) as in c18_residual_new_total_lengths plus well-formed ones; contents and cached sums symbolic"
#[kani::proof]
#[kani::unwind(8)]
#[kani::stub(std::fmt::format, stub_format)]
fn c18_residual_verify_gate_lengths() {
    let ok = residual_verify_gate::<1, 2, 2>(0, 2, 0);
    kani::cover!(ok);
    let ok = residual_verify_gate::<1, 3, 3>(0, 3, 2);
    kani::cover!(ok);
    residual_verify_gate::<1, 2, 1>(0, 2, 0);
    residual_verify_gate::<1, 1, 2>(0, 2, 0);
    residual_verify_gate::<1, 2, 2>(0, 3, 0);
    residual_verify_gate::<1, 2, 2>(1, 2, 0);
    residual_verify_gate::<2, 2, 2>(0, 2, 0);
    residual_verify_gate::<0, 2, 2>(0, 2, 0);
}

//@ unit props=C18 tier=quick kind=bounded timeout=600 funcs="Residual::verify; Residual::count_bits" bound="shapes: partition order 20 / 64 / 255, warm-up above the block size / usize::MAX, empty block, partition length 0, uneven partitions, warm-up beyond the first partition; contents and cached sums symbolic"
#[kani::proof]
#[kani::unwind(8)]
#[kani::stub(std::fmt::format, stub_format)]
fn c18_residual_verify_gate_scalars() {
    residual_verify_gate::<1, 2, 2>(20, 2, 0);
    residual_verify_gate::<1, 2, 2>(64, 2, 0);
    residual_verify_gate::<1, 2, 2>(255, 2, 0);
    residual_verify_gate::<1, 2, 2>(0, 2, 3);
    residual_verify_gate::<1, 2, 2>(0, 2, usize::MAX);
    residual_verify_gate::<1, 0, 0>(0, 0, 0);
    residual_verify_gate::<4, 2, 2>(2, 2, 0);
    residual_verify_gate::<2, 3, 3>(1, 3, 0);
    residual_verify_gate::<2, 2, 2>(1, 2, 2);
    let ok = residual_verify_gate::<2, 4, 4>(1, 4, 2);
    kani::cover!(ok);
}

/// `Residual::new(..) == Ok(c)`  ==>  `c.verify()` is Ok, `c` is well-formed, and it serialises
/// without panicking to exactly `count_bits()` bits (== the independently computed size) with the
/// partition order and the first parameter at their RFC positions.  Quotients are bounded by 70
/// only here (the zero run is `BitSink::write_zeros`, proved for every length in bitsink::verif);
/// parameters and remainders range over their full types.
fn residual_new_ok_serialises<const NP: usize, const N: usize>(order: usize, w: usize) -> bool {
    let p: [u8; NP] = kani::any();
    let q: [u32; N] = kani::any();
    let r: [u32; N] = kani::any();
    let mut i = 0;
    while i < N {
        kani::assume(q[i] <= 70);
        i += 1;
    }
    match Residual::new(order, N, w, &p, &q, &r) {
        Ok(c) => {
            assert!(c.verify().is_ok());
            let bits = spec_residual_wellformed(&c);
            let s = serialises(&c);
            assert!(s.id.len as u64 == bits);
            assert!(field(&s, 0, 6) == order as u64);
            assert!(field(&s, 6, 4) == p[0] as u64);
            assert!(c.rice_parameter(0) == p[0] as usize);
            true
        }
        Err(_) => false,
    }
}

//@ unit props=C18 tier=quick kind=bounded timeout=600 funcs="Residual::new; Residual::verify; Residual::write; Residual::count_bits" stubs="find_max -> scalar maximum (c18_find_max_contract); wrapping_sum -> scalar wrapping sum (c18_wrapping_sum_contract)" bound="partition order 0, block 2 with warm-up 0 and 1, block 3 with warm-up 3; quotients <= 70, parameters and remainders symbolic"
#[kani::proof]
#[kani::unwind(8)]
#[kani::stub(std::fmt::format, stub_format)]
#[kani::stub(find_max, contract_find_max)]
#[kani::stub(wrapping_sum, contract_wrapping_sum)]
fn c18_residual_new_ok_order0() {
    let ok = residual_new_ok_serialises::<1, 2>(0, 0);
    kani::cover!(ok);
    let ok = residual_new_ok_serialises::<1, 2>(0, 1);
    kani::cover!(ok);
    let ok = residual_new_ok_serialises::<1, 3>(0, 3);
    kani::cover!(ok);
}

//@ unit props=C18 tier=quick kind=bounded timeout=600 funcs="Residual::new; Residual::verify; Residual::write; Residual::count_bits" stubs="find_max -> scalar maximum (c18_find_max_contract); wrapping_sum -> scalar wrapping sum (c18_wrapping_sum_contract)" bound="partition order 1, block 4 with warm-up 0, 2 and 3 (3 reaches into the second partition); quotients <= 70, parameters and remainders symbolic"
#[kani::proof]
#[kani::unwind(8)]
#[kani::stub(std::fmt::format, stub_format)]
#[kani::stub(find_max, contract_find_max)]
#[kani::stub(wrapping_sum, contract_wrapping_sum)]
fn c18_residual_new_ok_order1() {
    let ok = residual_new_ok_serialises::<2, 4>(1, 0);
    kani::cover!(ok);
    let ok = residual_new_ok_serialises::<2, 4>(1, 2);
    kani::cover!(ok);
    residual_new_ok_serialises::<2, 4>(1, 3);
}

/// Field-wise identical copy of `c` whose loop-steering scalars are the (asserted equal) concrete
/// values: lets CBMC bound the writer's loops by constants (a value moved out of a `Result` loses
/// constant propagation; measured 267 s -> see unit times).
fn residual_with_concrete_shape(c: Residual, order: usize, bs: usize, w: usize) -> Residual {
    assert!(c.partition_order as usize == order && c.block_size == bs && c.warmup_length == w);
    Residual {
        partition_order: order as u8,
        block_size: bs,
        warmup_length: w,
        rice_params: c.rice_params,
        quotients: c.quotients,
        remainders: c.remainders,
        sum_quotients: c.sum_quotients,
        sum_rice_params: c.sum_rice_params,
    }
}

#[kani::proof]
#[kani::unwind(8)]
#[kani::stub(std::fmt::format, stub_format)]
#[kani::stub(find_max, contract_find_max)]
#[kani::stub(wrapping_sum, contract_wrapping_sum)]
fn x18_b() {
    let p: [u8; 1] = kani::any();
    let q: [u32; 2] = kani::any();
    let r: [u32; 2] = kani::any();
    match Residual::new(0, 2, 0, &p, &q, &r) {
        Ok(c) => {
            let c = residual_with_concrete_shape(c, 0, 2, 0);
            let s = serialises_len(&c);
        }
        Err(_) => {}
    }
}
#[kani::proof]
#[kani::unwind(8)]
#[kani::stub(std::fmt::format, stub_format)]
#[kani::stub(find_max, contract_find_max)]
#[kani::stub(wrapping_sum, contract_wrapping_sum)]
fn x18_d() {
    let p: [u8; 2] = kani::any();
    let q: [u32; 4] = kani::any();
    let r: [u32; 4] = kani::any();
    match Residual::new(1, 4, 1, &p, &q, &r) {
        Ok(c) => {
            let c = residual_with_concrete_shape(c, 1, 4, 1);
            let bits = spec_residual_wellformed(&c);
            let s = serialises_len(&c);
            assert!(s as u64 == bits);
        }
        Err(_) => {}
    }
}
#[kani::proof]
#[kani::unwind(8)]
#[kani::stub(std::fmt::format, stub_format)]
#[kani::stub(find_max, contract_find_max)]
#[kani::stub(wrapping_sum, contract_wrapping_sum)]
fn x18_e() {
    let p: [u8; 2] = kani::any();
    let q: [u32; 4] = kani::any();
    let r: [u32; 4] = kani::any();
    kani::assume(q[0] <= 70 && q[1] <= 70 && q[2] <= 70 && q[3] <= 70);
    match Residual::new(1, 4, 1, &p, &q, &r) {
        Ok(c) => {
            let c = residual_with_concrete_shape(c, 1, 4, 1);
            let bits = spec_residual_wellformed(&c);
            let s = serialises(&c);
            assert!(s.id.len as u64 == bits);
        }
        Err(_) => {}
    }
}
