// Harnesses for src/component/datatype.rs (child module `component::datatype::verif_c18`).
//
// C18 "Public component constructors are total and imply serialisability":
//   every public constructor either returns Err or returns a component that verifies, serialises
//   without panicking to exactly `count_bits()` bits (in the RFC 9639 layout, so that a decoder
//   reads the same component back); no argument combination makes a constructor or `verify()`
//   panic.
//
// Conventions of this file
// * slice LENGTHS and the scalars that steer loops / divisions (partition order, block size,
//   warm-up length, LPC order) are concrete per call of a body fn (README pitfall 1: a symbolic
//   warm-up length alone costs 4x, a symbolic block size > 400 s); each unit enumerates a set of
//   such "shapes" that contains every inconsistent combination named by the property.  Every
//   element value and every remaining scalar is symbolic over its full type.
// * "total" == the call returns: Kani reports every reachable panic / arithmetic overflow / failed
//   (debug_)assert / out-of-bounds index inside the callee as a failed check.
// * the 64/32-lane reductions called by `Residual::from_parts` are replaced by their scalar
//   contracts (README pitfall 5); the contracts are proved by c18_find_max_contract /
//   c18_wrapping_sum_contract below.
// * `StreamInfo::new` and `FrameHeader::new` are covered by datatype::verif::c17_*.

use crate::bitsink::verif::SpecSink;

// ================================================================================================
// Callee contracts for the fake-SIMD reductions used by `Residual::from_parts`
// ================================================================================================

/// contract of `arrayutils::find_max::<N>`: the maximum of the slice, 0 when empty.
fn contract_find_max<const N: usize>(data: &[u32]) -> u32
where
    simd::LaneCount<N>: simd::SupportedLaneCount,
{
    let mut m = 0u32;
    let mut i = 0;
    while i < data.len() {
        if data[i] > m {
            m = data[i];
        }
        i += 1;
    }
    m
}

/// contract of `arrayutils::wrapping_sum::<T, N>`: the wrapping sum of the slice.
fn contract_wrapping_sum<T, const N: usize>(data: &[T]) -> T
where
    T: simd::SimdElement + num_traits::WrappingAdd + num_traits::Zero,
    simd::LaneCount<N>: simd::SupportedLaneCount,
{
    let mut s = T::zero();
    let mut i = 0;
    while i < data.len() {
        s = s.wrapping_add(&data[i]);
        i += 1;
    }
    s
}

//@ unit props=C18 tier=quick kind=bounded timeout=600 funcs="arrayutils::find_max::<64>" bound="slices of 0..=4 elements (the sizes the C18 units use), every u32 value"
#[kani::proof]
#[kani::unwind(66)]
fn c18_find_max_contract() {
    let a: [u32; 4] = kani::any();
    let n: usize = kani::any();
    kani::assume(n <= 4);
    assert!(find_max::<64>(&a[0..n]) == contract_find_max::<64>(&a[0..n]));
    kani::cover!(n == 4 && a[3] > a[0]);
}

//@ unit props=C18 tier=quick kind=bounded timeout=600 funcs="arrayutils::wrapping_sum::<u32, 32>" bound="slices of 0..=4 elements (the sizes the C18 units use), every u32 value"
#[kani::proof]
#[kani::unwind(34)]
fn c18_wrapping_sum_contract() {
    let a: [u32; 4] = kani::any();
    let n: usize = kani::any();
    kani::assume(n <= 4);
    assert!(wrapping_sum::<u32, 32>(&a[0..n]) == contract_wrapping_sum::<u32, 32>(&a[0..n]));
    kani::cover!(n == 4 && a[0] == u32::MAX && a[1] == 2);
}

// ================================================================================================
// Shared helpers
// ================================================================================================

/// A user sink that only measures: every primitive operation checks its own pre-condition (no
/// more bits than the value type has) and advances the length.  It overrides `write_zeros` the
/// way `MemSink` does.  Components that contain a `Residual` are serialised into it: all panics /
/// overflows / index errors inside the component's `write` stay visible, while the bit CONTENTS
/// (RFC layout) of well-formed components are the subject of bitrepr::verif_sub (C02/C08), which
/// needs `SpecSink` and is ~10x more expensive per written sample.
struct LenSink {
    len: usize,
}

impl BitSink for LenSink {
    type Error = crate::bitsink::verif::SpecSinkError;
    fn align_to_byte(&mut self) -> Result<usize, Self::Error> {
        let r = (8 - self.len % 8) % 8;
        self.len += r;
        Ok(r)
    }
    fn write_lsbs<T: crate::bitsink::Bits>(&mut self, _val: T, n: usize) -> Result<(), Self::Error> {
        assert!(n <= 8 * std::mem::size_of::<T>());
        self.len += n;
        Ok(())
    }
    fn write_msbs<T: crate::bitsink::Bits>(&mut self, _val: T, n: usize) -> Result<(), Self::Error> {
        assert!(n <= 8 * std::mem::size_of::<T>());
        self.len += n;
        Ok(())
    }
    fn write<T: crate::bitsink::Bits>(&mut self, _val: T) -> Result<(), Self::Error> {
        self.len += 8 * std::mem::size_of::<T>();
        Ok(())
    }
    fn write_zeros(&mut self, n: usize) -> Result<(), Self::Error> {
        self.len += n;
        Ok(())
    }
}

/// `count_bits()` does not panic, `write` succeeds without panicking and delivers exactly
/// `count_bits()` bits (length only).
fn serialises_len<T: BitRepr>(c: &T) -> usize {
    let n = c.count_bits();
    let mut s = LenSink { len: 0 };
    assert!(c.write(&mut s).is_ok());
    assert!(s.len == n);
    n
}

/// Same into the ideal bit string; returns the written bits for layout checks.
fn serialises<T: BitRepr>(c: &T) -> SpecSink {
    let n = c.count_bits();
    let mut s = SpecSink::new();
    assert!(c.write(&mut s).is_ok());
    assert!(s.id.len == n);
    s
}

/// Bits `[pos, pos + n)` of the written string as an integer (n <= 32, pos + n <= 64).
fn field(s: &SpecSink, pos: usize, n: usize) -> u64 {
    (s.id.w[0] << pos) >> (64 - n)
}

/// What an RFC 9639 decoder needs of a RESIDUAL (section 9.2.7) in the 4-bit-parameter coding this
/// crate writes, stated on the component's fields: partition order <= 15 with 2^order parameters,
/// the block is split evenly, the warm-up samples all lie in the first partition, parameters are
/// not the escape code (<= 14), every remainder fits its parameter, and the padding of the warm-up
/// samples is zero.  Returns the number of bits of the coded residual.
fn spec_residual_wellformed(res: &Residual) -> u64 {
    let order = res.partition_order as usize;
    assert!(order <= 15);
    let nparts = 1usize << order;
    assert!(res.rice_params.len() == nparts);
    assert!(res.quotients.len() == res.block_size);
    assert!(res.remainders.len() == res.block_size);
    assert!(res.block_size <= 32767);
    assert!(res.block_size % nparts == 0);
    let part_len = res.block_size / nparts;
    assert!(res.warmup_length <= part_len);
    let mut bits: u64 = 6 + 4 * nparts as u64;
    let mut i = 0;
    while i < res.rice_params.len() {
        assert!(res.rice_params[i] <= 14);
        i += 1;
    }
    let mut t = 0;
    while t < res.block_size {
        if t < res.warmup_length {
            assert!(res.quotients[t] == 0 && res.remainders[t] == 0);
        } else {
            let p = res.rice_params[t / part_len];
            assert!((res.remainders[t] as u64) < (1u64 << p));
            bits += res.quotients[t] as u64 + 1 + p as u64;
        }
        t += 1;
    }
    bits
}

// ================================================================================================
// Residual
// ================================================================================================

/// One call of `Residual::new` with a concrete shape and symbolic contents.  The call must return;
/// `Ok` must report the arguments unchanged (no `as u8` re-interpretation of the order).
fn residual_new_total<const NP: usize, const NQ: usize, const NR: usize>(
    order: usize,
    bs: usize,
    w: usize,
) -> bool {
    let p: [u8; NP] = kani::any();
    let q: [u32; NQ] = kani::any();
    let r: [u32; NR] = kani::any();
    match Residual::new(order, bs, w, &p, &q, &r) {
        Ok(c) => {
            assert!(c.partition_order() == order && c.block_size() == bs);
            assert!(c.warmup_length() == w);
            assert!(NQ == bs && NR == bs && order < 64 && NP == (1usize << order));
            true
        }
        Err(_) => false,
    }
}

//@ unit props=C18 tier=quick kind=bounded timeout=600 funcs="Residual::new; Residual::from_parts; Residual::verify" stubs="find_max -> scalar maximum (c18_find_max_contract); wrapping_sum -> scalar wrapping sum (c18_wrapping_sum_contract)" bound="shapes (order, block, warm-up | #params, #quotients, #remainders): lengths that disagree with each other, with the block size, or with 2^order; all values symbolic"
#[kani::proof]
#[kani::unwind(8)]
#[kani::stub(std::fmt::format, stub_format)]
#[kani::stub(find_max, contract_find_max)]
#[kani::stub(wrapping_sum, contract_wrapping_sum)]
fn c18_residual_new_total_lengths() {
    let ok = residual_new_total::<1, 2, 2>(0, 2, 0); // consistent: reachable Ok
    kani::cover!(ok);
    residual_new_total::<1, 2, 1>(0, 2, 0); // remainders shorter than quotients
    residual_new_total::<1, 1, 2>(0, 2, 0); // quotients shorter than the block
    residual_new_total::<1, 2, 2>(0, 3, 0); // block size above the lengths
    residual_new_total::<1, 2, 2>(1, 2, 0); // 1 parameter for 2 partitions
    residual_new_total::<2, 2, 2>(0, 2, 0); // 2 parameters for 1 partition
    residual_new_total::<0, 2, 2>(0, 2, 0); // no parameter at all
}

//@ unit props=C18 tier=quick kind=bounded timeout=600 funcs="Residual::new; Residual::from_parts; Residual::verify" stubs="find_max -> scalar maximum (c18_find_max_contract); wrapping_sum -> scalar wrapping sum (c18_wrapping_sum_contract)" bound="shapes: partition order 20 / 64 / 256, warm-up above the block size / usize::MAX, block size usize::MAX; all values symbolic"
#[kani::proof]
#[kani::unwind(8)]
#[kani::stub(std::fmt::format, stub_format)]
#[kani::stub(find_max, contract_find_max)]
#[kani::stub(wrapping_sum, contract_wrapping_sum)]
fn c18_residual_new_total_scalars() {
    residual_new_total::<1, 2, 2>(20, 2, 0); // order above 15
    residual_new_total::<1, 2, 2>(64, 2, 0); // `1 << order` out of range
    residual_new_total::<1, 2, 2>(256, 2, 0); // `order as u8` == 0
    residual_new_total::<1, 2, 2>(0, 2, 3); // warm-up longer than the block
    residual_new_total::<1, 2, 2>(0, 2, usize::MAX);
    residual_new_total::<1, 2, 2>(0, usize::MAX, 0); // `max_quotient * block_size`
}

//@ unit props=C18 tier=quick kind=bounded timeout=600 funcs="Residual::new; Residual::from_parts; Residual::verify" stubs="find_max -> scalar maximum (c18_find_max_contract); wrapping_sum -> scalar wrapping sum (c18_wrapping_sum_contract)" bound="shapes: empty block, more partitions than samples, block not a multiple of the partition count, warm-up reaching into the second partition; all values symbolic"
#[kani::proof]
#[kani::unwind(8)]
#[kani::stub(std::fmt::format, stub_format)]
#[kani::stub(find_max, contract_find_max)]
#[kani::stub(wrapping_sum, contract_wrapping_sum)]
fn c18_residual_new_total_partitions() {
    let ok = residual_new_total::<1, 0, 0>(0, 0, 0); // empty block
    kani::cover!(ok);
    residual_new_total::<4, 2, 2>(2, 2, 0); // partition length 0
    residual_new_total::<2, 3, 3>(1, 3, 0); // 3 samples in 2 partitions
    residual_new_total::<2, 2, 2>(1, 2, 2); // warm-up == block > partition length
    let ok = residual_new_total::<2, 4, 4>(1, 4, 1);
    kani::cover!(ok);
}

/// `Residual::verify()` is the gate for values that did not come through `new` (crate-private
/// `from_parts`, serde `Deserialize` of arbitrary field values).  On a concrete shape with
/// ARBITRARY contents and cached sums it returns, and `Ok` implies the residual is well-formed
/// per the RFC (`spec_residual_wellformed`), i.e. the pre-condition under which
/// bitrepr::verif_sub proves the writer, and `count_bits()` does not panic and equals the
/// independently computed size.
fn residual_verify_gate<const NP: usize, const NQ: usize, const NR: usize>(
    order: u8,
    bs: usize,
    w: usize,
) -> bool {
    let res = Residual {
        partition_order: order,
        block_size: bs,
        warmup_length: w,
        rice_params: Vec::from(kani::any::<[u8; NP]>()),
        quotients: Vec::from(kani::any::<[u32; NQ]>()),
        remainders: Vec::from(kani::any::<[u32; NR]>()),
        sum_quotients: kani::any(),
        sum_rice_params: kani::any(),
    };
    let ok = res.verify().is_ok();
    if ok {
        let bits = spec_residual_wellformed(&res);
        assert!(res.count_bits() as u64 == bits);
    }
    ok
}

//@ unit props=C18 tier=quick kind=bounded timeout=600 funcs="Residual::verify; Residual::count_bits" bound="shapes (order, block, warm-up | #params, #quotients, #remainders) as in c18_residual_new_total_lengths plus well-formed ones; contents and cached sums symbolic"
#[kani::proof]
#[kani::unwind(8)]
#[kani::stub(std::fmt::format, stub_format)]
fn c18_residual_verify_gate_lengths() {
    let ok = residual_verify_gate::<1, 2, 2>(0, 2, 0);
    kani::cover!(ok);
    let ok = residual_verify_gate::<1, 3, 3>(0, 3, 2);
    kani::cover!(ok);
    residual_verify_gate::<1, 2, 1>(0, 2, 0);
    residual_verify_gate::<1, 1, 2>(0, 2, 0);
    residual_verify_gate::<1, 2, 2>(0, 3, 0);
    residual_verify_gate::<1, 2, 2>(1, 2, 0);
    residual_verify_gate::<2, 2, 2>(0, 2, 0);
    residual_verify_gate::<0, 2, 2>(0, 2, 0);
}

//@ unit props=C18 tier=quick kind=bounded timeout=600 funcs="Residual::verify; Residual::count_bits" bound="shapes: partition order 20 / 64 / 255, warm-up above the block size / usize::MAX, empty block, partition length 0, uneven partitions, warm-up beyond the first partition; contents and cached sums symbolic"
#[kani::proof]
#[kani::unwind(8)]
#[kani::stub(std::fmt::format, stub_format)]
fn c18_residual_verify_gate_scalars() {
    residual_verify_gate::<1, 2, 2>(20, 2, 0);
    residual_verify_gate::<1, 2, 2>(64, 2, 0);
    residual_verify_gate::<1, 2, 2>(255, 2, 0);
    residual_verify_gate::<1, 2, 2>(0, 2, 3);
    residual_verify_gate::<1, 2, 2>(0, 2, usize::MAX);
    residual_verify_gate::<1, 0, 0>(0, 0, 0);
    residual_verify_gate::<4, 2, 2>(2, 2, 0);
    residual_verify_gate::<2, 3, 3>(1, 3, 0);
    residual_verify_gate::<2, 2, 2>(1, 2, 2);
    let ok = residual_verify_gate::<2, 4, 4>(1, 4, 2);
    kani::cover!(ok);
}

/// Field-wise identical copy of `c`, rebuilt from the (asserted equal) concrete scalars and the
/// argument arrays: a value moved out of a `Result` loses CBMC's constant propagation for the
/// loop-steering scalars and the Vec pointers (block 2: 267 s with the moved value, 41 s with the
/// copy).  The cached sums are taken from `c`.
fn residual_rebuilt(
    c: Residual,
    order: usize,
    bs: usize,
    w: usize,
    p: &[u8],
    q: &[u32],
    r: &[u32],
) -> Residual {
    assert!(c.partition_order as usize == order && c.block_size == bs && c.warmup_length == w);
    assert!(c.rice_params.len() == p.len());
    assert!(c.quotients.len() == q.len() && c.remainders.len() == r.len());
    let mut i = 0;
    while i < p.len() {
        assert!(c.rice_params[i] == p[i]);
        i += 1;
    }
    let mut i = 0;
    while i < q.len() {
        assert!(c.quotients[i] == q[i]);
        i += 1;
    }
    let mut i = 0;
    while i < r.len() {
        assert!(c.remainders[i] == r[i]);
        i += 1;
    }
    Residual {
        partition_order: order as u8,
        block_size: bs,
        warmup_length: w,
        rice_params: p.to_vec(),
        quotients: q.to_vec(),
        remainders: r.to_vec(),
        sum_quotients: c.sum_quotients,
        sum_rice_params: c.sum_rice_params,
    }
}

/// `Residual::new(..) == Ok(c)`  ==>  `c.verify()` is Ok, `c` is well-formed, and it serialises
/// without panicking to exactly `count_bits()` bits (== the independently computed size) with the
/// partition order and the first parameter at their RFC positions.  Quotients are bounded by 70
/// only here (the zero run is `BitSink::write_zeros`, proved for every length in bitsink::verif);
/// parameters and remainders range over their full types.
fn residual_new_ok_serialises<const NP: usize, const N: usize>(order: usize, w: usize) -> bool {
    let p: [u8; NP] = kani::any();
    let q: [u32; N] = kani::any();
    let r: [u32; N] = kani::any();
    let mut i = 0;
    while i < N {
        kani::assume(q[i] <= 70);
        i += 1;
    }
    match Residual::new(order, N, w, &p, &q, &r) {
        Ok(c) => {
            let c = residual_rebuilt(c, order, N, w, &p, &q, &r);
            let bits = spec_residual_wellformed(&c);
            let s = serialises(&c);
            assert!(s.id.len as u64 == bits);
            assert!(field(&s, 0, 6) == order as u64);
            assert!(field(&s, 6, 4) == p[0] as u64);
            assert!(c.rice_parameter(0) == p[0] as usize);
            true
        }
        Err(_) => false,
    }
}

macro_rules! residual_new_ok_harness {
    ($name:ident, $np:expr, $n:expr, $order:expr, $w:expr, $reachable:expr) => {
        #[kani::proof]
        #[kani::unwind(8)]
        #[kani::stub(std::fmt::format, stub_format)]
        #[kani::stub(find_max, contract_find_max)]
        #[kani::stub(wrapping_sum, contract_wrapping_sum)]
        fn $name() {
            let ok = residual_new_ok_serialises::<$np, $n>($order, $w);
            if $reachable {
                kani::cover!(ok);
            }
        }
    };
}

//@ unit name=c18_residual_new_ok_o0_n2_w0 props=C18 tier=quick kind=bounded timeout=600 funcs="Residual::new; Residual::write; Residual::count_bits" stubs="find_max -> scalar maximum (c18_find_max_contract); wrapping_sum -> scalar wrapping sum (c18_wrapping_sum_contract)" bound="partition order 0, block 2, warm-up 0; quotients <= 70, parameters and remainders symbolic"
//@ unit name=c18_residual_new_ok_o0_n3_w2 props=C18 tier=quick kind=bounded timeout=600 funcs="Residual::new; Residual::write; Residual::count_bits" stubs="find_max -> scalar maximum (c18_find_max_contract); wrapping_sum -> scalar wrapping sum (c18_wrapping_sum_contract)" bound="partition order 0, block 3, warm-up 2; quotients <= 70, parameters and remainders symbolic"
//@ unit name=c18_residual_new_ok_o1_n4_w1 props=C18 tier=quick kind=bounded timeout=600 funcs="Residual::new; Residual::write; Residual::count_bits" stubs="find_max -> scalar maximum (c18_find_max_contract); wrapping_sum -> scalar wrapping sum (c18_wrapping_sum_contract)" bound="partition order 1, block 4, warm-up 1; quotients <= 70, parameters and remainders symbolic"
//@ unit name=c18_residual_new_ok_o1_n4_w3 props=C18 tier=quick kind=bounded timeout=600 funcs="Residual::new; Residual::write; Residual::count_bits" stubs="find_max -> scalar maximum (c18_find_max_contract); wrapping_sum -> scalar wrapping sum (c18_wrapping_sum_contract)" bound="partition order 1, block 4, warm-up 3 (reaches into the second partition: must be rejected or serialisable); quotients <= 70, parameters and remainders symbolic"
residual_new_ok_harness!(c18_residual_new_ok_o0_n2_w0, 1, 2, 0, 0, true);
residual_new_ok_harness!(c18_residual_new_ok_o0_n3_w2, 1, 3, 0, 2, true);
residual_new_ok_harness!(c18_residual_new_ok_o1_n4_w1, 2, 4, 1, 1, true);
residual_new_ok_harness!(c18_residual_new_ok_o1_n4_w3, 2, 4, 1, 3, false);

// ================================================================================================
// QuantizedParameters
// ================================================================================================

/// What the LPC sub-frame header can carry (RFC 9639 section 9.2.6, and the crate's documented
/// limits): order <= 24 coefficients, precision 1..=15 (written as precision-1 in 4 bits, 0b1111
/// is invalid), non-negative 5-bit shift, every coefficient fits the precision.
fn spec_qp_wellformed(qp: &QuantizedParameters) {
    assert!(qp.order <= 24);
    assert!(1 <= qp.precision && qp.precision <= 15);
    assert!(0 <= qp.shift && qp.shift <= 15);
    let mut j = 0;
    while j < qp.order {
        assert!(spec_fits(qp.coefs[j] as i64, qp.precision));
        j += 1;
    }
}

/// Field-wise identical copy with the (asserted equal) concrete order, see
/// `residual_with_concrete_shape`.
fn qp_with_concrete_order(qp: QuantizedParameters, order: usize) -> QuantizedParameters {
    assert!(qp.order == order);
    QuantizedParameters {
        coefs: qp.coefs,
        order,
        shift: qp.shift,
        precision: qp.precision,
    }
}

/// One call of `QuantizedParameters::new` with a concrete (number of coefficients, order) and
/// symbolic coefficients / shift / precision: returns; Ok ==> verifies, is well-formed, and
/// reports the arguments.
fn qp_new<const NC: usize>(order: usize) -> bool {
    let coefs: [i16; NC] = kani::any();
    let shift: i8 = kani::any();
    let precision: usize = kani::any();
    match QuantizedParameters::new(&coefs, order, shift, precision) {
        Ok(qp) => {
            assert!(order == NC);
            assert!(qp.order() == order && qp.shift() == shift && qp.precision() == precision);
            let qp = qp_with_concrete_order(qp, NC);
            assert!(qp.verify().is_ok());
            spec_qp_wellformed(&qp);
            let mut j = 0;
            while j < NC {
                assert!(qp.coefficient(j) == Some(coefs[j]));
                j += 1;
            }
            assert!(qp.coefficient(NC).is_none());
            true
        }
        Err(_) => false,
    }
}

//@ unit props=C18 tier=quick kind=bounded timeout=600 funcs="QuantizedParameters::new; QuantizedParameters::from_parts; QuantizedParameters::verify" bound="(#coefficients, order) in {(1,1),(2,2),(0,0),(2,1),(1,2),(0,1),(2,33),(1,usize::MAX)}; coefficients, shift (every i8) and precision (every usize) symbolic"
#[kani::proof]
#[kani::unwind(8)]
#[kani::stub(std::fmt::format, stub_format)]
fn c18_qp_new_small() {
    let ok = qp_new::<1>(1);
    kani::cover!(ok);
    let ok = qp_new::<2>(2);
    kani::cover!(ok);
    qp_new::<0>(0);
    qp_new::<2>(1); // more coefficients than the order
    qp_new::<1>(2); // fewer
    qp_new::<0>(1);
    qp_new::<2>(33); // order beyond the 32 lanes
    qp_new::<1>(usize::MAX);
}

//@ unit props=C18 tier=quick kind=bounded timeout=600 funcs="QuantizedParameters::new; QuantizedParameters::from_parts; QuantizedParameters::verify" bound="(#coefficients, order) in {(24,24),(25,25),(33,33)}; coefficients, shift and precision symbolic"
#[kani::proof]
#[kani::unwind(36)]
#[kani::stub(std::fmt::format, stub_format)]
fn c18_qp_new_large() {
    let ok = qp_new::<24>(24);
    kani::cover!(ok);
    qp_new::<25>(25);
    qp_new::<33>(33);
}

/// `QuantizedParameters::verify()` on arbitrary field values (serde / `from_parts`): returns, and
/// Ok ==> well-formed.
fn qp_verify_gate(order: usize) -> bool {
    let qp = QuantizedParameters {
        coefs: simd::i16x32::from_array(kani::any()),
        order,
        shift: kani::any(),
        precision: kani::any(),
    };
    let ok = qp.verify().is_ok();
    if ok {
        spec_qp_wellformed(&qp);
    }
    ok
}

//@ unit props=C18 tier=quick kind=bounded timeout=600 funcs="QuantizedParameters::verify" bound="order in {0,1,2,24,25,32,33,usize::MAX}; all 32 lanes, shift and precision symbolic"
#[kani::proof]
#[kani::unwind(36)]
#[kani::stub(std::fmt::format, stub_format)]
fn c18_qp_verify_gate() {
    qp_verify_gate(0);
    let ok = qp_verify_gate(1);
    kani::cover!(ok);
    qp_verify_gate(2);
    let ok = qp_verify_gate(24);
    kani::cover!(ok);
    qp_verify_gate(25);
    qp_verify_gate(32);
    qp_verify_gate(33);
    qp_verify_gate(usize::MAX);
}

// ================================================================================================
// Constant / Verbatim
// ================================================================================================

/// The sample widths a FLAC sub-frame can have in this crate: 8..=24 in steps of 4, plus one for
/// a side channel.
fn spec_bps(bps: usize) -> bool {
    8 <= bps && bps <= 25 && (bps % 4 == 0 || bps % 4 == 1)
}

/// `Constant::new` over the full domain of all three arguments (loop-free: complete).
/// Ok <=> block size <= 32767, valid width, offset fits the width; Ok ==> verifies and
/// serialises to 8 + bps bits: header byte 0 and the offset in two's complement.
//@ unit props=C18 tier=quick kind=complete timeout=600 funcs="Constant::new; Constant::verify; Constant::write; Constant::count_bits"
#[kani::proof]
#[kani::unwind(8)]
#[kani::stub(std::fmt::format, stub_format)]
fn c18_constant_new() {
    let bs: usize = kani::any();
    let dc: i32 = kani::any();
    let bps: usize = kani::any();
    let valid = bs <= 32767 && spec_bps(bps) && spec_fits(dc as i64, if spec_bps(bps) { bps } else { 8 });
    match Constant::new(bs, dc, bps) {
        Ok(c) => {
            assert!(valid);
            assert!(c.verify().is_ok());
            assert!(c.block_size() == bs && c.dc_offset() == dc && c.bits_per_sample() == bps);
            let s = serialises(&c);
            assert!(s.id.len == 8 + bps);
            assert!(field(&s, 0, 8) == 0);
            assert!(field(&s, 8, bps) == (dc as i64 as u64) & ((1u64 << bps) - 1));
        }
        Err(_) => assert!(!valid),
    }
    kani::cover!(valid && bs == 0);
    kani::cover!(valid && bps == 25 && dc < 0);
    kani::cover!(bps == 0);
    kani::cover!(bps == 300);
}

/// `Constant::verify()` on arbitrary fields: returns; Ok ==> serialisable.
//@ unit props=C18 tier=quick kind=complete timeout=600 funcs="Constant::verify; Constant::write; Constant::count_bits"
#[kani::proof]
#[kani::unwind(8)]
#[kani::stub(std::fmt::format, stub_format)]
fn c18_constant_verify_gate() {
    let c = Constant {
        block_size: kani::any(),
        dc_offset: kani::any(),
        bits_per_sample: kani::any(),
    };
    let ok = c.verify().is_ok();
    if ok {
        assert!(c.block_size <= 32767 && spec_bps(c.bits_per_sample as usize));
        assert!(spec_fits(c.dc_offset as i64, c.bits_per_sample as usize));
        serialises(&c);
    }
    kani::cover!(ok);
    kani::cover!(c.bits_per_sample == 0);
}

fn verbatim_new<const N: usize>() {
    let x: [i32; N] = kani::any();
    let bps: usize = kani::any();
    let mut fits = spec_bps(bps);
    let mut i = 0;
    while i < N {
        fits = fits && spec_fits(x[i] as i64, if spec_bps(bps) { bps } else { 8 });
        i += 1;
    }
    match Verbatim::new(&x, bps) {
        Ok(c) => {
            assert!(fits);
            assert!(c.verify().is_ok());
            assert!(c.bits_per_sample() == bps && c.samples().len() == N);
            let s = serialises(&c);
            assert!(s.id.len == 8 + N * bps);
            assert!(field(&s, 0, 8) == 2);
            if N > 0 {
                assert!(c.samples()[0] == x[0]);
                assert!(field(&s, 8, bps) == (x[0] as i64 as u64) & ((1u64 << bps) - 1));
            }
        }
        Err(_) => assert!(!fits),
    }
    kani::cover!(fits);
    kani::cover!(bps == 0);
}

/// `Verbatim::new`: Ok <=> valid width and every sample fits; Ok ==> verifies and serialises to
/// 8 + n * bps bits (header byte 0x02, first sample at its position).
//@ unit props=C18 tier=quick kind=bounded timeout=600 funcs="Verbatim::new; Verbatim::verify; Verbatim::write; Verbatim::count_bits" bound="0 and 2 samples; every sample value and every usize width" note="the upper length limit (32767 samples) is out of reach for a symbolic unit; see report: Verbatim::new(&[0; 40000], 16) is Ok but verify() is Err on the unchanged tree"
#[kani::proof]
#[kani::unwind(8)]
#[kani::stub(std::fmt::format, stub_format)]
fn c18_verbatim_new() {
    verbatim_new::<0>();
    verbatim_new::<2>();
}

// ================================================================================================
// FixedLpc / Lpc
// ================================================================================================

/// A residual as a user of the public API can obtain it: an `Ok` result of `Residual::new`, with
/// partition order 0, block size 3, the given warm-up length and symbolic contents.
fn any_public_residual(w: usize) -> Option<(Residual, [u8; 1], [u32; 2], [u32; 2])> {
    let p: [u8; 1] = kani::any();
    let q: [u32; 2] = kani::any();
    let r: [u32; 2] = kani::any();
    match Residual::new(0, 2, w, &p, &q, &r) {
        Ok(c) => Some((residual_rebuilt(c, 0, 2, w, &p, &q, &r), p, q, r)),
        Err(_) => None,
    }
}

/// Copy of a heapless vector with a concrete length (contents asserted equal).
fn heapless_rebuilt<const NW: usize, const CAP: usize>(
    v: &heapless::Vec<i32, CAP>,
    warm: &[i32; NW],
) -> heapless::Vec<i32, CAP> {
    assert!(v.len() == NW);
    let mut out = heapless::Vec::<i32, CAP>::new();
    let mut i = 0;
    while i < NW {
        assert!(v[i] == warm[i]);
        out.push(warm[i]).unwrap();
        i += 1;
    }
    out
}

/// `FixedLpc::new` with NW warm-up samples (symbolic), a public residual of block 3 whose own
/// warm-up length is `rw`, and a symbolic width: returns; Ok ==> verifies, the residual codes
/// exactly block - order samples (else a decoder misreads the sub-frame), order <= 4, and it
/// serialises to count_bits() bits with the RFC header byte.
fn fixed_lpc_new<const NW: usize>(rw: usize) -> bool {
    let warm: [i32; NW] = kani::any();
    let bps: usize = kani::any();
    let Some((res, rp, rq, rr)) = any_public_residual(rw) else {
        return false;
    };
    match FixedLpc::new(&warm, res, bps) {
        Ok(c) => {
            assert!(NW <= 4 && c.order() == NW && spec_bps(bps) && c.bits_per_sample() == bps);
            assert!(c.residual().warmup_length() == NW);
            let mut i = 0;
            while i < NW {
                assert!(spec_fits(warm[i] as i64, bps) && c.warm_up()[i] == warm[i]);
                i += 1;
            }
            let c = FixedLpc {
                warm_up: heapless_rebuilt(&c.warm_up, &warm),
                residual: residual_rebuilt(c.residual, 0, 2, rw, &rp, &rq, &rr),
                bits_per_sample: c.bits_per_sample,
            };
            assert!(c.verify().is_ok());
            serialises_len(&c);
            true
        }
        Err(_) => false,
    }
}

macro_rules! fixed_lpc_harness {
    ($name:ident, $nw:expr, $rw:expr, $reachable:expr) => {
        #[kani::proof]
        #[kani::unwind(8)]
        #[kani::stub(std::fmt::format, stub_format)]
        #[kani::stub(find_max, contract_find_max)]
        #[kani::stub(wrapping_sum, contract_wrapping_sum)]
        fn $name() {
            let ok = fixed_lpc_new::<$nw>($rw);
            if $reachable {
                kani::cover!(ok);
            }
        }
    };
}

//@ unit name=c18_fixed_lpc_new_w0 props=C18 tier=quick kind=bounded timeout=600 funcs="FixedLpc::new; FixedLpc::verify; FixedLpc::write; FixedLpc::count_bits" stubs="find_max -> scalar maximum (c18_find_max_contract); wrapping_sum -> scalar wrapping sum (c18_wrapping_sum_contract)" bound="order 0, residual of block 3 / warm-up 0; warm-up values, width, residual contents symbolic"
//@ unit name=c18_fixed_lpc_new_w2 props=C18 tier=quick kind=bounded timeout=600 funcs="FixedLpc::new; FixedLpc::verify; FixedLpc::write; FixedLpc::count_bits" stubs="find_max -> scalar maximum (c18_find_max_contract); wrapping_sum -> scalar wrapping sum (c18_wrapping_sum_contract)" bound="order 2, residual of block 3 / warm-up 2; warm-up values, width, residual contents symbolic"
//@ unit name=c18_fixed_lpc_new_w1_mismatch props=C18 tier=quick kind=bounded timeout=600 funcs="FixedLpc::new; FixedLpc::verify; FixedLpc::write; FixedLpc::count_bits" stubs="find_max -> scalar maximum (c18_find_max_contract); wrapping_sum -> scalar wrapping sum (c18_wrapping_sum_contract)" bound="1 warm-up sample but a residual with warm-up length 0 (inconsistent); all values symbolic"
//@ unit name=c18_fixed_lpc_new_w5 props=C18 tier=quick kind=bounded timeout=600 funcs="FixedLpc::new" stubs="find_max -> scalar maximum (c18_find_max_contract); wrapping_sum -> scalar wrapping sum (c18_wrapping_sum_contract)" bound="5 warm-up samples (above the maximum fixed order), residual of block 3 / warm-up 3; all values symbolic"
fixed_lpc_harness!(c18_fixed_lpc_new_w0, 0, 0, true);
fixed_lpc_harness!(c18_fixed_lpc_new_w2, 2, 2, true);
fixed_lpc_harness!(c18_fixed_lpc_new_w1_mismatch, 1, 0, false);
fixed_lpc_harness!(c18_fixed_lpc_new_w5, 5, 3, false);

/// `Lpc::new` with NW warm-up samples, public parameters of order NC (an `Ok` result of
/// `QuantizedParameters::new`), a public residual of block 3 / warm-up `rw`, symbolic width:
/// returns; Ok ==> verifies, 1 <= order == NW == residual warm-up, parameters well-formed, and
/// none of the writer's assertions (`precision < 16`, `shift >= 0`, `order - 1`, coefficient
/// range) fires: it serialises to count_bits() bits with the RFC header byte.
fn lpc_new<const NW: usize, const NC: usize>(rw: usize) -> bool {
    let warm: [i32; NW] = kani::any();
    let bps: usize = kani::any();
    let coefs: [i16; NC] = kani::any();
    let Ok(qp) = QuantizedParameters::new(&coefs, NC, kani::any(), kani::any()) else {
        return false;
    };
    let qp = qp_with_concrete_order(qp, NC);
    let Some((res, rp, rq, rr)) = any_public_residual(rw) else {
        return false;
    };
    match Lpc::new(&warm, qp, res, bps) {
        Ok(c) => {
            assert!(1 <= NC && NC == NW && c.order() == NC);
            assert!(spec_bps(bps) && c.bits_per_sample() == bps);
            assert!(c.residual().warmup_length() == NC);
            let mut i = 0;
            while i < NW {
                assert!(spec_fits(warm[i] as i64, bps) && c.warm_up()[i] == warm[i]);
                i += 1;
            }
            let c = Lpc {
                parameters: qp_with_concrete_order(c.parameters, NC),
                warm_up: heapless_rebuilt(&c.warm_up, &warm),
                residual: residual_rebuilt(c.residual, 0, 2, rw, &rp, &rq, &rr),
                bits_per_sample: c.bits_per_sample,
            };
            assert!(c.verify().is_ok());
            spec_qp_wellformed(c.parameters());
            serialises_len(&c);
            true
        }
        Err(_) => false,
    }
}

macro_rules! lpc_harness {
    ($name:ident, $nw:expr, $nc:expr, $rw:expr, $unwind:expr, $reachable:expr) => {
        #[kani::proof]
        #[kani::unwind($unwind)]
        #[kani::stub(std::fmt::format, stub_format)]
        #[kani::stub(find_max, contract_find_max)]
        #[kani::stub(wrapping_sum, contract_wrapping_sum)]
        fn $name() {
            let ok = lpc_new::<$nw, $nc>($rw);
            if $reachable {
                kani::cover!(ok);
            }
        }
    };
}

//@ unit name=c18_lpc_new_o1 props=C18 tier=quick kind=bounded timeout=600 funcs="Lpc::new; Lpc::from_parts; Lpc::verify; Lpc::write; Lpc::count_bits" stubs="find_max -> scalar maximum (c18_find_max_contract); wrapping_sum -> scalar wrapping sum (c18_wrapping_sum_contract)" bound="order 1, 1 warm-up sample, residual of block 3 / warm-up 1; coefficient, shift, precision, width, samples symbolic"
//@ unit name=c18_lpc_new_o2 props=C18 tier=thorough kind=bounded timeout=900 funcs="Lpc::new; Lpc::from_parts; Lpc::verify; Lpc::write; Lpc::count_bits" stubs="find_max -> scalar maximum (c18_find_max_contract); wrapping_sum -> scalar wrapping sum (c18_wrapping_sum_contract)" bound="order 2, 2 warm-up samples, residual of block 3 / warm-up 2; all values symbolic"
//@ unit name=c18_lpc_new_o0 props=C18 tier=quick kind=bounded timeout=600 funcs="Lpc::new; Lpc::from_parts; Lpc::verify; Lpc::write; Lpc::count_bits" stubs="find_max -> scalar maximum (c18_find_max_contract); wrapping_sum -> scalar wrapping sum (c18_wrapping_sum_contract)" bound="order 0 (no coefficient, no warm-up sample), residual of block 3 / warm-up 0; all values symbolic"
//@ unit name=c18_lpc_new_w1_o2 props=C18 tier=quick kind=bounded timeout=600 funcs="Lpc::new; Lpc::from_parts" stubs="find_max -> scalar maximum (c18_find_max_contract); wrapping_sum -> scalar wrapping sum (c18_wrapping_sum_contract)" bound="1 warm-up sample but order 2 (lengths disagree), residual of block 3 / warm-up 1; all values symbolic"
//@ unit name=c18_lpc_new_o1_rw0 props=C18 tier=quick kind=bounded timeout=600 funcs="Lpc::new; Lpc::verify; Lpc::write" stubs="find_max -> scalar maximum (c18_find_max_contract); wrapping_sum -> scalar wrapping sum (c18_wrapping_sum_contract)" bound="order 1, 1 warm-up sample, but a residual with warm-up length 0 (inconsistent); all values symbolic"
//@ unit name=c18_lpc_new_w25 props=C18 tier=quick kind=bounded timeout=600 funcs="Lpc::new" stubs="find_max -> scalar maximum (c18_find_max_contract); wrapping_sum -> scalar wrapping sum (c18_wrapping_sum_contract)" bound="25 warm-up samples (above the maximum order 24), order 1; all values symbolic"
lpc_harness!(c18_lpc_new_o1, 1, 1, 1, 8, true);
lpc_harness!(c18_lpc_new_o2, 2, 2, 2, 8, true);
lpc_harness!(c18_lpc_new_o0, 0, 0, 0, 8, false);
lpc_harness!(c18_lpc_new_w1_o2, 1, 2, 1, 8, false);
lpc_harness!(c18_lpc_new_o1_rw0, 1, 1, 0, 8, false);
lpc_harness!(c18_lpc_new_w25, 25, 1, 1, 28, false);

// ================================================================================================
// Frame / MetadataBlockData / StreamInfo setters
// ================================================================================================

/// `Frame::new(header, k sub-frames)` for a header as `FrameHeader::new` returns it (it verifies:
/// datatype::verif::c17_frame_header_new) with a symbolic channel assignment and k = 0..=3
/// constant sub-frames as `Constant::new` returns them: returns; Ok <=> the channel count is k;
/// Ok ==> the frame verifies and holds the k sub-frames.
fn frame_new(k: usize) -> bool {
    let n: u8 = kani::any();
    let which: u8 = kani::any();
    let ca = match which % 4 {
        0 => ChannelAssignment::Independent(n),
        1 => ChannelAssignment::LeftSide,
        2 => ChannelAssignment::RightSide,
        _ => ChannelAssignment::MidSide,
    };
    let bs: u16 = kani::any();
    kani::assume(bs >= 1);
    let mut header = FrameHeader::from_specs(
        BlockSizeSpec::from_size(bs),
        ca,
        SampleSizeSpec::B16,
        SampleRateSpec::R44_1kHz,
    );
    header.set_frame_offset(FrameOffset::Frame(kani::any()));
    kani::assume(header.verify().is_ok());
    let channels = header.channel_assignment().channels();
    let mut subs: Vec<SubFrame> = Vec::with_capacity(4);
    let mut i = 0;
    while i < k {
        let c = Constant::from_parts(bs as usize, kani::any(), 16);
        kani::assume(c.verify().is_ok());
        subs.push(c.into());
        i += 1;
    }
    match Frame::new(header, subs.into_iter()) {
        Ok(f) => {
            assert!(channels == k);
            assert!(f.subframe_count() == k && f.block_size() == bs as usize);
            assert!(f.verify().is_ok());
            true
        }
        Err(_) => {
            assert!(channels != k);
            false
        }
    }
}

//@ unit props=C18 tier=quick kind=bounded timeout=600 funcs="Frame::new; Frame::from_parts; Frame::verify" bound="0..=3 constant sub-frames; channel assignment (every variant, every channel count u8), block size, frame number, offsets symbolic" note="serialisation of a whole frame (CRC-16 over MemSink<u64>) is bitrepr::verif_sub / C08 territory and not repeated here; consistency of the sub-frames' block size with the header is NOT checked by Frame::new / Frame::verify (see report)"
#[kani::proof]
#[kani::unwind(8)]
#[kani::stub(std::fmt::format, stub_format)]
fn c18_frame_new() {
    frame_new(0);
    let ok = frame_new(1);
    kani::cover!(ok);
    let ok = frame_new(2);
    kani::cover!(ok);
    let ok = frame_new(3);
    kani::cover!(ok);
}

fn new_unknown<const N: usize>() {
    let tag: u8 = kani::any();
    let data: [u8; N] = kani::any();
    match MetadataBlockData::new_unknown(tag, &data) {
        Ok(m) => {
            assert!(tag <= 126); // 127 is forbidden by RFC 9639 8.1 (looks like a frame sync)
            assert!(m.verify().is_ok());
            assert!(m.typetag() == tag);
            let s = serialises(&m);
            assert!(s.id.len == 8 * N);
            if N > 0 {
                assert!(field(&s, 0, 8) == data[0] as u64);
            }
            let blk = MetadataBlock::from_parts(true, m);
            let s = serialises(&blk);
            assert!(field(&s, 0, 8) == 0x80 | tag as u64);
            assert!(field(&s, 8, 24) == N as u64);
        }
        Err(_) => assert!(tag == 127 || tag > 127),
    }
    kani::cover!(tag == 126);
    kani::cover!(tag == 127);
}

//@ unit props=C18 tier=quick kind=bounded timeout=600 funcs="MetadataBlockData::new_unknown; MetadataBlockData::verify; MetadataBlockData::write; MetadataBlock::write" bound="bodies of 0 and 3 bytes, every tag and byte value" note="bodies of 2^24 bytes or more (length field overflow) are out of reach for a symbolic unit; see report"
#[kani::proof]
#[kani::unwind(8)]
#[kani::stub(std::fmt::format, stub_format)]
fn c18_metadata_new_unknown() {
    new_unknown::<0>();
    new_unknown::<3>();
}

fn any_stream_info() -> StreamInfo {
    // a value as `StreamInfo::new` + successful setters can produce it
    let minb: u16 = kani::any();
    let maxb: u16 = kani::any();
    let minf: u32 = kani::any();
    let maxf: u32 = kani::any();
    let bps: u8 = kani::any();
    kani::assume(bps == 8 || bps == 12 || bps == 16 || bps == 20 || bps == 24);
    let rate: u32 = kani::any();
    kani::assume(rate <= 96_000);
    let ch: u8 = kani::any();
    kani::assume(1 <= ch && ch <= 8);
    StreamInfo {
        min_block_size: minb,
        max_block_size: maxb,
        min_frame_size: minf,
        max_frame_size: maxf,
        sample_rate: rate,
        channels: ch,
        bits_per_sample: bps,
        total_samples: kani::any(),
        md5: kani::any(),
    }
}

/// The setters of `StreamInfo` over their full argument domains: each returns; Ok ==> the
/// arguments are stored unchanged; Err ==> the component is left as it was (an error must not
/// leave a half-updated, non-verifying component behind); a component on which both range
/// setters succeeded verifies and serialises to 272 bits.
//@ unit props=C18 tier=quick kind=complete timeout=600 funcs="StreamInfo::set_block_sizes; StreamInfo::set_frame_sizes; StreamInfo::set_total_samples; StreamInfo::set_md5_digest; StreamInfo::verify; StreamInfo::write"
#[kani::proof]
#[kani::unwind(20)]
#[kani::stub(std::fmt::format, stub_format)]
fn c18_stream_info_setters() {
    let mut info = any_stream_info();
    let before = info.clone();
    let a: usize = kani::any();
    let b: usize = kani::any();
    let r1 = info.set_block_sizes(a, b).is_ok();
    if r1 {
        assert!(a <= b && b <= 32767);
        assert!(info.min_block_size() == a && info.max_block_size() == b);
    } else {
        assert!(info == before);
    }
    let mid = info.clone();
    let c: usize = kani::any();
    let d: usize = kani::any();
    let r2 = info.set_frame_sizes(c, d).is_ok();
    if r2 {
        assert!(c <= d && d <= u32::MAX as usize);
        assert!(info.min_frame_size() == c && info.max_frame_size() == d);
    } else {
        assert!(info == mid);
    }
    let n: usize = kani::any();
    info.set_total_samples(n);
    assert!(info.total_samples() == n);
    let digest: [u8; 16] = kani::any();
    info.set_md5_digest(&digest);
    assert!(*info.md5_digest() == digest);
    if r1 && r2 {
        assert!(info.verify().is_ok());
        let s = serialises(&info);
        assert!(s.id.len == 272);
    }
    kani::cover!(r1 && r2);
    kani::cover!(!r1 && a > b);
    kani::cover!(!r2);
}

/// Replacement for `VerifyError::within` (appends a path component to an error value): the
/// harnesses only observe `is_ok()/is_err()`, and growing a `Vec<String>` that is merged over
/// ~30 error paths dominates `FixedLpc::verify` / `Lpc::verify` otherwise (260 s -> 31 s).
fn stub_within(e: VerifyError, _component: &str) -> VerifyError {
    e
}
#[kani::proof]
#[kani::unwind(8)]
#[kani::stub(std::fmt::format, stub_format)]
#[kani::stub(find_max, contract_find_max)]
#[kani::stub(wrapping_sum, contract_wrapping_sum)]
#[kani::stub(VerifyError::within, stub_within)]
fn x18_g2() {
    fixed_lpc_new::<1>(1);
}
#[kani::proof]
#[kani::unwind(8)]
#[kani::stub(std::fmt::format, stub_format)]
#[kani::stub(find_max, contract_find_max)]
#[kani::stub(wrapping_sum, contract_wrapping_sum)]
#[kani::stub(VerifyError::within, stub_within)]
fn x18_g3() {
    lpc_new::<1, 1>(1);
}
