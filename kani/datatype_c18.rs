// Harnesses for src/component/datatype.rs (child module `component::datatype::verif_c18`).
//
// C18 "Public component constructors are total and imply serialisability":
//   every public constructor either returns Err or returns a component that verifies, serialises
//   without panicking to exactly `count_bits()` bits (in the RFC 9639 layout, so that a decoder
//   reads the same component back); no argument combination makes a constructor or `verify()`
//   panic.
//
// Conventions of this file
// * slice LENGTHS are concrete per call of a body fn (README pitfall 1); every scalar argument and
//   every element value is symbolic over its full type unless the unit says otherwise.
// * "total" == the call returns: Kani reports every reachable panic / arithmetic overflow / failed
//   (debug_)assert / out-of-bounds index inside the callee as a failed check.
// * the 64/32-lane reductions called by `Residual::from_parts` are replaced by their scalar
//   contracts (README pitfall 5); the contracts are proved by c18_find_max_contract /
//   c18_wrapping_sum_contract below.
// * `StreamInfo::new` and `FrameHeader::new` are covered by datatype::verif::c17_*.

use crate::bitsink::verif::SpecSink;

// ================================================================================================
// Callee contracts for the fake-SIMD reductions used by `Residual::from_parts`
// ================================================================================================

/// contract of `arrayutils::find_max::<N>`: the maximum of the slice, 0 when empty.
fn contract_find_max<const N: usize>(data: &[u32]) -> u32
where
    simd::LaneCount<N>: simd::SupportedLaneCount,
{
    let mut m = 0u32;
    let mut i = 0;
    while i < data.len() {
        if data[i] > m {
            m = data[i];
        }
        i += 1;
    }
    m
}

/// contract of `arrayutils::wrapping_sum::<T, N>`: the wrapping sum of the slice.
fn contract_wrapping_sum<T, const N: usize>(data: &[T]) -> T
where
    T: simd::SimdElement + num_traits::WrappingAdd + num_traits::Zero,
    simd::LaneCount<N>: simd::SupportedLaneCount,
{
    let mut s = T::zero();
    let mut i = 0;
    while i < data.len() {
        s = s.wrapping_add(&data[i]);
        i += 1;
    }
    s
}

//@ unit props=C18 tier=quick kind=bounded timeout=600 funcs="arrayutils::find_max::<64>" bound="slices of 0..=4 elements (the sizes the C18 units use), every u32 value"
#[kani::proof]
#[kani::unwind(66)]
fn c18_find_max_contract() {
    let a: [u32; 4] = kani::any();
    let n: usize = kani::any();
    kani::assume(n <= 4);
    assert!(find_max::<64>(&a[0..n]) == contract_find_max::<64>(&a[0..n]));
    kani::cover!(n == 4 && a[3] > a[0]);
}

//@ unit props=C18 tier=quick kind=bounded timeout=600 funcs="arrayutils::wrapping_sum::<u32, 32>" bound="slices of 0..=4 elements (the sizes the C18 units use), every u32 value"
#[kani::proof]
#[kani::unwind(34)]
fn c18_wrapping_sum_contract() {
    let a: [u32; 4] = kani::any();
    let n: usize = kani::any();
    kani::assume(n <= 4);
    assert!(wrapping_sum::<u32, 32>(&a[0..n]) == contract_wrapping_sum::<u32, 32>(&a[0..n]));
    kani::cover!(n == 4 && a[0] == u32::MAX && a[1] == 2);
}

// ================================================================================================
// Shared helpers
// ================================================================================================

/// `count_bits()` does not panic, `write` succeeds without panicking and delivers exactly
/// `count_bits()` bits.  Returns the written bits for layout checks.
fn serialises<T: BitRepr>(c: &T) -> SpecSink {
    let n = c.count_bits();
    let mut s = SpecSink::new();
    assert!(c.write(&mut s).is_ok());
    assert!(s.id.len == n);
    s
}

/// Bits `[pos, pos + n)` of the written string as an integer (n <= 32, pos + n <= 64).
fn field(s: &SpecSink, pos: usize, n: usize) -> u64 {
    (s.id.w[0] << pos) >> (64 - n)
}

/// What an RFC 9639 decoder needs of a RESIDUAL (section 9.2.7) in the 4-bit-parameter coding this
/// crate writes, stated on the component's fields: partition order <= 15 with 2^order parameters,
/// the block is split evenly, the warm-up samples all lie in the first partition, parameters are
/// not the escape code (<= 14), every remainder fits its parameter, and the padding of the warm-up
/// samples is zero.  Returns the number of bits of the coded residual.
fn spec_residual_wellformed(res: &Residual) -> u64 {
    let order = res.partition_order as usize;
    assert!(order <= 15);
    let nparts = 1usize << order;
    assert!(res.rice_params.len() == nparts);
    assert!(res.quotients.len() == res.block_size);
    assert!(res.remainders.len() == res.block_size);
    assert!(res.block_size <= 32767);
    assert!(res.block_size % nparts == 0);
    let part_len = res.block_size / nparts;
    assert!(res.warmup_length <= part_len);
    let mut bits: u64 = 6 + 4 * nparts as u64;
    let mut i = 0;
    while i < res.rice_params.len() {
        assert!(res.rice_params[i] <= 14);
        i += 1;
    }
    let mut t = 0;
    while t < res.block_size {
        if t < res.warmup_length {
            assert!(res.quotients[t] == 0 && res.remainders[t] == 0);
        } else {
            let p = res.rice_params[t / part_len];
            assert!((res.remainders[t] as u64) < (1u64 << p));
            bits += res.quotients[t] as u64 + 1 + p as u64;
        }
        t += 1;
    }
    bits
}

// ================================================================================================
// Residual
// ================================================================================================

/// TOTALITY of `Residual::new`: all three slice lengths concrete, everything else (partition
/// order, block size, warm-up length, every element) symbolic over the full type.
fn residual_new_total<const NP: usize, const NQ: usize, const NR: usize>(consistent: bool) {
    let p: [u8; NP] = kani::any();
    let q: [u32; NQ] = kani::any();
    let r: [u32; NR] = kani::any();
    let order: usize = kani::any();
    let bs: usize = kani::any();
    let w: usize = kani::any();
    let res = Residual::new(order, bs, w, &p, &q, &r);
    match res {
        Ok(c) => {
            // no silent re-interpretation of the arguments (e.g. `order as u8`)
            assert!(c.partition_order() == order && c.block_size() == bs);
            assert!(c.warmup_length() == w);
            assert!(NQ == bs && NR == bs && NP == (1usize << order));
        }
        Err(_) => {}
    }
    if consistent {
        kani::cover!(Residual::new(order, bs, w, &p, &q, &r).is_ok());
    }
}

macro_rules! residual_new_total_harness {
    ($name:ident, $np:expr, $nq:expr, $nr:expr, $consistent:expr) => {
        #[kani::proof]
        #[kani::unwind(8)]
        #[kani::stub(std::fmt::format, stub_format)]
        #[kani::stub(find_max, contract_find_max)]
        #[kani::stub(wrapping_sum, contract_wrapping_sum)]
        fn $name() {
            residual_new_total::<$np, $nq, $nr>($consistent);
        }
    };
}

//@ unit name=c18_residual_new_total_p1_q2_r2 props=C18 tier=quick kind=bounded timeout=600 funcs="Residual::new; Residual::from_parts; Residual::verify" stubs="find_max -> scalar maximum (c18_find_max_contract); wrapping_sum -> scalar wrapping sum (c18_wrapping_sum_contract)" bound="1 rice parameter, 2 quotients, 2 remainders; order, block size, warm-up length and all values symbolic"
//@ unit name=c18_residual_new_total_p2_q4_r4 props=C18 tier=quick kind=bounded timeout=600 funcs="Residual::new; Residual::from_parts; Residual::verify" stubs="find_max -> scalar maximum (c18_find_max_contract); wrapping_sum -> scalar wrapping sum (c18_wrapping_sum_contract)" bound="2 rice parameters, 4 quotients, 4 remainders; order, block size, warm-up length and all values symbolic"
//@ unit name=c18_residual_new_total_p2_q2_r2 props=C18 tier=quick kind=bounded timeout=600 funcs="Residual::new; Residual::from_parts; Residual::verify" stubs="find_max -> scalar maximum (c18_find_max_contract); wrapping_sum -> scalar wrapping sum (c18_wrapping_sum_contract)" bound="2 rice parameters, 2 quotients, 2 remainders; order, block size, warm-up length and all values symbolic"
//@ unit name=c18_residual_new_total_p0_q2_r2 props=C18 tier=quick kind=bounded timeout=600 funcs="Residual::new; Residual::from_parts; Residual::verify" stubs="find_max -> scalar maximum (c18_find_max_contract); wrapping_sum -> scalar wrapping sum (c18_wrapping_sum_contract)" bound="NO rice parameter, 2 quotients, 2 remainders; order, block size, warm-up length and all values symbolic"
//@ unit name=c18_residual_new_total_p1_q2_r1 props=C18 tier=quick kind=bounded timeout=600 funcs="Residual::new; Residual::from_parts; Residual::verify" stubs="find_max -> scalar maximum (c18_find_max_contract); wrapping_sum -> scalar wrapping sum (c18_wrapping_sum_contract)" bound="1 rice parameter, 2 quotients, 1 remainder (lengths disagree); order, block size, warm-up length and all values symbolic"
//@ unit name=c18_residual_new_total_p1_q0_r0 props=C18 tier=quick kind=bounded timeout=600 funcs="Residual::new; Residual::from_parts; Residual::verify" stubs="find_max -> scalar maximum (c18_find_max_contract); wrapping_sum -> scalar wrapping sum (c18_wrapping_sum_contract)" bound="1 rice parameter, empty block; order, block size, warm-up length and all values symbolic"
residual_new_total_harness!(c18_residual_new_total_p1_q2_r2, 1, 2, 2, true);
residual_new_total_harness!(c18_residual_new_total_p2_q4_r4, 2, 4, 4, true);
residual_new_total_harness!(c18_residual_new_total_p2_q2_r2, 2, 2, 2, true);
residual_new_total_harness!(c18_residual_new_total_p0_q2_r2, 0, 2, 2, false);
residual_new_total_harness!(c18_residual_new_total_p1_q2_r1, 1, 2, 1, false);
residual_new_total_harness!(c18_residual_new_total_p1_q0_r0, 1, 0, 0, true);

/// `Residual::verify()` is the gate for values that did not come through `new` (crate-private
/// `from_parts`, serde `Deserialize` of arbitrary field values): on ARBITRARY fields it returns,
/// and `Ok` implies the residual is well-formed per the RFC and serialises to `count_bits()` bits
/// (== the independently computed size) with the order / first parameter at their positions.
fn residual_verify_gate<const NP: usize, const NQ: usize, const NR: usize>(consistent: bool) {
    let res = Residual {
        partition_order: kani::any(),
        block_size: kani::any(),
        warmup_length: kani::any(),
        rice_params: Vec::from(kani::any::<[u8; NP]>()),
        quotients: Vec::from(kani::any::<[u32; NQ]>()),
        remainders: Vec::from(kani::any::<[u32; NR]>()),
        sum_quotients: kani::any(),
        sum_rice_params: kani::any(),
    };
    let ok = res.verify().is_ok();
    if ok {
        let bits = spec_residual_wellformed(&res);
        let s = serialises(&res);
        assert!(s.id.len as u64 == bits);
        assert!(field(&s, 0, 6) == res.partition_order as u64);
        assert!(field(&s, 6, 4) == res.rice_params[0] as u64);
    }
    if consistent {
        kani::cover!(ok);
        kani::cover!(ok && res.warmup_length == 1);
    }
    kani::cover!(!ok);
}

macro_rules! residual_verify_gate_harness {
    ($name:ident, $np:expr, $nq:expr, $nr:expr, $consistent:expr) => {
        #[kani::proof]
        #[kani::unwind(8)]
        #[kani::stub(std::fmt::format, stub_format)]
        fn $name() {
            residual_verify_gate::<$np, $nq, $nr>($consistent);
        }
    };
}

//@ unit name=c18_residual_verify_gate_p1_q2_r2 props=C18 tier=quick kind=bounded timeout=600 funcs="Residual::verify; Residual::write; Residual::count_bits" bound="1 rice parameter, 2 quotients, 2 remainders; every field value symbolic"
//@ unit name=c18_residual_verify_gate_p1_q3_r3 props=C18 tier=quick kind=bounded timeout=600 funcs="Residual::verify; Residual::write; Residual::count_bits" bound="1 rice parameter, 3 quotients, 3 remainders; every field value symbolic"
//@ unit name=c18_residual_verify_gate_p2_q4_r4 props=C18 tier=quick kind=bounded timeout=600 funcs="Residual::verify; Residual::write; Residual::count_bits" bound="2 rice parameters, 4 quotients, 4 remainders; every field value symbolic"
//@ unit name=c18_residual_verify_gate_p2_q2_r2 props=C18 tier=quick kind=bounded timeout=600 funcs="Residual::verify; Residual::write; Residual::count_bits" bound="2 rice parameters, 2 quotients, 2 remainders; every field value symbolic"
//@ unit name=c18_residual_verify_gate_p0_q2_r2 props=C18 tier=quick kind=bounded timeout=600 funcs="Residual::verify" bound="no rice parameter, 2 quotients, 2 remainders; every field value symbolic"
//@ unit name=c18_residual_verify_gate_p1_q2_r1 props=C18 tier=quick kind=bounded timeout=600 funcs="Residual::verify" bound="1 rice parameter, 2 quotients, 1 remainder; every field value symbolic"
//@ unit name=c18_residual_verify_gate_p1_q0_r0 props=C18 tier=quick kind=bounded timeout=600 funcs="Residual::verify; Residual::write; Residual::count_bits" bound="1 rice parameter, empty block; every field value symbolic"
residual_verify_gate_harness!(c18_residual_verify_gate_p1_q2_r2, 1, 2, 2, true);
residual_verify_gate_harness!(c18_residual_verify_gate_p1_q3_r3, 1, 3, 3, true);
residual_verify_gate_harness!(c18_residual_verify_gate_p2_q4_r4, 2, 4, 4, true);
residual_verify_gate_harness!(c18_residual_verify_gate_p2_q2_r2, 2, 2, 2, true);
residual_verify_gate_harness!(c18_residual_verify_gate_p0_q2_r2, 0, 2, 2, false);
residual_verify_gate_harness!(c18_residual_verify_gate_p1_q2_r1, 1, 2, 1, false);
residual_verify_gate_harness!(c18_residual_verify_gate_p1_q0_r0, 1, 0, 0, false);

/// `Residual::new(..) == Ok(c)`  ==>  `c.verify()` is Ok, `c` is well-formed, and it serialises to
/// exactly `count_bits()` bits.  Partition order and block size concrete (consistent with the
/// slice lengths), warm-up length and all values symbolic.
fn residual_new_ok_serialises<const NP: usize, const N: usize>(order: usize) {
    let p: [u8; NP] = kani::any();
    let q: [u32; N] = kani::any();
    let r: [u32; N] = kani::any();
    let w: usize = kani::any();
    match Residual::new(order, N, w, &p, &q, &r) {
        Ok(c) => {
            assert!(c.verify().is_ok());
            let bits = spec_residual_wellformed(&c);
            let s = serialises(&c);
            assert!(s.id.len as u64 == bits);
            assert!(field(&s, 0, 6) == order as u64);
            assert!(field(&s, 6, 4) == p[0] as u64);
            // accessors report the arguments
            assert!(c.rice_parameter(0) == p[0] as usize);
            kani::cover!(w == 1);
            kani::cover!(w == 0 && q[0] == 3);
        }
        Err(_) => {}
    }
}

macro_rules! residual_new_ok_harness {
    ($name:ident, $np:expr, $n:expr, $order:expr) => {
        #[kani::proof]
        #[kani::unwind(8)]
        #[kani::stub(std::fmt::format, stub_format)]
        #[kani::stub(find_max, contract_find_max)]
        #[kani::stub(wrapping_sum, contract_wrapping_sum)]
        fn $name() {
            residual_new_ok_serialises::<$np, $n>($order);
        }
    };
}

//@ unit name=c18_residual_new_ok_o0_n2 props=C18 tier=quick kind=bounded timeout=600 funcs="Residual::new; Residual::verify; Residual::write; Residual::count_bits" stubs="find_max -> scalar maximum (c18_find_max_contract); wrapping_sum -> scalar wrapping sum (c18_wrapping_sum_contract)" bound="partition order 0, block size 2; warm-up length and all values symbolic"
//@ unit name=c18_residual_new_ok_o0_n3 props=C18 tier=thorough kind=bounded timeout=900 funcs="Residual::new; Residual::verify; Residual::write; Residual::count_bits" stubs="find_max -> scalar maximum (c18_find_max_contract); wrapping_sum -> scalar wrapping sum (c18_wrapping_sum_contract)" bound="partition order 0, block size 3; warm-up length and all values symbolic"
//@ unit name=c18_residual_new_ok_o1_n4 props=C18 tier=quick kind=bounded timeout=600 funcs="Residual::new; Residual::verify; Residual::write; Residual::count_bits" stubs="find_max -> scalar maximum (c18_find_max_contract); wrapping_sum -> scalar wrapping sum (c18_wrapping_sum_contract)" bound="partition order 1, block size 4; warm-up length and all values symbolic"
residual_new_ok_harness!(c18_residual_new_ok_o0_n2, 1, 2, 0);
residual_new_ok_harness!(c18_residual_new_ok_o0_n3, 1, 3, 0);
residual_new_ok_harness!(c18_residual_new_ok_o1_n4, 2, 4, 1);
