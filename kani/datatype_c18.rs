// Harnesses for src/component/datatype.rs (child module `component::datatype::verif_c18`).
use crate::bitsink::verif::SpecSink;

#[kani::proof]
#[kani::unwind(66)]
#[kani::stub(std::fmt::format, stub_format)]
fn c18_probe_residual_new() {
    let q: [u32; 2] = kani::any();
    let r: [u32; 2] = kani::any();
    let p: [u8; 1] = kani::any();
    let w: usize = kani::any();
    let res = Residual::new(0, 2, w, &p, &q, &r);
    kani::cover!(res.is_ok());
}
