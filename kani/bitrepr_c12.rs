// Harnesses for src/component/bitrepr.rs, third module (`component::bitrepr::verif_c12`):
// C12 for the writers BELOW the frame level, against a user sink that fails at its k-th primitive
// operation (k symbolic): the call returns Err (no panic, the error is not swallowed), and the
// bits the sink accepted are a prefix of the bits a fault-free run delivers.
// (Frame / Stream / CONSTANT / VERBATIM / FIXED / LPC writers: Verus units frame_write,
// stream_write, subframe_write, for any size and any failure point.)

use crate::bitsink::verif::SpecSink;
use crate::component::datatype::verif::residual_from_raw;
use crate::component::datatype::BlockSizeSpec;
use crate::component::datatype::FrameOffset;
use crate::component::datatype::SampleRateSpec;
use crate::component::datatype::SampleSizeSpec;

fn is_bit_prefix(a: &Ideal, b: &Ideal) -> bool {
    // a is a prefix of b (both zero beyond their length)
    if a.len > b.len {
        return false;
    }
    let mut i = 0;
    let mut ok = true;
    while i < IDEAL_WORDS {
        let lo = i * 64;
        if a.len >= lo + 64 {
            ok = ok && a.w[i] == b.w[i];
        } else if a.len > lo {
            let n = a.len - lo;
            let mask = !(u64::MAX >> n);
            ok = ok && (a.w[i] == (b.w[i] & mask));
        }
        i += 1;
    }
    ok
}

/// runs `w` once without faults and once with a fault at operation k; checks the C12 clauses
macro_rules! c12_check {
    ($component:expr) => {{
        let mut good = SpecSink::new();
        assert!($component.write(&mut good).is_ok());
        let ops = good.ops;
        let k: usize = kani::any();
        kani::assume(1 <= k && k <= ops);
        let mut bad = SpecSink::failing_at(k);
        let r = $component.write(&mut bad);
        assert!(r.is_err());
        assert!(is_bit_prefix(&bad.id, &good.id));
        kani::cover!(k == 1);
        kani::cover!(k == ops);
    }};
}

//@ unit props=C12 tier=quick kind=bounded timeout=600 funcs="<StreamInfo as BitRepr>::write; <MetadataBlock as BitRepr>::write; <MetadataBlockData as BitRepr>::write" bound="STREAMINFO block and an unknown block with a 2-byte body; every failure point"
#[kani::proof]
#[kani::unwind(24)]
#[kani::stub(std::fmt::format, stub_format)]
fn c12_metadata_writers_failing_sink() {
    let mut info = StreamInfo::new(44100, 2, 16).unwrap();
    let md5: [u8; 16] = kani::any();
    info.set_md5_digest(&md5);
    let total: usize = kani::any();
    kani::assume(total < (1usize << 36));
    info.set_total_samples(total);
    c12_check!(info);
    let blk = MetadataBlock::from_parts(true, MetadataBlockData::StreamInfo(info));
    c12_check!(blk);
    let body: [u8; 2] = kani::any();
    let unk = MetadataBlock::from_parts(false, MetadataBlockData::new_unknown(5, &body).unwrap());
    c12_check!(unk);
}

//@ unit props=C12 tier=quick kind=bounded timeout=900 funcs="<FrameHeader as BitRepr>::write" stubs="encode_to_utf8like / utf8like_bytesize -> 1-byte class contracts (c02_utf8_len1)" bound="one header shape (1-byte frame number, 16-bit block-size extra); every failure point"
#[kani::proof]
#[kani::unwind(20)]
#[kani::stub(std::fmt::format, stub_format)]
#[kani::stub(encode_to_utf8like, crate::component::bitrepr::verif::contract_utf8_l1_pub)]
#[kani::stub(utf8like_bytesize, crate::component::bitrepr::verif::contract_bytesize_l1_pub)]
fn c12_frame_header_failing_sink() {
    let x: u16 = kani::any();
    kani::assume(x < 65535);
    let num: u32 = kani::any();
    kani::assume(num < 128);
    let mut h = FrameHeader::from_specs(
        BlockSizeSpec::ExtraTwoBytes(x),
        ChannelAssignment::Independent(2),
        SampleSizeSpec::B16,
        SampleRateSpec::R44_1kHz,
    );
    h.set_frame_offset(FrameOffset::Frame(num));
    c12_check!(h);
}

//@ unit props=C12 tier=quick kind=bounded timeout=900 funcs="<Residual as BitRepr>::write" bound="block 4, partition order 1, warm-up 1, quotients <= 3; every failure point"
#[kani::proof]
#[kani::unwind(12)]
fn c12_residual_failing_sink() {
    let p: [u8; 2] = kani::any();
    kani::assume(p[0] <= 14 && p[1] <= 14);
    let q: [u32; 3] = kani::any();
    let r: [u32; 3] = kani::any();
    kani::assume(q[0] <= 3 && q[1] <= 3 && q[2] <= 3);
    kani::assume(r[0] < (1u32 << p[0]) && r[1] < (1u32 << p[1]) && r[2] < (1u32 << p[1]));
    let res = residual_from_raw(1, 4, 1, vec![p[0], p[1]], vec![0, q[0], q[1], q[2]], vec![0, r[0], r[1], r[2]]);
    c12_check!(res);
}
