// Harnesses for src/coding.rs (child module `coding::verif`).
//@ uses: rice.rs   (stub_verified(rice::encode_signbit) needs its proof_for_contract harness in the build)

use crate::error::VerifyError;
use crate::source::verif::framebuf_from_parts;

pub(crate) fn verified_default_config() -> Verified<config::Encoder> {
    // SAFETY of the contract: the default configuration is accepted by `verify` (unit
    // config::verif::c07_default_is_valid); `assume_verified` only wraps the value.
    unsafe { crate::error::Verify::assume_verified(config::Encoder::default()) }
}

/// Callee contract standing in for `encode_frame` where the caller's obligation does not depend on
/// what is encoded: returns SOME frame for the right block size (variable-blocking header with
/// start sample `offset`, exactly as `encode_frame_impl` builds it), with no subframes.
fn contract_encode_frame(
    _config: &config::Encoder,
    framebuf: &FrameBuf,
    offset: u64,
    stream_info: &StreamInfo,
) -> Frame {
    let mut frame = Frame::new_empty(
        BlockSizeSpec::from_size(framebuf.filled_size() as u16),
        ChannelAssignment::Independent(stream_info.channels() as u8),
        SampleSizeSpec::from_bits(stream_info.bits_per_sample() as u8)
            .unwrap_or(SampleSizeSpec::Unspecified),
        SampleRateSpec::from_freq(stream_info.sample_rate() as u32)
            .unwrap_or(SampleRateSpec::Unspecified),
    );
    frame
        .header_mut()
        .set_frame_offset(FrameOffset::StartSample(offset));
    frame
}

// ================================================================================================
// C17 / C01.11 / C02: encode_fixed_size_frame = range checks first, then encode_frame + frame number
// ================================================================================================

static mut CONTRACT_VERIFY_SAMPLES_OK: bool = false;

/// Callee contract for `FrameBuf::verify_samples`: Ok or Err, recorded for the caller's
/// post-condition.  (That the real function returns Ok exactly when every filled sample is inside
/// the declared width is unit source::verif::c17_verify_samples.)
fn contract_verify_samples(_fb: &FrameBuf, _bits_per_sample: usize) -> Result<(), VerifyError> {
    let ok: bool = kani::any();
    unsafe {
        CONTRACT_VERIFY_SAMPLES_OK = ok;
    }
    if ok {
        Ok(())
    } else {
        Err(VerifyError::new("input.framebuf", "out of range"))
    }
}

/// frame_number >= 2^31  ==>  Err;  the sample-range test fails  ==>  Err;  otherwise the result
/// is Ok, carries exactly that frame number, the fixed-blocksize strategy bit and the block size.
//@ unit props=C17,C02,C01 tier=quick kind=complete timeout=600 funcs="encode_fixed_size_frame" stubs="encode_frame -> contract_encode_frame (some frame of the filled block size); FrameBuf::verify_samples -> contract_verify_samples (proved by source::verif::c17_verify_samples)"
#[kani::proof]
#[kani::unwind(6)]
#[kani::stub(std::fmt::format, stub_format)]
#[kani::stub(encode_frame, contract_encode_frame)]
#[kani::stub(FrameBuf::verify_samples, contract_verify_samples)]
fn c17_frame_number_and_sample_range() {
    let cfg = verified_default_config();
    let v: i32 = kani::any();
    let fb = framebuf_from_parts(vec![v, 0], 2, 1);
    let info = StreamInfo::new(44100, 1, 16).unwrap();
    let n: usize = kani::any();
    let r = encode_fixed_size_frame(&cfg, &fb, n, &info);
    let sample_ok = unsafe { CONTRACT_VERIFY_SAMPLES_OK };
    if n >= (1usize << 31) {
        assert!(r.is_err());
    } else if !sample_ok {
        assert!(r.is_err());
    } else {
        match r {
            Ok(f) => {
                assert!(!f.header().is_variable_blocking());
                assert!(f.header().frame_number() as usize == n);
                assert!(f.header().block_size() == 1);
            }
            Err(_) => assert!(false),
        }
    }
    kani::cover!(n == (1usize << 31));
    kani::cover!(n == (1usize << 31) - 1 && sample_ok);
    kani::cover!(n == 0 && !sample_ok);
}

// ================================================================================================
// C01.2: Rice split of one residual, complete over i32 x 0..=14
// ================================================================================================

/// (q << p) + r == zigzag(e)  and  r < 2^p  -- so that `q` zeros, a one and `p` remainder bits are
/// the RFC 9639 Rice code of `e`.  Uses the verified contract of `encode_signbit`.
//@ unit props=C01,C13 tier=quick kind=complete timeout=300 funcs="coding::quotients_and_remainders" stubs="rice::encode_signbit -> its verified Kani contract (stub_verified)"
#[kani::proof]
#[kani::unwind(2)]
#[kani::stub_verified(rice::encode_signbit)]
fn c01_quotients_and_remainders() {
    let e: i32 = kani::any();
    let p: u8 = kani::any();
    kani::assume(p <= 14);
    kani::assume(e != i32::MIN);
    let (q, r) = quotients_and_remainders(e, p);
    assert!((r as u64) < (1u64 << p));
    assert!(((q as u64) << p) + r as u64 == spec_zigzag(e));
    kani::cover!(e < 0 && p == 14);
    kani::cover!(p == 0);
}

// ================================================================================================
// C01.4: fixed-predictor residuals by repeated differencing
// ================================================================================================

/// For k = 0..=4 and t >= k: errors[k][t] is the exact k-th difference (no wrap for samples of up
/// to 25 bits, the side-channel width) and an RFC 9639 fixed predictor of order k reproduces the
/// sample: predict_k(s[t-1], .., s[t-k]) + errors[k][t] == s[t].
fn c01_fixed_errors_body<const N: usize>() {
    let s: [i32; N] = kani::any();
    let mut i = 0;
    while i < N {
        kani::assume(spec_fits(s[i] as i64, 25));
        i += 1;
    }
    let mut errors = FixedLpcErrors::default();
    reset_fixed_lpc_errors(&mut errors, &s);
    let mut k = 0;
    while k <= MAX_FIXED_LPC_ORDER {
        let e = errors[k].as_ref();
        assert!(e.len() == N);
        let mut t = k;
        while t < N {
            let mut prev = [0i64; 4];
            let mut j = 0;
            while j < k {
                prev[j] = s[t - 1 - j] as i64;
                j += 1;
            }
            assert!(spec_fixed_predict(k, &prev) + e[t] as i64 == s[t] as i64);
            t += 1;
        }
        k += 1;
    }
}

//@ unit props=C01 tier=quick kind=bounded timeout=900 funcs="coding::reset_fixed_lpc_errors; SimdVec::reset_from_slice; SimdVec::resize" bound="3 samples (one 16-lane vector), every 25-bit value"
#[kani::proof]
#[kani::unwind(18)]
fn c01_fixed_errors_n3() {
    c01_fixed_errors_body::<3>();
}

//@ unit props=C01 tier=thorough kind=bounded timeout=3600 funcs="coding::reset_fixed_lpc_errors" bound="6 samples (orders 0..=4 all have at least two predicted samples), every 25-bit value"
#[kani::proof]
#[kani::unwind(18)]
fn c01_fixed_errors_n6() {
    c01_fixed_errors_body::<6>();
}

// ================================================================================================
// C10: scratch buffers -- the result does not depend on what a previous call left behind
// ================================================================================================

/// `reset_fixed_lpc_errors` on a DIRTY scratch (each of the five vectors holds 0, 1 or 2 stale
/// SIMD vectors of arbitrary content and an arbitrary stale length) yields exactly what the
/// specification says (same post-condition as c01_fixed_errors_n3), i.e. nothing of the previous
/// block survives.
//@ unit props=C10,C01 tier=quick kind=bounded timeout=900 funcs="coding::reset_fixed_lpc_errors (FIXED_LPC_ERRORS scratch)" bound="3 new samples after a previous block of 16 or 32 samples of arbitrary content (the clean start is c01_fixed_errors_n3)"
#[kani::proof]
#[kani::unwind(18)]
fn c10_fixed_errors_dirty() {
    c10_fixed_errors_dirty_body(1);
    c10_fixed_errors_dirty_body(2);
}
fn c10_fixed_errors_dirty_body(stale_vecs: usize) {
    let s: [i32; 3] = kani::any();
    let mut i = 0;
    while i < 3 {
        kani::assume(spec_fits(s[i] as i64, 25));
        i += 1;
    }
    let mut errors = FixedLpcErrors::default();
    // previous contents: every vector of every order arbitrary
    let mut k = 0;
    while k <= MAX_FIXED_LPC_ORDER {
        let a: [i32; 16] = kani::any();
        let b: [i32; 16] = kani::any();
        if stale_vecs == 1 {
            errors[k].resize(16, simd::Simd::from_array(a));
        } else if stale_vecs == 2 {
            errors[k].resize(16, simd::Simd::from_array(a));
            errors[k].resize(32, simd::Simd::from_array(b));
        }
        k += 1;
    }
    reset_fixed_lpc_errors(&mut errors, &s);
    let mut k = 0;
    while k <= MAX_FIXED_LPC_ORDER {
        let e = errors[k].as_ref();
        assert!(e.len() == 3);
        let mut t = k;
        while t < 3 {
            let mut prev = [0i64; 4];
            let mut j = 0;
            while j < k {
                prev[j] = s[t - 1 - j] as i64;
                j += 1;
            }
            assert!(spec_fixed_predict(k, &prev) + e[t] as i64 == s[t] as i64);
            t += 1;
        }
        k += 1;
    }
}
