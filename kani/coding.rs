// Harnesses for src/coding.rs (child module `coding::verif`).

use crate::source::verif::framebuf_from_parts;

pub(crate) fn verified_default_config() -> Verified<config::Encoder> {
    // SAFETY of the contract: the default configuration is accepted by `verify` (unit
    // config::verif::c07_default_is_valid); `assume_verified` only wraps the value.
    unsafe { crate::error::Verify::assume_verified(config::Encoder::default()) }
}

/// Callee contract standing in for `encode_frame` where the caller's obligation does not depend on
/// what is encoded: returns SOME frame for the right block size (variable-blocking header with
/// start sample `offset`, exactly as `encode_frame_impl` builds it), with no subframes.
fn contract_encode_frame(
    _config: &config::Encoder,
    framebuf: &FrameBuf,
    offset: u64,
    stream_info: &StreamInfo,
) -> Frame {
    let mut frame = Frame::new_empty(
        BlockSizeSpec::from_size(framebuf.filled_size() as u16),
        ChannelAssignment::Independent(stream_info.channels() as u8),
        SampleSizeSpec::from_bits(stream_info.bits_per_sample() as u8)
            .unwrap_or(SampleSizeSpec::Unspecified),
        SampleRateSpec::from_freq(stream_info.sample_rate() as u32)
            .unwrap_or(SampleRateSpec::Unspecified),
    );
    frame
        .header_mut()
        .set_frame_offset(FrameOffset::StartSample(offset));
    frame
}

// ================================================================================================
// C17 / C01.11 / C02: encode_fixed_size_frame = range checks first, then encode_frame + frame number
// ================================================================================================

/// frame_number >= 2^31  ==>  Err, before any encoding work;  otherwise (samples in range) the
/// result is Ok, carries exactly that frame number and the fixed-blocksize strategy bit.
//@ unit props=C17,C02,C01 tier=quick kind=complete timeout=600 funcs="encode_fixed_size_frame" stubs="encode_frame -> contract_encode_frame (some frame of the filled block size)"
#[kani::proof]
#[kani::unwind(6)]
#[kani::stub(std::fmt::format, stub_format)]
#[kani::stub(encode_frame, contract_encode_frame)]
fn c17_frame_number_range() {
    let cfg = verified_default_config();
    let fb = FrameBuf::with_size(1, 32).unwrap();
    let info = StreamInfo::new(44100, 1, 16).unwrap();
    let n: usize = kani::any();
    let r = encode_fixed_size_frame(&cfg, &fb, n, &info);
    if n >= (1usize << 31) {
        assert!(r.is_err());
    } else {
        match r {
            Ok(f) => {
                assert!(!f.header().is_variable_blocking());
                assert!(f.header().frame_number() as usize == n);
            }
            Err(_) => assert!(false),
        }
    }
    kani::cover!(n == (1usize << 31));
    kani::cover!(n == (1usize << 31) - 1);
}

/// A sample outside the declared width ==> Err (never encoded); all samples inside ==> Ok.
//@ unit props=C17 tier=quick kind=complete timeout=900 funcs="encode_fixed_size_frame; FrameBuf::verify_samples; find_min_and_max" stubs="encode_frame -> contract_encode_frame" bound="2 channels x 3 samples, every i32 value, every supported width"
#[kani::proof]
#[kani::unwind(6)]
#[kani::stub(std::fmt::format, stub_format)]
#[kani::stub(encode_frame, contract_encode_frame)]
fn c17_sample_range() {
    let cfg = verified_default_config();
    let vals: [i32; 6] = kani::any();
    // capacity 4 per channel, 3 filled: the unfilled tail holds an out-of-range value that must
    // NOT be looked at.
    let samples = vec![vals[0], vals[1], vals[2], i32::MAX, vals[3], vals[4], vals[5], i32::MIN];
    let fb = framebuf_from_parts(samples, 4, 3);
    let bits: usize = kani::any();
    kani::assume(bits == 8 || bits == 12 || bits == 16 || bits == 20 || bits == 24);
    let info = StreamInfo::new(44100, 2, bits).unwrap();
    let lo = -(1i64 << (bits - 1));
    let hi = (1i64 << (bits - 1)) - 1;
    let mut all_in = true;
    let mut i = 0;
    while i < 6 {
        let v = vals[i] as i64;
        if v < lo || v > hi {
            all_in = false;
        }
        i += 1;
    }
    let r = encode_fixed_size_frame(&cfg, &fb, 0, &info);
    assert!(r.is_ok() == all_in);
    kani::cover!(all_in);
    kani::cover!(!all_in);
}
