// Harnesses for src/component/bitrepr.rs, module `component::bitrepr::verif_hdr`: frame-header
// layout units.  They live in their own file because they STUB `encode_to_utf8like` /
// `utf8like_bytesize` by their per-class contracts: a change of those functions' signatures makes
// the stubs unresolvable for Kani, and the leaf units in bitrepr.rs (which call the real functions)
// must still be built and run in that case.
//@ uses: bitrepr.rs

use crate::bitsink::verif::SpecSink;
use crate::component::bitrepr::verif::contract_bytesize_l1;
use crate::component::bitrepr::verif::contract_bytesize_l2;
use crate::component::bitrepr::verif::contract_bytesize_l3;
use crate::component::bitrepr::verif::contract_bytesize_l6;
use crate::component::bitrepr::verif::contract_utf8_l1;
use crate::component::bitrepr::verif::contract_utf8_l2;
use crate::component::bitrepr::verif::contract_utf8_l3;
use crate::component::bitrepr::verif::contract_utf8_l6;
use crate::component::bitrepr::verif::UTF8_CLASS_HI;
use crate::component::bitrepr::verif::UTF8_CLASS_LO;
use crate::component::datatype::BlockSizeSpec;
use crate::component::datatype::FrameOffset;
use crate::component::datatype::SampleRateSpec;
use crate::component::datatype::SampleSizeSpec;

// ================================================================================================
// Frame header: RFC 9639 section 9.1 layout, reserved bits, CRC-8, count_bits
// ================================================================================================

fn ideal_eq(a: &Ideal, b: &Ideal) {
    assert!(a.len == b.len);
    let mut i = 0;
    while i < IDEAL_WORDS {
        assert!(a.w[i] == b.w[i]);
        i += 1;
    }
}

/// Fixed-blocksize header with an L-byte frame number and block-size / sample-rate specs whose
/// enum VARIANT is concrete per harness (payloads symbolic): every field at its RFC position,
/// reserved bits zero, last byte == CRC-8 of the preceding bytes, total == count_bits().
/// (That `from_size` / `from_freq` pick the variant whose code denotes the value is
/// datatype::verif::c02_block_size_code_all / c02_sample_rate_code_all.)
fn c02_header_body<const L: usize, const BE: usize, const RE: usize>(
    bss: BlockSizeSpec,
    srs: SampleRateSpec,
    ch_variant: u8,
) {
    let num: u32 = kani::any();
    kani::assume(num < (1u32 << 31));
    kani::assume(UTF8_CLASS_LO[L] <= num as u64 && (num as u64) < UTF8_CLASS_HI[L]);
    // the channel-assignment VARIANT is concrete per call (a symbolic variant merges differently
    // typed sink calls and makes the buffer length symbolic); the channel count is symbolic.
    let (ca, ch_tag): (ChannelAssignment, u8) = match ch_variant {
        // (symbolic channel counts: unit c02_channel_assignment_write)
        0 => (ChannelAssignment::Independent(2), 1),
        4 => (ChannelAssignment::Independent(8), 7),
        1 => (ChannelAssignment::LeftSide, 8),
        2 => (ChannelAssignment::RightSide, 9),
        _ => (ChannelAssignment::MidSide, 10),
    };
    let bits: u8 = kani::any();
    kani::assume(bits == 8 || bits == 12 || bits == 16 || bits == 20 || bits == 24);
    let sss = SampleSizeSpec::from_bits(bits).unwrap();
    let bs = bss.block_size().unwrap() as u32;
    let mut h = FrameHeader::from_specs(bss, ca, sss, srs);
    h.set_frame_offset(FrameOffset::Frame(num));

    let mut s = SpecSink::new();
    assert!(h.write(&mut s).is_ok());

    // expected bits, straight from RFC 9639 section 9.1
    let mut e = Ideal::new();
    e.push_lsbs(0b11111111111110, 14); // sync code
    e.push_lsbs(0, 1); // reserved
    e.push_lsbs(0, 1); // blocking strategy: fixed block size
    e.push_lsbs(bss.tag() as u64, 4);
    e.push_lsbs(srs.tag() as u64, 4);
    e.push_lsbs(ch_tag as u64, 4);
    e.push_lsbs(sss.into_tag() as u64, 3);
    e.push_lsbs(0, 1); // reserved
    // coded number: the closed-form RFC code (checked to decode to `num` in shortest form)
    let code = spec_utf8_encode(num as u64, L);
    let mut i = 0;
    while i < L {
        e.push_lsbs(code[i] as u64, 8);
        i += 1;
    }
    assert!(spec_utf8_decode(&code[0..L]) == Some((num as u64, L)));
    // shape: the extra-field widths are concrete per harness
    assert!(spec_blocksize_extra_bits(bss.tag()) == BE);
    assert!(spec_samplerate_extra_bits(srs.tag()) == RE);
    e.push_lsbs((bs as u64).wrapping_sub(1), BE);
    let sr_extra: u64 = match srs {
        SampleRateSpec::KHz(x) => x as u64,
        SampleRateSpec::Hz(x) | SampleRateSpec::DaHz(x) => x as u64,
        _ => 0,
    };
    e.push_lsbs(sr_extra, RE);
    let nbytes = (32 + 8 * L + BE + RE) / 8;
    assert!(e.len == 8 * nbytes);
    let mut hb = [0u8; 16];
    let mut i = 0;
    while i < nbytes {
        hb[i] = e.byte(i);
        i += 1;
    }
    e.push_lsbs(spec_crc8(&hb[0..nbytes]) as u64, 8);

    ideal_eq(&s.id, &e);
    assert!(h.count_bits() == e.len);
    // decoder view: the block-size code denotes the header's block size
    assert!(spec_blocksize(bss.tag(), bs.wrapping_sub(1)) == Some(bs));
    assert!(spec_samplesize(sss.into_tag()) == Some(bits as u32));
    assert!(srs.tag() <= 14);
}

//@ unit props=C02,C08 tier=quick kind=complete timeout=900 funcs="FrameHeader::write; FrameHeader::count_bits; ChannelAssignment::write" stubs="encode_to_utf8like -> closed-form RFC code of the class; utf8like_bytesize -> byte count of the class (both proved by c02_utf8_len*)" bound="shape: 1-byte frame number, 16-bit block-size extra, coded sample rate; all field values symbolic"
#[kani::proof]
#[kani::unwind(20)]
#[kani::stub(std::fmt::format, stub_format)]
#[kani::stub(encode_to_utf8like, contract_utf8_l1)]
#[kani::stub(utf8like_bytesize, contract_bytesize_l1)]
fn c02_header_len1_bs16_sr0() {
    let x: u16 = kani::any();
    kani::assume(x < 65535);
    c02_header_body::<1, 16, 0>(BlockSizeSpec::ExtraTwoBytes(x), SampleRateSpec::R44_1kHz, 0);
}

//@ unit props=C02,C08 tier=quick kind=complete timeout=900 funcs="FrameHeader::write; FrameHeader::count_bits; ChannelAssignment::write" stubs="encode_to_utf8like -> closed-form RFC code of the class; utf8like_bytesize -> byte count of the class (both proved by c02_utf8_len*)" bound="shape: 3-byte frame number, table block size, 16-bit sample-rate extra; all field values symbolic"
#[kani::proof]
#[kani::unwind(20)]
#[kani::stub(std::fmt::format, stub_format)]
#[kani::stub(encode_to_utf8like, contract_utf8_l3)]
#[kani::stub(utf8like_bytesize, contract_bytesize_l3)]
fn c02_header_len3_bs0_sr16() {
    let k: u8 = kani::any();
    kani::assume(k <= 7);
    let x: u16 = kani::any();
    c02_header_body::<3, 0, 16>(BlockSizeSpec::Pow2Mul256(k), SampleRateSpec::DaHz(x), 3);
}

//@ unit props=C02,C08 tier=thorough kind=complete timeout=900 funcs="FrameHeader::write; FrameHeader::count_bits" stubs="encode_to_utf8like -> closed-form RFC code of the class; utf8like_bytesize -> byte count of the class (both proved by c02_utf8_len*)" bound="shape: 6-byte frame number (up to 2^31-1), 8-bit block-size extra, 8-bit sample-rate extra"
#[kani::proof]
#[kani::unwind(20)]
#[kani::stub(std::fmt::format, stub_format)]
#[kani::stub(encode_to_utf8like, contract_utf8_l6)]
#[kani::stub(utf8like_bytesize, contract_bytesize_l6)]
fn c02_header_len6_bs8_sr8() {
    let x: u8 = kani::any();
    // (ExtraByte(255) = 256 samples is never built by from_size but is a valid code)
    let y: u8 = kani::any();
    c02_header_body::<6, 8, 8>(BlockSizeSpec::ExtraByte(x), SampleRateSpec::KHz(y), 1);
}

//@ unit props=C02,C08 tier=thorough kind=complete timeout=900 funcs="FrameHeader::write; FrameHeader::count_bits" stubs="encode_to_utf8like -> closed-form RFC code of the class; utf8like_bytesize -> byte count of the class (both proved by c02_utf8_len*)" bound="shape: 2-byte frame number, table block size, sample rate from STREAMINFO (code 0)"
#[kani::proof]
#[kani::unwind(20)]
#[kani::stub(std::fmt::format, stub_format)]
#[kani::stub(encode_to_utf8like, contract_utf8_l2)]
#[kani::stub(utf8like_bytesize, contract_bytesize_l2)]
fn c02_header_len2_bs0_srinfo() {
    let k: u8 = kani::any();
    kani::assume(k <= 3);
    c02_header_body::<2, 0, 0>(BlockSizeSpec::Pow2Mul576(k), SampleRateSpec::Unspecified, 2);
}
