// Harnesses for src/coding.rs, module `coding::verif_c13`: the glue between the Rice parameter
// search (rice::find_partitioned_rice_parameter: Verus unit prc_find + rice.rs units) and the
// residual the encoder emits.  C13 quantifies over "every residual the encoder emits" and over
// "parameters 0..=the configured maximum", so every call site must (1) hand the search the
// CONFIGURED maximum and the predictor order as warm-up, (2) apply exactly the parameters the
// search returned for the order that is finally selected, and (3) select the order by the total
// cost.  The search and the application (encode_residual_with_prc_parameter: Verus unit
// residual_partition) are replaced by contracts that record what they were given.

use crate::component::verif::residual_from_raw;

static mut EXPECTED_MAX_P: usize = 0;
static mut FIND_CALLS: usize = 0;
static mut FOUND_P: [u8; 5] = [0; 5];
static mut FOUND_BITS: [usize; 5] = [0; 5];
static mut FOUND_FOR: [bool; 5] = [false; 5];
static mut APPLIED_P: u8 = 255;
static mut APPLIED_WARMUP: usize = 99;
static mut APPLIED_LEN: usize = 0;
static mut APPLY_CALLS: usize = 0;

/// contract of `rice::find_partitioned_rice_parameter`: SOME admissible parameter set (one
/// partition, parameter 0..=max_p, any cost below the saturation limit); requires the configured
/// maximum and a warm-up length 0..=4 (checked here, at the call site).
fn contract_find(_signal: &[i32], warmup_length: usize, max_p: usize) -> rice::PrcParameter {
    assert!(max_p == unsafe { EXPECTED_MAX_P });
    assert!(warmup_length <= 4);
    let p: u8 = kani::any();
    kani::assume((p as usize) <= max_p);
    let bits: usize = kani::any();
    kani::assume(bits < (1 << 28));
    unsafe {
        FIND_CALLS += 1;
        FOUND_P[warmup_length] = p;
        FOUND_BITS[warmup_length] = bits;
        FOUND_FOR[warmup_length] = true;
    }
    rice::PrcParameter::new(0, vec![p], bits)
}

/// contract of `encode_residual_with_prc_parameter`: a residual over the whole block with the
/// given warm-up and the given parameters (recorded).
fn contract_apply(_config: &config::Prc, errors: &[i32], warmup_length: usize, prc_p: rice::PrcParameter) -> Residual {
    assert!(prc_p.order == 0 && prc_p.ps.len() == 1);
    unsafe {
        APPLY_CALLS += 1;
        APPLIED_P = prc_p.ps[0];
        APPLIED_WARMUP = warmup_length;
        APPLIED_LEN = errors.len();
    }
    let mut r = residual_from_raw(0, 0, 0, vec![0], vec![0], vec![0]);
    crate::component::verif::set_block_and_warmup(&mut r, errors.len(), warmup_length);
    r
}

/// `encode_residual` (LPC path, and the entropy-estimate branch of the fixed path): the search
/// runs once, with the CONFIGURED maximum parameter and the caller's warm-up, and what it returns
/// is what is applied to the same error signal.
//@ unit props=C13 tier=quick kind=complete timeout=600 funcs="coding::encode_residual" stubs="rice::find_partitioned_rice_parameter -> some admissible parameters (Verus prc_find), asserting its arguments; encode_residual_with_prc_parameter -> recorded (Verus residual_partition)" note="block of 8 samples; the function has no loop and does not look at the samples"
#[kani::proof]
#[kani::unwind(12)]
#[kani::stub(std::fmt::format, stub_format)]
#[kani::stub(rice::find_partitioned_rice_parameter, contract_find)]
#[kani::stub(encode_residual_with_prc_parameter, contract_apply)]
fn c13_encode_residual_uses_configured_maximum() {
    let mut prc = config::Prc::default();
    let maxp: usize = kani::any();
    kani::assume(maxp <= 14);
    prc.max_parameter = maxp;
    unsafe {
        EXPECTED_MAX_P = maxp;
    }
    let errors: [i32; 8] = kani::any();
    let warm: usize = kani::any();
    kani::assume(warm <= 4);
    let r = encode_residual(&prc, &errors, warm);
    unsafe {
        assert!(FIND_CALLS == 1 && APPLY_CALLS == 1);
        assert!(FOUND_FOR[warm]);
        assert!(APPLIED_P == FOUND_P[warm]);
        assert!(APPLIED_WARMUP == warm && APPLIED_LEN == 8);
    }
    assert!(r.warmup_length() == warm);
    kani::cover!(maxp == 0);
    kani::cover!(maxp == 14 && warm == 4);
}

/// `fixed_lpc` with order selection by bit count: every order 0..=max_order is searched with the
/// configured maximum parameter (for EVERY sample width, 8..=24), the selected order minimises
/// `bits_per_sample * order + code_bits`, the parameters applied are the ones found for that
/// order, and None is returned iff that minimum does not beat the baseline.
//@ unit props=C13,C09 tier=quick kind=bounded timeout=900 funcs="coding::fixed_lpc; coding::select_order_and_encode_residual" stubs="reset_fixed_lpc_errors -> (differencing: c01_fixed_errors_*); rice::find_partitioned_rice_parameter -> some admissible parameters with ARBITRARY cost, asserting its arguments; encode_residual_with_prc_parameter -> recorded" bound="block 8 (the selection does not look at the samples)"
#[kani::proof]
#[kani::unwind(34)]
#[kani::stub(std::fmt::format, stub_format)]
#[kani::stub(reset_fixed_lpc_errors, contract_reset)]
#[kani::stub(rice::find_partitioned_rice_parameter, contract_find)]
#[kani::stub(encode_residual_with_prc_parameter, contract_apply)]
fn c13_fixed_order_selection_by_bitcount() {
    let mut cfg = config::SubFrameCoding::default();
    let max_order: usize = kani::any();
    kani::assume(max_order <= 4);
    cfg.fixed.max_order = max_order;
    cfg.fixed.order_sel = config::OrderSel::BitCount;
    let maxp: usize = kani::any();
    kani::assume(maxp <= 14);
    cfg.prc.max_parameter = maxp;
    unsafe {
        EXPECTED_MAX_P = maxp;
    }
    let bps: u8 = kani::any();
    kani::assume(bps >= 8 && bps <= 24);
    let s: [i32; 8] = kani::any();
    let baseline: usize = kani::any();
    let r = fixed_lpc(&cfg, &s, bps, baseline);
    let (found_for, found_bits, found_p, calls) = unsafe { (FOUND_FOR, FOUND_BITS, FOUND_P, FIND_CALLS) };
    assert!(calls == max_order + 1);
    let mut best = usize::MAX;
    let mut o = 0;
    while o < 5 {
        assert!(found_for[o] == (o <= max_order));
        if o <= max_order {
            let total = (bps as usize) * o + found_bits[o];
            if total < best {
                best = total;
            }
        }
        o += 1;
    }
    match r {
        Some(SubFrame::FixedLpc(f)) => {
            let sel = f.order();
            assert!(sel <= max_order);
            assert!((bps as usize) * sel + found_bits[sel] == best);
            assert!(best < baseline);
            unsafe {
                assert!(APPLY_CALLS == 1);
                assert!(APPLIED_P == found_p[sel]);
                assert!(APPLIED_WARMUP == sel);
            }
            kani::cover!(sel == 4);
            kani::cover!(sel == 0 && max_order == 4);
        }
        Some(_) => assert!(false),
        None => {
            assert!(best >= baseline);
            assert!(unsafe { APPLY_CALLS } == 0);
        }
    }
    kani::cover!(bps == 8 && maxp == 14);
}

/// (the error vectors stay empty: neither the selection nor the contracts look at them)
fn contract_reset(_errors: &mut FixedLpcErrors, _signal: &[i32]) {}
