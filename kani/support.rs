// verif_support: specification functions (independent oracle) and the replay shim.
//
// This file is ADDED to the overlay copy of /repo as `src/verif_support.rs`; it is compiled only
// under `cfg(kani)` (verification) or `cfg(flacenc_verif_replay)` (counterexample replay with the
// ordinary toolchain).  Nothing in here calls crate code: the spec functions are written from
// RFC 9639 and from the property statements, not from the implementation.

#![allow(dead_code, unused_imports, unused_macros, clippy::all, clippy::pedantic, clippy::nursery)]

// ------------------------------------------------------------------------------------------------
// Replay shim: a tiny stand-in for the `kani` crate, fed from recorded concrete values.
// ------------------------------------------------------------------------------------------------
#[cfg(not(kani))]
pub mod kani {
    use std::cell::RefCell;
    use std::collections::VecDeque;

    thread_local! {
        static INPUT: RefCell<VecDeque<Vec<u8>>> = RefCell::new(VecDeque::new());
    }

    /// Panic payload used when a recorded value violates a harness assumption (=> not reproduced).
    pub const ASSUME_FAILED: &str = "FLACVERIF-REPLAY-ASSUME-FAILED";
    pub const INPUT_EXHAUSTED: &str = "FLACVERIF-REPLAY-INPUT-EXHAUSTED";

    pub fn load(vals: Vec<Vec<u8>>) {
        INPUT.with(|q| {
            let mut q = q.borrow_mut();
            q.clear();
            for v in vals {
                q.push_back(v);
            }
        });
    }

    fn next(n: usize) -> Vec<u8> {
        INPUT.with(|q| {
            let v = q.borrow_mut().pop_front();
            match v {
                Some(v) => {
                    let mut v = v;
                    v.resize(n, 0);
                    v
                }
                None => panic!("{}", INPUT_EXHAUSTED),
            }
        })
    }

    pub trait Arbitrary: Sized {
        fn any() -> Self;
    }
    macro_rules! arb_int {
        ($($t:ty),*) => {$(
            impl Arbitrary for $t {
                fn any() -> Self {
                    let b = next(std::mem::size_of::<$t>());
                    let mut a = [0u8; std::mem::size_of::<$t>()];
                    a.copy_from_slice(&b);
                    <$t>::from_le_bytes(a)
                }
            }
        )*};
    }
    arb_int!(u8, u16, u32, u64, u128, usize, i8, i16, i32, i64, i128, isize);
    impl Arbitrary for bool {
        fn any() -> Self {
            next(1)[0] & 1 == 1
        }
    }
    impl Arbitrary for f32 {
        fn any() -> Self {
            f32::from_bits(u32::any())
        }
    }
    impl Arbitrary for f64 {
        fn any() -> Self {
            f64::from_bits(u64::any())
        }
    }
    impl<T: Arbitrary, const N: usize> Arbitrary for [T; N] {
        fn any() -> Self {
            std::array::from_fn(|_| T::any())
        }
    }

    pub fn any<T: Arbitrary>() -> T {
        T::any()
    }
    pub fn any_where<T: Arbitrary, F: FnOnce(&T) -> bool>(f: F) -> T {
        let v = T::any();
        assume(f(&v));
        v
    }
    pub fn assume(c: bool) {
        if !c {
            panic!("{}", ASSUME_FAILED);
        }
    }
    macro_rules! cover {
        ($($t:tt)*) => {};
    }
    pub(crate) use cover;
}

// ------------------------------------------------------------------------------------------------
// Ideal MSB-first bit string (capacity 512 bits), the oracle for C11/C08/C02 units.
// ------------------------------------------------------------------------------------------------
pub const IDEAL_WORDS: usize = 8;

#[derive(Clone, Copy)]
pub struct Ideal {
    pub w: [u64; IDEAL_WORDS],
    pub len: usize,
}

impl Ideal {
    pub fn new() -> Self {
        Self {
            w: [0; IDEAL_WORDS],
            len: 0,
        }
    }

    /// Appends the `n` most significant bits of `v` (0 <= n <= 64).
    pub fn push_msbs(&mut self, v: u64, n: usize) {
        if n == 0 {
            return;
        }
        let v = if n >= 64 { v } else { v & !(u64::MAX >> n) };
        let idx = self.len / 64;
        let off = (self.len % 64) as u32;
        let chunk = ((v as u128) << 64) >> off;
        if idx < IDEAL_WORDS {
            self.w[idx] |= (chunk >> 64) as u64;
        }
        if idx + 1 < IDEAL_WORDS {
            self.w[idx + 1] |= chunk as u64;
        }
        self.len += n;
    }

    /// Appends the `n` least significant bits of `v` (0 <= n <= 64).
    pub fn push_lsbs(&mut self, v: u64, n: usize) {
        if n == 0 {
            return;
        }
        self.push_msbs(v << (64 - n), n);
    }

    /// Appends `n` zero bits (any n that keeps the length within capacity).
    pub fn push_zeros(&mut self, n: usize) {
        self.len += n;
    }

    /// Appends zeros up to the next multiple of 8; returns how many.
    pub fn align(&mut self) -> usize {
        let r = (8 - self.len % 8) % 8;
        self.len += r;
        r
    }

    /// Two's complement of `v` in `bits` bits (1 <= bits <= 64), as the RFC writes signed fields.
    pub fn push_twoc(&mut self, v: i64, bits: usize) {
        self.push_lsbs(v as u64, bits);
    }

    pub fn bit(&self, i: usize) -> bool {
        (self.w[i / 64] >> (63 - (i % 64))) & 1 == 1
    }

    pub fn byte(&self, i: usize) -> u8 {
        (self.w[i / 8] >> (56 - 8 * (i % 8))) as u8
    }

    pub fn words(&self) -> usize {
        (self.len + 63) / 64
    }

    pub fn bytes(&self) -> usize {
        (self.len + 7) / 8
    }
}

// ------------------------------------------------------------------------------------------------
// RFC 9639 code tables and checksums (bitwise reference implementations).
// ------------------------------------------------------------------------------------------------

/// CRC-8, polynomial x^8+x^2+x+1 (0x07), init 0 (RFC 9639 section 9.1.8).
pub fn spec_crc8(data: &[u8]) -> u8 {
    let mut crc = 0u8;
    for b in data {
        crc ^= *b;
        let mut i = 0;
        while i < 8 {
            crc = if crc & 0x80 != 0 { (crc << 1) ^ 0x07 } else { crc << 1 };
            i += 1;
        }
    }
    crc
}

/// CRC-16, polynomial x^16+x^15+x^2+1 (0x8005), init 0 (RFC 9639 section 9.3).
pub fn spec_crc16(data: &[u8]) -> u16 {
    let mut crc = 0u16;
    for b in data {
        crc ^= (*b as u16) << 8;
        let mut i = 0;
        while i < 8 {
            crc = if crc & 0x8000 != 0 { (crc << 1) ^ 0x8005 } else { crc << 1 };
            i += 1;
        }
    }
    crc
}

/// Block size denoted by a 4-bit block-size code and its (already read) extra value.
/// `None` = reserved code.  RFC 9639 section 9.1.1.
pub fn spec_blocksize(code: u8, extra: u32) -> Option<u32> {
    match code {
        0 => None,
        1 => Some(192),
        2..=5 => Some(144u32 << code),
        6 => Some(extra + 1),
        7 => Some(extra + 1),
        8..=15 => Some(1u32 << code),
        _ => None,
    }
}

/// Number of extra bits that follow the coded number for a block-size code.
pub fn spec_blocksize_extra_bits(code: u8) -> usize {
    match code {
        6 => 8,
        7 => 16,
        _ => 0,
    }
}

/// Sample rate denoted by a 4-bit code and its extra value; `Some(0)` = "see STREAMINFO",
/// `None` = forbidden code 0b1111.  RFC 9639 section 9.1.2.
pub fn spec_samplerate(code: u8, extra: u32) -> Option<u32> {
    match code {
        0 => Some(0),
        1 => Some(88_200),
        2 => Some(176_400),
        3 => Some(192_000),
        4 => Some(8_000),
        5 => Some(16_000),
        6 => Some(22_050),
        7 => Some(24_000),
        8 => Some(32_000),
        9 => Some(44_100),
        10 => Some(48_000),
        11 => Some(96_000),
        12 => Some(extra * 1000),
        13 => Some(extra),
        14 => Some(extra * 10),
        _ => None,
    }
}

pub fn spec_samplerate_extra_bits(code: u8) -> usize {
    match code {
        12 => 8,
        13 | 14 => 16,
        _ => 0,
    }
}

/// Bits per sample denoted by the 3-bit sample-size code; Some(0) = "see STREAMINFO";
/// None = reserved.  RFC 9639 section 9.1.4.
pub fn spec_samplesize(code: u8) -> Option<u32> {
    match code {
        0 => Some(0),
        1 => Some(8),
        2 => Some(12),
        3 => None,
        4 => Some(16),
        5 => Some(20),
        6 => Some(24),
        7 => Some(32),
        _ => None,
    }
}

/// Decodes the UTF-8-like coded number at the start of `b`; returns (value, byte length) or None
/// if the bytes are not a well-formed *shortest-form* code.  RFC 9639 section 9.1.5.
pub fn spec_utf8_decode(b: &[u8]) -> Option<(u64, usize)> {
    if b.is_empty() {
        return None;
    }
    let h = b[0];
    let (n, mut acc): (usize, u64) = if h < 0x80 {
        (0, h as u64)
    } else if h < 0xC0 {
        return None;
    } else if h < 0xE0 {
        (1, (h & 0x1F) as u64)
    } else if h < 0xF0 {
        (2, (h & 0x0F) as u64)
    } else if h < 0xF8 {
        (3, (h & 0x07) as u64)
    } else if h < 0xFC {
        (4, (h & 0x03) as u64)
    } else if h < 0xFE {
        (5, (h & 0x01) as u64)
    } else if h == 0xFE {
        (6, 0)
    } else {
        return None;
    };
    if b.len() < n + 1 {
        return None;
    }
    let mut i = 1;
    while i <= n {
        if b[i] & 0xC0 != 0x80 {
            return None;
        }
        acc = (acc << 6) | (b[i] & 0x3F) as u64;
        i += 1;
    }
    // shortest form: the value must not fit in the next shorter length.
    let min_for_len: [u64; 7] = [0, 1 << 7, 1 << 11, 1 << 16, 1 << 21, 1 << 26, 1 << 31];
    if acc < min_for_len[n] {
        return None;
    }
    Some((acc, n + 1))
}

/// Zig-zag folding used by Rice coding (RFC 9639 section 9.2.7.3): 0,-1,1,-2,2.. -> 0,1,2,3,4..
pub fn spec_zigzag(v: i32) -> u64 {
    let v = v as i64;
    if v >= 0 {
        (v as u64) << 1
    } else {
        (((-v) as u64) << 1) - 1
    }
}

pub fn spec_unzigzag(u: u64) -> i64 {
    if u & 1 == 0 {
        (u >> 1) as i64
    } else {
        -(((u >> 1) + 1) as i64)
    }
}

/// Fixed predictor of order k evaluated in 64-bit arithmetic on the previous samples
/// (`prev[0]` is s[t-1], `prev[1]` is s[t-2], ...).  RFC 9639 section 9.2.5.
pub fn spec_fixed_predict(order: usize, prev: &[i64; 4]) -> i64 {
    match order {
        0 => 0,
        1 => prev[0],
        2 => 2 * prev[0] - prev[1],
        3 => 3 * prev[0] - 3 * prev[1] + prev[2],
        _ => 4 * prev[0] - 6 * prev[1] + 4 * prev[2] - prev[3],
    }
}

/// Stereo un-mixing as an RFC 9639 decoder performs it (section 4.2): returns (left, right).
pub fn spec_unmix_midside(mid: i64, side: i64) -> (i64, i64) {
    let m = (mid << 1) | (side & 1);
    ((m + side) >> 1, (m - side) >> 1)
}

/// Does `v` fit in a two's complement field of `bits` bits?
pub fn spec_fits(v: i64, bits: usize) -> bool {
    let lo = -(1i64 << (bits - 1));
    let hi = (1i64 << (bits - 1)) - 1;
    lo <= v && v <= hi
}

// ------------------------------------------------------------------------------------------------
// Stubs shared by harnesses
// ------------------------------------------------------------------------------------------------

/// Replacement for `alloc::fmt::format` in harnesses where only the *presence* of an error
/// matters, not its text (message formatting dominates CBMC cost otherwise).
pub fn stub_format(_args: core::fmt::Arguments<'_>) -> String {
    String::new()
}

/// The UTF-8-like code of `v` in exactly `l` bytes (RFC 9639 section 9.1.5), closed form.
/// Only meaningful when `v` fits the `l`-byte class; bytes beyond `l` are zero.
pub fn spec_utf8_encode(v: u64, l: usize) -> [u8; 7] {
    let mut out = [0u8; 7];
    if l == 1 {
        out[0] = v as u8;
        return out;
    }
    let head_prefix: u8 = (0xFFu16 << (8 - l)) as u8; // l leading ones, then a zero
    out[0] = head_prefix | ((v >> (6 * (l - 1))) as u8 & (0x7Fu8 >> l));
    let mut i = 1;
    while i < l {
        out[i] = 0x80 | ((v >> (6 * (l - 1 - i))) as u8 & 0x3F);
        i += 1;
    }
    out
}
