// Harnesses for src/coding.rs, second module (`coding::verif_sel`): the subframe selection logic
// with the candidate generators replaced by callee contracts (C09, C01.7, C02 order limits).

use crate::component::verif::residual_from_raw;
use crate::component::QuantizedParameters;

static mut IS_CONSTANT_VERDICT: bool = false;
static mut FIXED_CALLED: bool = false;
static mut LPC_CALLED: bool = false;
static mut FIXED_RETURNED_SOME: bool = false;
static mut FIXED_BITS: usize = 0;
static mut LPC_BITS: usize = 0;

/// contract of `is_constant` (proved for every length by Verus unit is_constant): some verdict.
fn contract_is_constant<T: PartialEq>(_samples: &[T]) -> bool {
    let c: bool = kani::any();
    unsafe {
        IS_CONSTANT_VERDICT = c;
    }
    c
}

/// A subframe whose reported size is `18 + extra` bits (a FIXED subframe of order 0 over an empty
/// residual whose cached quotient sum is `extra`): stands for "some candidate of arbitrary size".
fn fixed_candidate_with_bits(extra: usize, bps: u8) -> SubFrame {
    let mut r = residual_from_raw(0, 0, 0, vec![0], vec![0], vec![0]);
    crate::component::verif::set_sum_quotients(&mut r, extra);
    FixedLpc::from_parts(heapless::Vec::new(), r, bps).into()
}

fn lpc_candidate_with_bits(extra: usize, bps: u8) -> SubFrame {
    let mut r = residual_from_raw(0, 0, 0, vec![0], vec![0], vec![0]);
    crate::component::verif::set_sum_quotients(&mut r, extra);
    let qp = QuantizedParameters::from_parts(&[], 0, 0, 1);
    Lpc::from_parts(heapless::Vec::new(), qp, r, bps).into()
}

/// contract of `fixed_lpc`: NOTHING is assumed about the candidate's size (with order selection by
/// entropy ESTIMATE the real function can return a candidate larger than verbatim), so the caller
/// must itself make sure the frame cannot exceed the verbatim size.
fn contract_fixed_lpc(
    _config: &config::SubFrameCoding,
    _signal: &[i32],
    bits_per_sample: u8,
    _baseline_bits: usize,
) -> Option<SubFrame> {
    unsafe {
        FIXED_CALLED = true;
    }
    let some: bool = kani::any();
    if some {
        let extra: usize = kani::any();
        kani::assume(extra < (1usize << 40));
        let sf = fixed_candidate_with_bits(extra, bits_per_sample);
        unsafe {
            FIXED_RETURNED_SOME = true;
            FIXED_BITS = sf.count_bits();
        }
        Some(sf)
    } else {
        None
    }
}

/// contract of `estimated_qlpc`: some LPC subframe of arbitrary size.
fn contract_estimated_qlpc(
    _config: &config::SubFrameCoding,
    _signal: &[i32],
    bits_per_sample: u8,
) -> SubFrame {
    let extra: usize = kani::any();
    kani::assume(extra < (1usize << 40));
    let sf = lpc_candidate_with_bits(extra, bits_per_sample);
    unsafe {
        LPC_CALLED = true;
        LPC_BITS = sf.count_bits();
    }
    sf
}

fn any_subframe_config() -> config::SubFrameCoding {
    let mut c = config::SubFrameCoding::default();
    c.use_constant = kani::any();
    c.use_fixed = kani::any();
    c.use_lpc = kani::any();
    c
}

/// C09 + C01.7 for a block long enough for prediction (n = 64 = MIN_BLOCK_SIZE_FOR_PREDICTION):
///  * the returned subframe is never larger than the verbatim subframe of the same block;
///  * it is CONSTANT only if constants are enabled and the block is constant, and then it stores
///    the first sample and the block length;
///  * it is one of {constant, the fixed candidate, the LPC candidate, verbatim(samples)};
///  * a disabled candidate generator is never even called.
//@ unit props=C09,C01,C07 tier=quick kind=complete timeout=900 funcs="coding::encode_subframe" stubs="is_constant -> some verdict (Verus unit is_constant); fixed_lpc -> None or a subframe of ARBITRARY size; estimated_qlpc -> a subframe of ARBITRARY size" note="block length fixed at 64 (the selection logic does not depend on the length beyond the `< 64` test, which unit c09_encode_subframe_short covers)"
#[kani::proof]
#[kani::unwind(66)]
#[kani::stub(std::fmt::format, stub_format)]
#[kani::stub(is_constant, contract_is_constant)]
#[kani::stub(fixed_lpc, contract_fixed_lpc)]
#[kani::stub(estimated_qlpc, contract_estimated_qlpc)]
fn c09_encode_subframe_select() {
    let cfg = any_subframe_config();
    let samples: [i32; 64] = kani::any();
    let bps: u8 = kani::any();
    kani::assume(8 <= bps && bps <= 25);
    let sf = encode_subframe(&cfg, &samples, bps);
    let verbatim_bits = 8 + 64 * bps as usize;
    let (is_const, fixed_called, lpc_called, fixed_some, fixed_bits, lpc_bits) = unsafe {
        (IS_CONSTANT_VERDICT, FIXED_CALLED, LPC_CALLED, FIXED_RETURNED_SOME, FIXED_BITS, LPC_BITS)
    };
    // C09
    assert!(sf.count_bits() <= verbatim_bits);
    match &sf {
        SubFrame::Constant(c) => {
            assert!(cfg.use_constant && is_const);
            assert!(c.dc_offset() == samples[0] && c.block_size() == 64);
            assert!(c.bits_per_sample() == bps as usize);
        }
        SubFrame::Verbatim(v) => {
            assert!(v.samples().len() == 64 && v.bits_per_sample() == bps as usize);
            assert!(v.samples()[0] == samples[0] && v.samples()[63] == samples[63]);
            let k: usize = kani::any();
            kani::assume(k < 64);
            assert!(v.samples()[k] == samples[k]);
        }
        SubFrame::FixedLpc(_) => {
            assert!(cfg.use_fixed && fixed_called && fixed_some);
            assert!(sf.count_bits() == fixed_bits);
        }
        SubFrame::Lpc(_) => {
            assert!(cfg.use_lpc && lpc_called);
            assert!(sf.count_bits() == lpc_bits);
        }
    }
    if cfg.use_constant && is_const {
        assert!(matches!(sf, SubFrame::Constant(_)));
    }
    if !cfg.use_fixed {
        assert!(!fixed_called);
    }
    if !cfg.use_lpc {
        assert!(!lpc_called);
    }
    kani::cover!(matches!(sf, SubFrame::FixedLpc(_)));
    kani::cover!(matches!(sf, SubFrame::Lpc(_)));
    kani::cover!(matches!(sf, SubFrame::Verbatim(_)) && fixed_some);
}

/// Blocks shorter than 64 samples never use a predictor (RFC: predictor order must be below the
/// block size; the Rice search needs partitions of >= 64): constant or verbatim only.
//@ unit props=C09,C01,C02 tier=quick kind=complete timeout=600 funcs="coding::encode_subframe" stubs="is_constant -> some verdict; fixed_lpc / estimated_qlpc -> must not be called" bound="block lengths 1, 2 and 63"
#[kani::proof]
#[kani::unwind(66)]
#[kani::stub(std::fmt::format, stub_format)]
#[kani::stub(is_constant, contract_is_constant)]
#[kani::stub(fixed_lpc, contract_fixed_lpc)]
#[kani::stub(estimated_qlpc, contract_estimated_qlpc)]
fn c09_encode_subframe_short() {
    let cfg = any_subframe_config();
    let samples: [i32; 63] = kani::any();
    let bps: u8 = kani::any();
    kani::assume(8 <= bps && bps <= 25);
    let which: u8 = kani::any();
    let n = if which == 0 { 1 } else if which == 1 { 2 } else { 63 };
    let sf = match which {
        0 => encode_subframe(&cfg, &samples[0..1], bps),
        1 => encode_subframe(&cfg, &samples[0..2], bps),
        _ => encode_subframe(&cfg, &samples[0..63], bps),
    };
    let (fixed_called, lpc_called) = unsafe { (FIXED_CALLED, LPC_CALLED) };
    assert!(!fixed_called && !lpc_called);
    assert!(sf.count_bits() <= 8 + n * bps as usize);
    assert!(matches!(sf, SubFrame::Constant(_)) || matches!(sf, SubFrame::Verbatim(_)));
}

// ================================================================================================
// Stereo decorrelation: C01.6 (mid/side is invertible, side fits bps+1) and C09 (never worse than
// independent channels), with the per-channel encoder replaced by a recording callee contract.
// ================================================================================================
use crate::source::verif::framebuf_from_parts;

static mut MS_SEEN: [i32; 4] = [0; 4];
static mut MS_FILLED: usize = 0;
static mut MS_ASSIGNMENT_WAS_MIDSIDE: bool = false;
static mut MS_BITS: [usize; 2] = [0; 2];

/// contract of `encode_frame_impl`: some frame whose two subframes have ARBITRARY sizes; records
/// the (mid, side) samples it was handed so that the caller's post-condition can talk about them.
/// Subframes are tagged through their value: 3 = mid, 4 = side (1 = left, 2 = right).
fn contract_encode_frame_impl(
    _config: &config::Encoder,
    framebuf: &FrameBuf,
    offset: u64,
    stream_info: &StreamInfo,
    ch_info: &ChannelAssignment,
) -> Frame {
    unsafe {
        MS_FILLED = framebuf.filled_size();
        MS_ASSIGNMENT_WAS_MIDSIDE = *ch_info == ChannelAssignment::MidSide;
        if framebuf.filled_size() == 2 {
            MS_SEEN[0] = framebuf.channel_slice(0)[0];
            MS_SEEN[1] = framebuf.channel_slice(0)[1];
            MS_SEEN[2] = framebuf.channel_slice(1)[0];
            MS_SEEN[3] = framebuf.channel_slice(1)[1];
        }
    }
    let mut frame = Frame::new_empty(
        BlockSizeSpec::from_size(framebuf.filled_size() as u16),
        ch_info.clone(),
        SampleSizeSpec::B16,
        SampleRateSpec::R44_1kHz,
    );
    frame
        .header_mut()
        .set_frame_offset(FrameOffset::StartSample(offset));
    let xm: u8 = kani::any();
    let xs: u8 = kani::any();
    let m = tagged_candidate(3, xm);
    let s = tagged_candidate(4, xs);
    unsafe {
        MS_BITS = [m.count_bits(), s.count_bits()];
    }
    frame.add_subframe(m);
    frame.add_subframe(s);
    frame
}

/// A heap-free subframe of reported size `8 + size_code` bits carrying `tag` (a CONSTANT subframe
/// whose value is the tag): stands for "some subframe of arbitrary size" in the selection units.
fn tagged_candidate(tag: i32, size_code: u8) -> SubFrame {
    Constant::from_parts(0, tag, size_code).into()
}

fn tag_of(sf: &SubFrame) -> usize {
    match sf {
        SubFrame::Constant(c) => c.dc_offset() as usize,
        _ => 0,
    }
}

fn c01_stereo_midside_and_selection_body(wide: bool) {
    let mut cfg = config::Encoder::default();
    cfg.stereo_coding.use_leftside = kani::any();
    cfg.stereo_coding.use_rightside = kani::any();
    cfg.stereo_coding.use_midside = kani::any();
    let bits: usize = kani::any();
    kani::assume(if wide { bits == 20 || bits == 24 } else { bits == 8 || bits == 12 || bits == 16 });
    let l: [i32; 2] = kani::any();
    let r: [i32; 2] = kani::any();
    kani::assume(spec_fits(l[0] as i64, bits) && spec_fits(l[1] as i64, bits));
    kani::assume(spec_fits(r[0] as i64, bits) && spec_fits(r[1] as i64, bits));
    // capacity 3, 2 filled; the unfilled slots hold garbage
    let fb = framebuf_from_parts(vec![l[0], l[1], i32::MAX, r[0], r[1], i32::MIN], 3, 2);
    let info = StreamInfo::new(44100, 2, bits).unwrap();

    // the independent-channel frame (left tagged 1, right tagged 2), arbitrary sizes
    let xl: u8 = kani::any();
    let xr: u8 = kani::any();
    let mut indep = Frame::new_empty(
        BlockSizeSpec::from_size(2),
        ChannelAssignment::Independent(2),
        SampleSizeSpec::B16,
        SampleRateSpec::R44_1kHz,
    );
    let sl = tagged_candidate(1, xl);
    let sr = tagged_candidate(2, xr);
    let (bits_l, bits_r) = (sl.count_bits(), sr.count_bits());
    indep.add_subframe(sl);
    indep.add_subframe(sr);

    let out = try_stereo_coding(&cfg, &fb, indep, 7, &info);

    let (seen, filled, was_ms, ms_bits) = unsafe { (MS_SEEN, MS_FILLED, MS_ASSIGNMENT_WAS_MIDSIDE, MS_BITS) };
    // C01.6: the buffer handed to the mid/side encoder is invertible by an RFC 9639 decoder and
    // the side channel fits in bps + 1 bits, mid in bps bits
    assert!(filled == 2 && was_ms);
    let mut t = 0;
    while t < 2 {
        let (m, s) = (seen[t] as i64, seen[2 + t] as i64);
        assert!(spec_unmix_midside(m, s) == (l[t] as i64, r[t] as i64));
        assert!(s == l[t] as i64 - r[t] as i64);
        assert!(spec_fits(m, bits) && spec_fits(s, bits + 1));
        t += 1;
    }
    // which pair was kept, per RFC 9639 9.1.3
    assert!(out.subframe_count() == 2);
    let (t0, t1) = (tag_of(out.subframe(0).unwrap()), tag_of(out.subframe(1).unwrap()));
    let total = out.subframe(0).unwrap().count_bits() + out.subframe(1).unwrap().count_bits();
    match out.header().channel_assignment() {
        ChannelAssignment::Independent(n) => assert!(*n == 2 && t0 == 1 && t1 == 2),
        ChannelAssignment::LeftSide => assert!(cfg.stereo_coding.use_leftside && t0 == 1 && t1 == 4),
        ChannelAssignment::RightSide => assert!(cfg.stereo_coding.use_rightside && t0 == 4 && t1 == 2),
        ChannelAssignment::MidSide => assert!(cfg.stereo_coding.use_midside && t0 == 3 && t1 == 4),
    }
    // C09: never worse than independent channels; and it is the cheapest enabled combination
    assert!(total <= bits_l + bits_r);
    if cfg.stereo_coding.use_midside {
        assert!(total <= ms_bits[0] + ms_bits[1]);
    }
    if cfg.stereo_coding.use_leftside {
        assert!(total <= bits_l + ms_bits[1]);
    }
    if cfg.stereo_coding.use_rightside {
        assert!(total <= bits_r + ms_bits[1]);
    }
    assert!(out.header().block_size() == 2);
    kani::cover!(*out.header().channel_assignment() == ChannelAssignment::MidSide);
    kani::cover!(*out.header().channel_assignment() == ChannelAssignment::RightSide);
    kani::cover!(if wide { l[0] == -(1 << 23) && r[0] == (1 << 23) - 1 } else { l[0] == -(1 << 15) && r[0] == (1 << 15) - 1 });
}

//@ unit props=C01,C09 tier=quick kind=bounded timeout=900 funcs="coding::try_stereo_coding; coding::recombine_stereo_frame; FrameBuf::fill_stereo_with_iter; ChannelAssignment::select_channels" stubs="encode_frame_impl -> some 2-subframe frame of arbitrary sizes, recording its input buffer" bound="widths 8/12/16; 2 samples per channel (the mid/side map is per-sample: complete in the sample values, every 8..24-bit width)"
#[kani::proof]
#[kani::unwind(10)]
#[kani::stub(std::fmt::format, stub_format)]
#[kani::stub(encode_frame_impl, contract_encode_frame_impl)]
fn c01_stereo_midside_and_selection() {
    c01_stereo_midside_and_selection_body(false);
}

//@ unit props=C01,C09 tier=quick kind=bounded timeout=900 funcs="coding::try_stereo_coding; coding::recombine_stereo_frame; FrameBuf::fill_stereo_with_iter; ChannelAssignment::select_channels" stubs="encode_frame_impl -> some 2-subframe frame of arbitrary sizes, recording its input buffer" bound="widths 20/24; 2 samples per channel (the mid/side map is per-sample: complete in the sample values, every 8..24-bit width)"
#[kani::proof]
#[kani::unwind(10)]
#[kani::stub(std::fmt::format, stub_format)]
#[kani::stub(encode_frame_impl, contract_encode_frame_impl)]
fn c01_stereo_midside_and_selection_wide() {
    c01_stereo_midside_and_selection_body(true);
}

// ================================================================================================
// C01/C02: the candidate builders hand CONSISTENT pieces to the subframe components
// (warm-up length == predictor order == number of residual samples skipped), with the numeric
// work replaced by callee contracts.
// ================================================================================================
static mut QLPC_ORDER: usize = 0;
static mut RESIDUAL_WARMUP_SEEN: usize = 0;
static mut RESIDUAL_LEN_SEEN: usize = 0;

fn contract_perform_qlpc(
    config: &config::SubFrameCoding,
    _signal: &[i32],
) -> heapless::Vec<f64, MAX_LPC_ORDER> {
    let mut v = heapless::Vec::new();
    let mut i = 0;
    while i < config.qlpc.lpc_order {
        v.push(0.5f64).unwrap();
        i += 1;
    }
    v
}

/// contract of `lpc::quantize_parameters` (agent unit c07_quantize_parameters_*): some parameters
/// with 1 <= order <= number of coefficients (trailing zero coefficients are dropped!).
fn contract_quantize_parameters<T: lpc::LpcFloat>(coefs: &[T], precision: usize) -> QuantizedParameters {
    let order: usize = kani::any();
    kani::assume(1 <= order && order <= coefs.len());
    unsafe {
        QLPC_ORDER = order;
    }
    let c = [1i16; MAX_LPC_ORDER];
    QuantizedParameters::from_parts(&c[0..order], order, 0, precision)
}

fn contract_compute_error(_qps: &QuantizedParameters, _signal: &[i32], _errors: &mut [i32]) {}

/// contract of `encode_residual` (Verus unit residual_partition): a Residual over the whole block
/// whose warm-up length is the one it was given.
fn contract_encode_residual(_config: &config::Prc, errors: &[i32], warmup_length: usize) -> Residual {
    unsafe {
        RESIDUAL_WARMUP_SEEN = warmup_length;
        RESIDUAL_LEN_SEEN = errors.len();
    }
    let mut r = residual_from_raw(0, 0, 0, vec![0], vec![0], vec![0]);
    crate::component::verif::set_block_and_warmup(&mut r, errors.len(), warmup_length);
    r
}

/// `estimated_qlpc`: the LPC subframe's order, its warm-up sample count and the residual's warm-up
/// length are all the EFFECTIVE order of the quantised parameters (which may be smaller than the
/// configured order), the warm-up samples are the first samples of the block, and the residual
/// covers the whole block.  Otherwise a decoder reads the residual from the wrong position.
//@ unit props=C01,C02 tier=quick kind=bounded timeout=900 funcs="coding::estimated_qlpc" stubs="perform_qlpc -> some coefficients; lpc::quantize_parameters -> parameters with 1 <= order <= configured order; lpc::compute_error -> (residual values not needed); encode_residual -> residual with the given warm-up over the whole block" bound="block 8, configured LPC order 1..=4"
#[kani::proof]
#[kani::unwind(34)]
#[kani::stub(std::fmt::format, stub_format)]
#[kani::stub(perform_qlpc, contract_perform_qlpc)]
#[kani::stub(lpc::quantize_parameters, contract_quantize_parameters)]
#[kani::stub(lpc::compute_error, contract_compute_error)]
#[kani::stub(encode_residual, contract_encode_residual)]
fn c01_estimated_qlpc_consistent() {
    let mut cfg = config::SubFrameCoding::default();
    let lpc_order: usize = kani::any();
    kani::assume(1 <= lpc_order && lpc_order <= 4);
    cfg.qlpc.lpc_order = lpc_order;
    let s: [i32; 8] = kani::any();
    let sf = estimated_qlpc(&cfg, &s, 16);
    let (order, warm_seen, len_seen) = unsafe { (QLPC_ORDER, RESIDUAL_WARMUP_SEEN, RESIDUAL_LEN_SEEN) };
    match sf {
        SubFrame::Lpc(l) => {
            assert!(l.order() == order);
            assert!(l.warm_up().len() == order);
            assert!(warm_seen == order);
            assert!(len_seen == 8);
            assert!(l.residual().warmup_length() == order && l.residual().block_size() == 8);
            let mut i = 0;
            while i < 4 {
                if i < order {
                    assert!(l.warm_up()[i] == s[i]);
                }
                i += 1;
            }
            assert!(l.bits_per_sample() == 16);
        }
        _ => assert!(false),
    }
    kani::cover!(order < lpc_order);
    kani::cover!(order == 4);
}

static mut EST_CALLS: usize = 0;

fn contract_reset_fixed_lpc_errors(_errors: &mut FixedLpcErrors, _signal: &[i32]) {
    // (the differencing itself: units c01_fixed_errors_* / c10_fixed_errors_dirty); the error
    // vectors stay empty here, the downstream contracts do not look at them.
}

/// contract of `estimate_entropy` (no-panic: agent unit c07_estimate_entropy_*): some estimate.
fn contract_estimate_entropy(_errors: &[i32], _warmup_len: usize, _partitions: usize) -> usize {
    unsafe {
        EST_CALLS += 1;
    }
    let v: usize = kani::any();
    kani::assume(v < (1 << 30));
    v
}

/// contract of `rice::find_partitioned_rice_parameter` (Verus prc_find): some parameter set.
fn contract_find_prc(_signal: &[i32], _warmup_length: usize, _max_p: usize) -> rice::PrcParameter {
    let bits: usize = kani::any();
    kani::assume(bits < (1 << 30));
    rice::PrcParameter::new(0, vec![0u8], bits)
}

fn contract_encode_residual_with_prc(
    _config: &config::Prc,
    errors: &[i32],
    warmup_length: usize,
    _prc_p: rice::PrcParameter,
) -> Residual {
    contract_encode_residual(_config, errors, warmup_length)
}

/// `fixed_lpc`: whichever order 0..=max_order is selected (by bit count or by entropy estimate),
/// the FIXED subframe's warm-up is the first `order` samples and the residual was encoded with
/// warm-up length `order` over the whole block; orders above `max_order` are never tried.
fn c01_fixed_lpc_body(bitcount: bool) {
    let mut cfg = config::SubFrameCoding::default();
    let max_order: usize = kani::any();
    kani::assume(max_order <= 4);
    cfg.fixed.max_order = max_order;
    cfg.fixed.order_sel = if bitcount {
        config::OrderSel::BitCount
    } else {
        config::OrderSel::ApproxEnt { partitions: 2 }
    };
    let s: [i32; 8] = kani::any();
    let baseline: usize = kani::any();
    let r = fixed_lpc(&cfg, &s, 16, baseline);
    let (warm_seen, len_seen) = unsafe { (RESIDUAL_WARMUP_SEEN, RESIDUAL_LEN_SEEN) };
    match r {
        Some(SubFrame::FixedLpc(f)) => {
            assert!(f.order() <= max_order);
            assert!(f.residual().warmup_length() == f.order());
            assert!(warm_seen == f.order());
            let mut i = 0;
            while i < 4 {
                if i < f.order() {
                    assert!(f.warm_up()[i] == s[i]);
                }
                i += 1;
            }
            assert!(f.bits_per_sample() == 16);
        }
        Some(_) => assert!(false),
        None => {}
    }
}

//@ unit props=C01,C07 tier=quick kind=bounded timeout=900 funcs="coding::fixed_lpc; coding::select_order_and_encode_residual" stubs="reset_fixed_lpc_errors -> buffers of the block length; estimate_entropy -> some estimate; rice::find_partitioned_rice_parameter -> some parameters; encode_residual[_with_prc_parameter] -> residual with the given warm-up over the whole block" bound="block 8"
#[kani::proof]
#[kani::unwind(34)]
#[kani::stub(std::fmt::format, stub_format)]
#[kani::stub(reset_fixed_lpc_errors, contract_reset_fixed_lpc_errors)]
#[kani::stub(estimate_entropy, contract_estimate_entropy)]
#[kani::stub(rice::find_partitioned_rice_parameter, contract_find_prc)]
#[kani::stub(encode_residual, contract_encode_residual)]
#[kani::stub(encode_residual_with_prc_parameter, contract_encode_residual_with_prc)]
fn c01_fixed_lpc_consistent() {
    c01_fixed_lpc_body(true);
    c01_fixed_lpc_body(false);
}
