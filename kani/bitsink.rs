// Harnesses for src/bitsink.rs (child module `bitsink::verif`).  C11 and the sink level of C08/C01.
//
// Contract proved for every operation `op` of both in-memory sinks, on an ARBITRARY well-formed
// state (arbitrary word contents, every bit offset, 0..=2 storage words):
//     wf(s)  ==>  wf(s') /\ bits(s') == bits(s) ++ spec_op(args) /\ len' == len + |spec_op(args)|
// where wf(s) := storage.len() == ceil(bitlength/W) and every bit past bitlength is zero, and the
// right-hand side is computed by the independent `Ideal` bit string of verif_support.

use super::seal_bits::Sealed as BitsSealed;

fn top_mask(n: usize) -> u64 {
    // mask keeping the n most significant bits of a u64 (0 <= n <= 64)
    if n == 0 {
        0
    } else if n >= 64 {
        u64::MAX
    } else {
        !(u64::MAX >> n)
    }
}

/// Arbitrary well-formed `MemSink<u64>` of a given SHAPE, with its ideal twin.
/// shape 0: the empty sink.  shape 2: two storage words `[a, b]` with bitlength 64+k, 1<=k<=64,
/// `a` and the k leading bits of `b` arbitrary (k == 64: word-aligned; k < 64: every bit offset).
/// A one-word state is the same code path as shape 2 with the prefix word removed (the sink only
/// ever touches `storage.last_mut()` and `push`); keeping the vector length concrete per shape is
/// what keeps symbolic execution tractable (DESIGN.md section 3).
pub(crate) fn any_sink64(shape: usize) -> (MemSink<u64>, Ideal) {
    let mut id = Ideal::new();
    if shape == 0 {
        return (
            MemSink {
                storage: Vec::new(),
                bitlength: 0,
            },
            id,
        );
    }
    let a: u64 = kani::any();
    let b: u64 = kani::any();
    let k: usize = kani::any();
    kani::assume(1 <= k && k <= 64);
    let b = b & top_mask(k);
    id.w[0] = a;
    id.w[1] = b;
    id.len = 64 + k;
    let mut storage = Vec::with_capacity(8);
    storage.push(a);
    storage.push(b);
    (
        MemSink {
            storage,
            bitlength: 64 + k,
        },
        id,
    )
}

/// Arbitrary well-formed `MemSink<u8>` of a given SHAPE (0: empty; 2: two bytes, bitlength 8+k,
/// 1<=k<=8), with its ideal twin.
pub(crate) fn any_sink8(shape: usize) -> (MemSink<u8>, Ideal) {
    let mut id = Ideal::new();
    if shape == 0 {
        return (
            MemSink {
                storage: Vec::new(),
                bitlength: 0,
            },
            id,
        );
    }
    let a: u8 = kani::any();
    let b: u8 = kani::any();
    let k: usize = kani::any();
    kani::assume(1 <= k && k <= 8);
    let b = b & (top_mask(k) >> 56) as u8;
    id.w[0] = ((a as u64) << 56) | ((b as u64) << 48);
    id.len = 8 + k;
    let mut storage = Vec::with_capacity(16);
    storage.push(a);
    storage.push(b);
    (
        MemSink {
            storage,
            bitlength: 8 + k,
        },
        id,
    )
}

/// Builds a `MemSink<u64>` directly from parts (test constructor for other modules).
pub(crate) fn sink64_from_parts(storage: Vec<u64>, bitlength: usize) -> MemSink<u64> {
    MemSink { storage, bitlength }
}
pub(crate) fn sink8_from_parts(storage: Vec<u8>, bitlength: usize) -> MemSink<u8> {
    MemSink { storage, bitlength }
}

/// wf(s) /\ bits(s) == ideal, for the word sink.
pub(crate) fn check64(s: &MemSink<u64>, id: &Ideal) {
    assert!(s.bitlength == id.len);
    assert!(s.storage.len() == id.words());
    let mut i = 0;
    while i < IDEAL_WORDS {
        if i < s.storage.len() {
            assert!(s.storage[i] == id.w[i]);
        }
        i += 1;
    }
}

/// wf(s) /\ bits(s) == ideal, for the byte sink (up to `maxbytes` bytes compared).
pub(crate) fn check8(s: &MemSink<u8>, id: &Ideal, maxbytes: usize) {
    assert!(s.bitlength == id.len);
    assert!(s.storage.len() == id.bytes());
    assert!(s.storage.len() <= maxbytes);
    let mut i = 0;
    while i < maxbytes {
        if i < s.storage.len() {
            assert!(s.storage[i] == id.byte(i));
        }
        i += 1;
    }
}

fn left_align<T: Bits>(v: T) -> u64 {
    let v64: u64 = v.into();
    v64 << (64 - <T as BitsSealed>::BITS)
}

// ---- generic bodies ----------------------------------------------------------------------------

fn body64_msbs<T: Bits + kani::Arbitrary>(shape: usize) {
    let (mut s, mut id) = any_sink64(shape);
    let v: T = kani::any();
    let n: usize = kani::any();
    kani::assume(n <= <T as BitsSealed>::BITS);
    assert!(s.write_msbs(v, n).is_ok());
    id.push_msbs(left_align(v), n);
    check64(&s, &id);
    if shape == 2 {
        kani::cover!(n == 0);
        kani::cover!(n == <T as BitsSealed>::BITS && s.storage.len() == 3);
    }
}

fn body64_lsbs<T: Bits + kani::Arbitrary>(shape: usize) {
    let (mut s, mut id) = any_sink64(shape);
    let v: T = kani::any();
    let n: usize = kani::any();
    kani::assume(n <= <T as BitsSealed>::BITS);
    assert!(s.write_lsbs(v, n).is_ok());
    let v64: u64 = v.into();
    id.push_lsbs(v64, n);
    check64(&s, &id);
    if shape == 2 {
        kani::cover!(n == 0);
        kani::cover!(n == <T as BitsSealed>::BITS && s.storage.len() == 3);
    }
}

fn body64_write<T: Bits + kani::Arbitrary>(shape: usize) {
    let (mut s, mut id) = any_sink64(shape);
    let v: T = kani::any();
    assert!(s.write(v).is_ok());
    id.push_msbs(left_align(v), <T as BitsSealed>::BITS);
    check64(&s, &id);
    if shape == 2 {
        kani::cover!(s.storage.len() == 3);
    }
}

fn body8_msbs<T: Bits + kani::Arbitrary>(shape: usize) {
    let (mut s, mut id) = any_sink8(shape);
    let v: T = kani::any();
    let n: usize = kani::any();
    kani::assume(n <= <T as BitsSealed>::BITS);
    assert!(s.write_msbs(v, n).is_ok());
    id.push_msbs(left_align(v), n);
    check8(&s, &id, 10);
    if shape == 2 {
        kani::cover!(n == 0);
        kani::cover!(n == <T as BitsSealed>::BITS && id.len % 8 != 0);
    }
}

fn body8_lsbs<T: Bits + kani::Arbitrary>(shape: usize) {
    let (mut s, mut id) = any_sink8(shape);
    let v: T = kani::any();
    let n: usize = kani::any();
    kani::assume(n <= <T as BitsSealed>::BITS);
    assert!(s.write_lsbs(v, n).is_ok());
    let v64: u64 = v.into();
    id.push_lsbs(v64, n);
    check8(&s, &id, 10);
    if shape == 2 {
        kani::cover!(n == 0);
        kani::cover!(n == <T as BitsSealed>::BITS && id.len % 8 != 0);
    }
}

fn body8_write<T: Bits + kani::Arbitrary>(shape: usize) {
    let (mut s, mut id) = any_sink8(shape);
    let v: T = kani::any();
    assert!(s.write(v).is_ok());
    id.push_msbs(left_align(v), <T as BitsSealed>::BITS);
    check8(&s, &id, 10);
    if shape == 2 {
        kani::cover!(id.len % 8 != 0);
    }
}

macro_rules! sink_harness {
    ($name:ident, $body:ident, $t:ty, $unwind:expr) => {
        #[kani::proof]
        #[kani::unwind($unwind)]
        fn $name() {
            $body::<$t>(0);
            $body::<$t>(2);
        }
    };
}

//@ unit name=s64_msbs_u8 props=C11 tier=quick kind=complete timeout=600 funcs="MemSink<u64>::write_msbs; MemSink<u64>::write_msbs_impl"
//@ unit name=s64_msbs_u16 props=C11 tier=thorough kind=complete timeout=600 funcs="MemSink<u64>::write_msbs; MemSink<u64>::write_msbs_impl"
//@ unit name=s64_msbs_u32 props=C11,C08 tier=quick kind=complete timeout=600 funcs="MemSink<u64>::write_msbs; MemSink<u64>::write_msbs_impl"
//@ unit name=s64_msbs_u64 props=C11 tier=quick kind=complete timeout=600 funcs="MemSink<u64>::write_msbs; MemSink<u64>::write_msbs_impl"
sink_harness!(s64_msbs_u8, body64_msbs, u8, 10);
sink_harness!(s64_msbs_u16, body64_msbs, u16, 10);
sink_harness!(s64_msbs_u32, body64_msbs, u32, 10);
sink_harness!(s64_msbs_u64, body64_msbs, u64, 10);

//@ unit name=s64_lsbs_u8 props=C11,C08 tier=quick kind=complete timeout=600 funcs="MemSink<u64>::write_lsbs; MemSink<u64>::write_msbs_impl"
//@ unit name=s64_lsbs_u16 props=C11 tier=thorough kind=complete timeout=600 funcs="MemSink<u64>::write_lsbs; MemSink<u64>::write_msbs_impl"
//@ unit name=s64_lsbs_u32 props=C11 tier=quick kind=complete timeout=600 funcs="MemSink<u64>::write_lsbs; MemSink<u64>::write_msbs_impl"
//@ unit name=s64_lsbs_u64 props=C11 tier=quick kind=complete timeout=600 funcs="MemSink<u64>::write_lsbs; MemSink<u64>::write_msbs_impl"
sink_harness!(s64_lsbs_u8, body64_lsbs, u8, 10);
sink_harness!(s64_lsbs_u16, body64_lsbs, u16, 10);
sink_harness!(s64_lsbs_u32, body64_lsbs, u32, 10);
sink_harness!(s64_lsbs_u64, body64_lsbs, u64, 10);

//@ unit name=s64_write_u8 props=C11,C08 tier=quick kind=complete timeout=600 funcs="MemSink<u64>::write"
//@ unit name=s64_write_u16 props=C11 tier=thorough kind=complete timeout=600 funcs="MemSink<u64>::write"
//@ unit name=s64_write_u32 props=C11 tier=thorough kind=complete timeout=600 funcs="MemSink<u64>::write"
//@ unit name=s64_write_u64 props=C11 tier=quick kind=complete timeout=600 funcs="MemSink<u64>::write"
sink_harness!(s64_write_u8, body64_write, u8, 10);
sink_harness!(s64_write_u16, body64_write, u16, 10);
sink_harness!(s64_write_u32, body64_write, u32, 10);
sink_harness!(s64_write_u64, body64_write, u64, 10);

//@ unit name=s8_msbs_u8 props=C11 tier=quick kind=complete timeout=600 funcs="MemSink<u8>::write_msbs"
//@ unit name=s8_msbs_u16 props=C11 tier=thorough kind=complete timeout=600 funcs="MemSink<u8>::write_msbs"
//@ unit name=s8_msbs_u32 props=C11,C08 tier=quick kind=complete timeout=600 funcs="MemSink<u8>::write_msbs"
//@ unit name=s8_msbs_u64 props=C11 tier=quick kind=complete timeout=600 funcs="MemSink<u8>::write_msbs"
sink_harness!(s8_msbs_u8, body8_msbs, u8, 12);
sink_harness!(s8_msbs_u16, body8_msbs, u16, 12);
sink_harness!(s8_msbs_u32, body8_msbs, u32, 12);
sink_harness!(s8_msbs_u64, body8_msbs, u64, 12);

//@ unit name=s8_lsbs_u8 props=C11,C08 tier=quick kind=complete timeout=600 funcs="MemSink<u8>::write_lsbs; MemSink<u8>::write_msbs"
//@ unit name=s8_lsbs_u16 props=C11 tier=thorough kind=complete timeout=600 funcs="MemSink<u8>::write_lsbs; MemSink<u8>::write_msbs"
//@ unit name=s8_lsbs_u32 props=C11 tier=quick kind=complete timeout=600 funcs="MemSink<u8>::write_lsbs; MemSink<u8>::write_msbs"
//@ unit name=s8_lsbs_u64 props=C11 tier=quick kind=complete timeout=600 funcs="MemSink<u8>::write_lsbs; MemSink<u8>::write_msbs"
sink_harness!(s8_lsbs_u8, body8_lsbs, u8, 12);
sink_harness!(s8_lsbs_u16, body8_lsbs, u16, 12);
sink_harness!(s8_lsbs_u32, body8_lsbs, u32, 12);
sink_harness!(s8_lsbs_u64, body8_lsbs, u64, 12);

//@ unit name=s8_write_u8 props=C11,C08 tier=quick kind=complete timeout=600 funcs="MemSink<u8>::write"
//@ unit name=s8_write_u16 props=C11 tier=thorough kind=complete timeout=600 funcs="MemSink<u8>::write"
//@ unit name=s8_write_u32 props=C11 tier=thorough kind=complete timeout=600 funcs="MemSink<u8>::write"
//@ unit name=s8_write_u64 props=C11 tier=quick kind=complete timeout=600 funcs="MemSink<u8>::write"
sink_harness!(s8_write_u8, body8_write, u8, 12);
sink_harness!(s8_write_u16, body8_write, u16, 12);
sink_harness!(s8_write_u32, body8_write, u32, 12);
sink_harness!(s8_write_u64, body8_write, u64, 12);

// ---- two's complement fields (trait default `write_twoc`) ---------------------------------------
// spec: the `bits` low bits of the value (two's complement truncation), 1 <= bits <= 64.

//@ unit props=C11,C01,C08 tier=quick kind=complete timeout=600 funcs="BitSink::write_twoc (default); MemSink<u64>::write_msbs"
#[kani::proof]
#[kani::unwind(10)]
fn s64_twoc_i32() {
    s64_twoc_i32_body(0);
    s64_twoc_i32_body(2);
}
fn s64_twoc_i32_body(shape: usize) {
    let (mut s, mut id) = any_sink64(shape);
    let v: i32 = kani::any();
    let bits: usize = kani::any();
    kani::assume(1 <= bits && bits <= 64);
    assert!(s.write_twoc(v, bits).is_ok());
    id.push_twoc(v as i64, bits);
    check64(&s, &id);
    kani::cover!(v < 0 && bits == 25);
}

//@ unit props=C11 tier=thorough kind=complete timeout=600 funcs="BitSink::write_twoc (default); MemSink<u64>::write_msbs"
#[kani::proof]
#[kani::unwind(10)]
fn s64_twoc_i64_i16_i8() {
    s64_twoc_i64_i16_i8_body(0);
    s64_twoc_i64_i16_i8_body(2);
}
fn s64_twoc_i64_i16_i8_body(shape: usize) {
    let (mut s, mut id) = any_sink64(shape);
    let bits: usize = kani::any();
    kani::assume(1 <= bits && bits <= 64);
    let which: u8 = kani::any();
    let v: i64 = kani::any();
    if which == 0 {
        assert!(s.write_twoc(v, bits).is_ok());
        id.push_twoc(v, bits);
    } else if which == 1 {
        assert!(s.write_twoc(v as i16, bits).is_ok());
        id.push_twoc((v as i16) as i64, bits);
    } else {
        assert!(s.write_twoc(v as i8, bits).is_ok());
        id.push_twoc((v as i8) as i64, bits);
    }
    check64(&s, &id);
    kani::cover!(which == 1 && v < 0);
}

//@ unit props=C11,C01,C08 tier=quick kind=complete timeout=600 funcs="BitSink::write_twoc (default); MemSink<u8>::write_msbs"
#[kani::proof]
#[kani::unwind(12)]
fn s8_twoc_i32() {
    s8_twoc_i32_body(0);
    s8_twoc_i32_body(2);
}
fn s8_twoc_i32_body(shape: usize) {
    let (mut s, mut id) = any_sink8(shape);
    let v: i32 = kani::any();
    let bits: usize = kani::any();
    kani::assume(1 <= bits && bits <= 64);
    assert!(s.write_twoc(v, bits).is_ok());
    id.push_twoc(v as i64, bits);
    check8(&s, &id, 10);
    kani::cover!(v < 0 && bits == 25);
}

//@ unit props=C11 tier=thorough kind=complete timeout=600 funcs="BitSink::write_twoc (default); MemSink<u8>::write_msbs"
#[kani::proof]
#[kani::unwind(12)]
fn s8_twoc_i64_i16_i8() {
    s8_twoc_i64_i16_i8_body(0);
    s8_twoc_i64_i16_i8_body(2);
}
fn s8_twoc_i64_i16_i8_body(shape: usize) {
    let (mut s, mut id) = any_sink8(shape);
    let bits: usize = kani::any();
    kani::assume(1 <= bits && bits <= 64);
    let which: u8 = kani::any();
    let v: i64 = kani::any();
    if which == 0 {
        assert!(s.write_twoc(v, bits).is_ok());
        id.push_twoc(v, bits);
    } else if which == 1 {
        assert!(s.write_twoc(v as i16, bits).is_ok());
        id.push_twoc((v as i16) as i64, bits);
    } else {
        assert!(s.write_twoc(v as i8, bits).is_ok());
        id.push_twoc((v as i8) as i64, bits);
    }
    check8(&s, &id, 10);
    kani::cover!(which == 1 && v < 0);
}

// ---- zero runs ----------------------------------------------------------------------------------

//@ unit props=C11,C08 tier=quick kind=complete timeout=600 funcs="MemSink<u64>::write_zeros" bound="run length 0..=130 bits, complete in offset and contents; the word-count arithmetic for every n is unit s64_zeros_arith_all_n, longer runs rest on Vec::resize"
#[kani::proof]
#[kani::unwind(10)]
fn s64_zeros() {
    s64_zeros_body(0);
    s64_zeros_body(2);
}
fn s64_zeros_body(shape: usize) {
    let (mut s, mut id) = any_sink64(shape);
    let n: usize = kani::any();
    kani::assume(n <= 130);
    assert!(s.write_zeros(n).is_ok());
    id.push_zeros(n);
    check64(&s, &id);
    kani::cover!(n == 0);
    kani::cover!(n == 130 && s.storage.len() == 5);
}

/// The length arithmetic of `MemSink<u64>::write_zeros` for EVERY n (loop-free obligation):
/// the number of appended words equals ceil(new_len/64) - ceil(old_len/64).
//@ unit props=C11 tier=quick kind=complete timeout=300 funcs="MemSink<u64>::write_zeros (length arithmetic)"
#[kani::proof]
#[kani::unwind(4)]
fn s64_zeros_arith_all_n() {
    let len: usize = kani::any();
    let n: usize = kani::any();
    kani::assume(len <= (1usize << 40) && n <= (1usize << 40));
    // the statements of write_zeros, on the two numbers it manipulates
    let pad = ((!len).wrapping_add(1)) & 63;
    let n2 = n.saturating_sub(pad);
    let elems = (n2 + 63) >> 6;
    let before = (len + 63) / 64;
    let after = (len + n + 63) / 64;
    assert!(before + elems == after);
}

//@ unit props=C11,C08 tier=quick kind=complete timeout=600 funcs="MemSink<u8>::write_zeros" bound="run length 0..=64 bits (complete in offset and contents; longer runs rest on Vec::resize)"
#[kani::proof]
#[kani::unwind(12)]
fn s8_zeros() {
    s8_zeros_body(0);
    s8_zeros_body(2);
}
fn s8_zeros_body(shape: usize) {
    let (mut s, mut id) = any_sink8(shape);
    let n: usize = kani::any();
    kani::assume(n <= 64);
    assert!(s.write_zeros(n).is_ok());
    id.push_zeros(n);
    check8(&s, &id, 10);
    kani::cover!(n == 0);
    kani::cover!(n == 64 && s.storage.len() == 10);
}

// ---- alignment and aligned byte slices -----------------------------------------------------------

//@ unit props=C11,C08 tier=quick kind=complete timeout=600 funcs="MemSink<u64>::align_to_byte; MemSink<u64>::write_bytes_aligned" bound="slice lengths 0 and 2 (per-byte loop, byte values and sink state arbitrary)"
#[kani::proof]
#[kani::unwind(10)]
fn s64_align_and_bytes() {
    s64_align_and_bytes_body(0, 0);
    s64_align_and_bytes_body(0, 2);
    s64_align_and_bytes_body(2, 0);
    s64_align_and_bytes_body(2, 2);
}
fn s64_align_and_bytes_body(shape: usize, nb: usize) {
    let (mut s, mut id) = any_sink64(shape);
    let bytes: [u8; 2] = kani::any();
    let r = s.write_bytes_aligned(&bytes[0..nb]);
    let pad = id.align();
    assert!(r.is_ok());
    assert!(r.unwrap_or(usize::MAX) == pad);
    let mut i = 0;
    while i < nb {
        id.push_msbs((bytes[i] as u64) << 56, 8);
        i += 1;
    }
    check64(&s, &id);
    assert!(s.bitlength % 8 == 0);
    if shape == 2 && nb == 2 {
        kani::cover!(pad == 7);
        kani::cover!(pad == 0);
    }
}

/// Long aligned slices (a whole storage word of payload plus a tail): 9 bytes onto an arbitrary
/// two-word state - in particular a cursor that is byte-aligned but sits INSIDE a partly filled word,
/// where a word-wise fast path must not start a new word.
//@ unit props=C11,C08,C02 tier=quick kind=complete timeout=1500 funcs="MemSink<u64>::write_bytes_aligned" bound="slice length 9 onto 64+8 and 64+40 bits (byte-aligned inside a word); word contents and byte values arbitrary"
#[kani::proof]
#[kani::unwind(12)]
fn s64_bytes_aligned_long() {
    s64_bytes_aligned_long_body(1);
    s64_bytes_aligned_long_body(5);
}
/// a cursor that is byte-aligned but INSIDE the second word: 64 + 8*j bits (j concrete per call)
fn s64_bytes_aligned_long_body(j: usize) {
    let a: u64 = kani::any();
    let b: u64 = kani::any();
    let b = b & top_mask(8 * j);
    let mut id = Ideal::new();
    id.w[0] = a;
    id.w[1] = b;
    id.len = 64 + 8 * j;
    let mut storage = Vec::with_capacity(8);
    storage.push(a);
    storage.push(b);
    let mut s = MemSink { storage, bitlength: 64 + 8 * j };
    let bytes: [u8; 9] = kani::any();
    let r = s.write_bytes_aligned(&bytes);
    assert!(r.is_ok() && r.unwrap_or(usize::MAX) == 0);
    let mut i = 0;
    while i < 9 {
        id.push_msbs((bytes[i] as u64) << 56, 8);
        i += 1;
    }
    check64(&s, &id);
    kani::cover!(bytes[8] == 0xA5);
}

//@ unit props=C11,C08 tier=quick kind=complete timeout=900 funcs="MemSink<u8>::write_bytes_aligned" bound="slice length 9 (byte values and sink state arbitrary)"
#[kani::proof]
#[kani::unwind(16)]
fn s8_bytes_aligned_long() {
    let (mut s, mut id) = any_sink8(2);
    let bytes: [u8; 9] = kani::any();
    let r = s.write_bytes_aligned(&bytes);
    let pad = id.align();
    assert!(r.is_ok() && r.unwrap_or(usize::MAX) == pad);
    let mut i = 0;
    while i < 9 {
        id.push_msbs((bytes[i] as u64) << 56, 8);
        i += 1;
    }
    check8(&s, &id, 12);
}

//@ unit props=C11,C08 tier=quick kind=complete timeout=600 funcs="MemSink<u8>::align_to_byte; MemSink<u8>::write_bytes_aligned" bound="slice lengths 0 and 2 (extend_from_slice, byte values and sink state arbitrary)"
#[kani::proof]
#[kani::unwind(12)]
fn s8_align_and_bytes() {
    s8_align_and_bytes_body(0, 0);
    s8_align_and_bytes_body(0, 2);
    s8_align_and_bytes_body(2, 0);
    s8_align_and_bytes_body(2, 2);
}
fn s8_align_and_bytes_body(shape: usize, nb: usize) {
    let (mut s, mut id) = any_sink8(shape);
    let bytes: [u8; 2] = kani::any();
    let r = s.write_bytes_aligned(&bytes[0..nb]);
    let pad = id.align();
    assert!(r.is_ok());
    assert!(r.unwrap_or(usize::MAX) == pad);
    let mut i = 0;
    while i < nb {
        id.push_msbs((bytes[i] as u64) << 56, 8);
        i += 1;
    }
    check8(&s, &id, 10);
    assert!(s.bitlength % 8 == 0);
    if shape == 2 && nb == 2 {
        kani::cover!(pad == 7);
        kani::cover!(pad == 0);
    }
}

//@ unit props=C11 tier=quick kind=complete timeout=600 funcs="MemSink<u64>::align_to_byte; MemSink<u8>::align_to_byte"
#[kani::proof]
#[kani::unwind(10)]
fn s_align_only() {
    let (mut s, mut id) = any_sink64(2);
    let r = s.align_to_byte();
    let pad = id.align();
    assert!(r.is_ok());
    assert!(r.unwrap_or(usize::MAX) == pad);
    check64(&s, &id);
    let (mut s, mut id) = any_sink8(2);
    let r = s.align_to_byte();
    let pad = id.align();
    assert!(r.is_ok());
    assert!(r.unwrap_or(usize::MAX) == pad);
    check8(&s, &id, 4);
}

// ---- byte export ---------------------------------------------------------------------------------
// `write_to_byte_slice` of the word sink == big-endian bytes of the ideal string, also into a
// destination shorter than the storage; `clear`/`len`/`is_empty`.

//@ unit props=C11,C08 tier=quick kind=complete timeout=600 funcs="MemSink<u64>::write_to_byte_slice; MemSink::clear; MemSink::len"
#[kani::proof]
#[kani::unwind(26)]
fn s64_export() {
    s64_export_body(0);
    s64_export_body(2);
}
fn s64_export_body(shape: usize) {
    let (mut s, id) = any_sink64(shape);
    let dl: usize = kani::any();
    // the destination holds at least every written byte (this is how the crate calls it:
    // `bytebuf.resize(frame_sink.len() >> 3)` after alignment); it may be shorter or longer than
    // the storage rounded up to whole words.
    kani::assume(dl <= 24 && dl >= id.bytes());
    let mut dest = [0xAAu8; 24];
    s.write_to_byte_slice(&mut dest[0..dl]);
    let covered = if dl < s.storage.len() * 8 { dl } else { s.storage.len() * 8 };
    let mut i = 0;
    while i < 24 {
        if i < covered {
            assert!(dest[i] == id.byte(i));
        } else {
            assert!(dest[i] == 0xAA);
        }
        i += 1;
    }
    assert!(s.len() == id.len);
    assert!(s.is_empty() == (id.len == 0));
    s.clear();
    assert!(s.len() == 0 && s.storage.is_empty());
    kani::cover!(dl == 13);
    kani::cover!(dl == 20);
}

/// The word `Residual::write` hands to `write_msbs` for a Rice code: the p+1 leading bits of
/// ((r | 2^p) << (31 - p)) are a one followed by the p bits of r, and nothing else is set - so that
/// "q zeros ++ these p+1 bits" is the RFC 9639 Rice code (Verus unit residual_write states the
/// writer in terms of this word).  Every p <= 14 and r < 2^p, on both sinks' ideal string.
//@ unit props=C01,C02 tier=quick kind=complete timeout=300 funcs="<Residual as BitRepr>::write (Rice code word)" note="word identity, loop-free: complete"
#[kani::proof]
#[kani::unwind(4)]
fn c01_rice_code_word() {
    let p: u8 = kani::any();
    kani::assume(p <= 14);
    let r: u32 = kani::any();
    kani::assume(r < (1u32 << p));
    let startbit: u32 = 1u32 << p;
    let n: usize = (p + 1) as usize;
    let word = (r | startbit) << (32 - n);
    // its n leading bits, read as a number, are 2^p + r; all lower bits are zero
    assert!(word >> (32 - n) == (1u32 << p) + r);
    assert!(word & ((1u32 << (32 - n)) - 1) == 0);
    let mut a = Ideal::new();
    a.push_msbs((word as u64) << 32, n);
    let mut b = Ideal::new();
    b.push_lsbs(1, 1);
    b.push_lsbs(r as u64, p as usize);
    assert!(a.len == b.len && a.w[0] == b.w[0]);
    kani::cover!(p == 0);
    kani::cover!(p == 14 && r == (1 << 14) - 1);
}

/// Bit-string algebra used by the Verus unit parser_residual_inverse: a 6-bit field holding v < 16
/// (the writer's `write_lsbs(order, 6)`) is the two bits 00 followed by the 4-bit field (what the
/// parser reads as coding method and partition order); and any field is its high part followed by
/// its low part.
//@ unit props=C15 tier=quick kind=complete timeout=300 funcs="Ideal::push_lsbs (specification algebra)" note="about the specification's bit strings, loop-free: complete"
#[kani::proof]
#[kani::unwind(4)]
fn c15_lsbs_split() {
    let v: u64 = kani::any();
    kani::assume(v < 16);
    let mut a = Ideal::new();
    a.push_lsbs(v, 6);
    let mut b = Ideal::new();
    b.push_lsbs(0, 2);
    b.push_lsbs(v, 4);
    assert!(a.len == b.len && a.w[0] == b.w[0]);
    let x: u64 = kani::any();
    let n: usize = kani::any();
    let k: usize = kani::any();
    kani::assume(1 <= k && k < n && n <= 32);
    kani::assume(x < (1u64 << n));
    let mut c = Ideal::new();
    c.push_lsbs(x, n);
    let mut d = Ideal::new();
    d.push_lsbs(x >> k, n - k);
    d.push_lsbs(x & ((1u64 << k) - 1), k);
    assert!(c.len == d.len && c.w[0] == d.w[0]);
    kani::cover!(v == 15);
    kani::cover!(n == 32 && k == 1);
}

/// Byte-sink constructors / exports used by `Frame::precompute_bitstream` (Verus unit
/// frame_precompute): `with_capacity(n)` is the EMPTY sink for every n that can be allocated;
/// `into_inner` / `as_slice` of a sink whose length is a whole number of bytes are exactly the
/// big-endian bytes of its ideal bit string; `reserve` changes nothing observable.
//@ unit props=C11,C08 tier=quick kind=complete timeout=600 funcs="MemSink<u8>::with_capacity; MemSink::into_inner; MemSink::as_slice; MemSink::reserve; MemSink::is_empty"
#[kani::proof]
#[kani::unwind(10)]
fn s8_with_capacity_into_inner() {
    let cap: usize = kani::any();
    kani::assume(cap <= 4096);
    let e = MemSink::<u8>::with_capacity(cap);
    assert!(e.len() == 0 && e.is_empty() && e.as_slice().is_empty());
    let (mut s, mut id) = any_sink8(2);
    let extra: usize = kani::any();
    kani::assume(extra <= 64);
    s.reserve(extra);
    check8(&s, &id, 4);
    assert!(s.align_to_byte().is_ok());
    id.align();
    check8(&s, &id, 4);
    let n = id.bytes();
    assert!(s.as_slice().len() == n);
    let v = s.into_inner();
    assert!(v.len() == n && n == 2);
    assert!(v[0] == id.byte(0) && v[1] == id.byte(1));
    kani::cover!(cap == 0);
    kani::cover!(cap == 4096 && extra == 64);
}

// ---- default trait methods on a minimal user sink -----------------------------------------------
// `SpecSink` implements only the four required operations, directly on the ideal bit string.  The
// default `write_bytes_aligned`, `write_twoc`, `write_zeros` must then deliver the spec bits.  It is
// also the abstract sink into which other modules' units serialise components (C02/C08/C12).

#[derive(Debug, Clone, PartialEq, Eq)]
pub(crate) struct SpecSinkError;
impl std::fmt::Display for SpecSinkError {
    fn fmt(&self, f: &mut std::fmt::Formatter<'_>) -> std::fmt::Result {
        f.write_str("SpecSinkError")
    }
}
impl std::error::Error for SpecSinkError {}

pub(crate) struct SpecSink {
    pub id: Ideal,
    /// number of primitive operations performed so far
    pub ops: usize,
    /// the sink reports an error on its `fail_at`-th primitive operation (1-based); 0 = never.
    pub fail_at: usize,
}

impl SpecSink {
    pub(crate) fn new() -> Self {
        Self {
            id: Ideal::new(),
            ops: 0,
            fail_at: 0,
        }
    }
    pub(crate) fn failing_at(k: usize) -> Self {
        Self {
            id: Ideal::new(),
            ops: 0,
            fail_at: k,
        }
    }
    fn tick(&mut self) -> Result<(), SpecSinkError> {
        self.ops += 1;
        if self.fail_at != 0 && self.ops >= self.fail_at {
            Err(SpecSinkError)
        } else {
            Ok(())
        }
    }
}

impl BitSink for SpecSink {
    type Error = SpecSinkError;
    fn align_to_byte(&mut self) -> Result<usize, Self::Error> {
        self.tick()?;
        Ok(self.id.align())
    }
    fn write_lsbs<T: Bits>(&mut self, val: T, n: usize) -> Result<(), Self::Error> {
        self.tick()?;
        assert!(n <= <T as BitsSealed>::BITS); // a caller asking for more bits than the type has is a bug
        let v64: u64 = val.into();
        self.id.push_lsbs(v64, n);
        Ok(())
    }
    fn write_msbs<T: Bits>(&mut self, val: T, n: usize) -> Result<(), Self::Error> {
        self.tick()?;
        assert!(n <= <T as BitsSealed>::BITS);
        self.id.push_msbs(left_align(val), n);
        Ok(())
    }
    fn write<T: Bits>(&mut self, val: T) -> Result<(), Self::Error> {
        self.tick()?;
        self.id.push_msbs(left_align(val), <T as BitsSealed>::BITS);
        Ok(())
    }
}

//@ unit props=C11 tier=quick kind=complete timeout=600 funcs="BitSink::write_bytes_aligned (default); BitSink::write_twoc (default); BitSink::write_zeros (default)" bound="zero run 0..=200 bits"
#[kani::proof]
#[kani::unwind(10)]
fn user_sink_defaults() {
    let mut s = SpecSink::new();
    let mut id = Ideal::new();
    let pre: u8 = kani::any();
    let pn: usize = kani::any();
    kani::assume(pn <= 8);
    assert!(s.write_msbs(pre, pn).is_ok());
    id.push_msbs((pre as u64) << 56, pn);

    let bytes: [u8; 2] = kani::any();
    let r = s.write_bytes_aligned(&bytes);
    let pad = id.align();
    assert!(r.is_ok());
    assert!(r.unwrap_or(usize::MAX) == pad);
    id.push_msbs((bytes[0] as u64) << 56, 8);
    id.push_msbs((bytes[1] as u64) << 56, 8);

    let v: i32 = kani::any();
    let bits: usize = kani::any();
    kani::assume(1 <= bits && bits <= 32);
    assert!(s.write_twoc(v, bits).is_ok());
    id.push_twoc(v as i64, bits);

    let z: usize = kani::any();
    kani::assume(z <= 200);
    assert!(s.write_zeros(z).is_ok());
    id.push_zeros(z);

    assert!(s.id.len == id.len);
    let mut i = 0;
    while i < IDEAL_WORDS {
        assert!(s.id.w[i] == id.w[i]);
        i += 1;
    }
    kani::cover!(z == 200 && pn == 3);
}

// ---- C10: scratch sinks ---------------------------------------------------------------------------
/// `clear()` turns ANY well-formed sink into the empty sink (HEADER_CRC_BUFFER / FRAME_CRC_BUFFER
/// are cleared before every use, so header and frame serialisation start from the state the C02 /
/// C08 units assume).
//@ unit props=C10,C11 tier=quick kind=complete timeout=300 funcs="MemSink<u8>::clear; MemSink<u64>::clear"
#[kani::proof]
#[kani::unwind(12)]
fn c10_sink_clear() {
    let (mut s, _id) = any_sink8(2);
    s.clear();
    assert!(s.bitlength == 0 && s.storage.is_empty() && s.len() == 0 && s.is_empty());
    let mut id = Ideal::new();
    assert!(s.write_lsbs(0x5u8, 3).is_ok());
    id.push_lsbs(0x5, 3);
    check8(&s, &id, 4);
    let (mut s, _id) = any_sink64(2);
    s.clear();
    assert!(s.bitlength == 0 && s.storage.is_empty());
    let mut id = Ideal::new();
    assert!(s.write_lsbs(0x5u8, 3).is_ok());
    id.push_lsbs(0x5, 3);
    check64(&s, &id);
}
