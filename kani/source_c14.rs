// Harnesses for src/source.rs, property C14 (child module `source::verif_c14`).
//
// C14 for the frame buffer: delivering a block as i32 samples (`fill_interleaved`) or as packed
// little-endian bytes (`fill_le_bytes`) makes the same samples visible.  The MD5 / sample-count
// half of C14 (`Context`) is the Verus unit `context_fill`; its byte-level specification
// `to_le_bytes(v)[k] == (v >> 8k) as u8` is the Kani unit `arrayutils::verif::le_bytes_spec`.

use crate::source::verif::framebuf_from_parts;

/// Largest shape used below: 8 channels x capacity 3, or 2 x 3 etc.
const C14_MAX: usize = 24;

/// Packed little-endian form of `x` with `bps` bytes per sample, written from the specification
/// (byte k of a sample = bits 8k..8k+7 of its two's complement pattern), not with crate code.
fn c14_bytes_of(x: &[i32; C14_MAX], bps: usize) -> [u8; 4 * C14_MAX] {
    let mut out = [0u8; 4 * C14_MAX];
    let mut i = 0;
    while i < C14_MAX {
        let mut k = 0;
        while k < bps {
            out[i * bps + k] = ((x[i] as u32) >> (8 * k)) as u8;
            k += 1;
        }
        i += 1;
    }
    out
}

/// `n` symbolic samples that fit in `bps` bytes (the property's domain: the byte form matches the
/// sample width); remaining entries are zero.
fn c14_any_samples(n: usize, bps: usize) -> [i32; C14_MAX] {
    let mut x = [0i32; C14_MAX];
    let mut i = 0;
    while i < n {
        let v: i32 = kani::any();
        kani::assume(spec_fits(v as i64, 8 * bps));
        x[i] = v;
        i += 1;
    }
    x
}

/// A frame buffer of `ch` x `cap` with arbitrary stale samples, an arbitrary previous fill length
/// and an arbitrary stale conversion scratch of `scratch` elements (= any call history).
fn c14_dirty_framebuf(ch: usize, cap: usize, scratch: usize) -> FrameBuf {
    let stale: [i32; C14_MAX] = kani::any();
    let filled: usize = kani::any();
    kani::assume(filled <= cap);
    let mut fb = framebuf_from_parts(stale[0..ch * cap].to_vec(), cap, filled);
    let stale_scratch: [i32; C14_MAX] = kani::any();
    fb.readbuf = stale_scratch[0..scratch].to_vec();
    fb
}

/// One block of `n` inter-channel samples delivered both ways into two differently dirty buffers.
fn c14_fill_equiv_case(ch: usize, bps: usize, cap: usize, n: usize) {
    let x = c14_any_samples(ch * n, bps);
    let bytes = c14_bytes_of(&x, bps);
    let mut fa = c14_dirty_framebuf(ch, cap, 0);
    let mut fb = c14_dirty_framebuf(ch, cap, ch * cap);
    let ra = fa.fill_interleaved(&x[0..ch * n]);
    let rb = fb.fill_le_bytes(&bytes[0..ch * n * bps], bps);
    assert!(ra.is_ok() && rb.is_ok());
    assert!(fa.filled_size() == n && fb.filled_size() == n);
    assert!(fa.size() == cap && fb.size() == cap);
    assert!(fa.channels() == ch && fb.channels() == ch);
    let mut c = 0;
    while c < ch {
        let sa = fa.channel_slice(c);
        let sb = fb.channel_slice(c);
        assert!(sa.len() == n && sb.len() == n);
        let mut t = 0;
        while t < n {
            assert!(sa[t] == sb[t]);
            assert!(sa[t] == x[ch * t + c]);
            t += 1;
        }
        c += 1;
    }
    kani::cover!(n == 0 || x[0] as i64 == -(1i64 << (8 * bps - 1)));
    kani::cover!(n == 0 || x[ch * n - 1] as i64 == (1i64 << (8 * bps - 1)) - 1);
}

/// A full block followed by a shorter one on the SAME buffers (one fed with integers, one with
/// bytes): only the second block is visible afterwards, identically in both.
fn c14_fill_sequence_case(ch: usize, bps: usize, cap: usize, n2: usize) {
    let x = c14_any_samples(ch * cap, bps);
    let y = c14_any_samples(ch * n2, bps);
    let xb = c14_bytes_of(&x, bps);
    let yb = c14_bytes_of(&y, bps);
    let mut fa = c14_dirty_framebuf(ch, cap, 0);
    let mut fb = c14_dirty_framebuf(ch, cap, 1);
    assert!(fa.fill_interleaved(&x[0..ch * cap]).is_ok());
    assert!(fb.fill_le_bytes(&xb[0..ch * cap * bps], bps).is_ok());
    assert!(fa.filled_size() == cap && fb.filled_size() == cap);
    assert!(fa.fill_interleaved(&y[0..ch * n2]).is_ok());
    assert!(fb.fill_le_bytes(&yb[0..ch * n2 * bps], bps).is_ok());
    assert!(fa.filled_size() == n2 && fb.filled_size() == n2);
    let mut c = 0;
    while c < ch {
        let sa = fa.channel_slice(c);
        let sb = fb.channel_slice(c);
        assert!(sa.len() == n2 && sb.len() == n2);
        let mut t = 0;
        while t < n2 {
            assert!(sa[t] == y[ch * t + c] && sb[t] == y[ch * t + c]);
            t += 1;
        }
        c += 1;
    }
    kani::cover!(x[0] != y[0] && n2 > 0);
}

//@ unit props=C14 tier=quick kind=bounded timeout=300 funcs="FrameBuf::fill_interleaved; FrameBuf::fill_le_bytes; FrameBuf::channel_slice; deinterleave_ch2; le_bytes_to_i32s" bound="2 channels, 2 bytes/sample, capacity 2 and 3, fill 0..=capacity; every 16-bit sample value; arbitrary stale buffer contents"
#[kani::proof]
#[kani::unwind(26)]
#[kani::stub(std::fmt::format, stub_format)]
fn c14_fill_equiv_ch2_b2() {
    c14_fill_equiv_case(2, 2, 2, 0);
    c14_fill_equiv_case(2, 2, 2, 1);
    c14_fill_equiv_case(2, 2, 2, 2);
    c14_fill_equiv_case(2, 2, 3, 2);
    c14_fill_equiv_case(2, 2, 3, 3);
}

//@ unit props=C14 tier=quick kind=bounded timeout=300 funcs="FrameBuf::fill_interleaved; FrameBuf::fill_le_bytes; FrameBuf::channel_slice; deinterleave_ch2; le_bytes_to_i32s" bound="2 channels, 3 bytes/sample, capacity 2 and 3, fill 0..=capacity; every 24-bit sample value; arbitrary stale buffer contents"
#[kani::proof]
#[kani::unwind(26)]
#[kani::stub(std::fmt::format, stub_format)]
fn c14_fill_equiv_ch2_b3() {
    c14_fill_equiv_case(2, 3, 2, 0);
    c14_fill_equiv_case(2, 3, 2, 1);
    c14_fill_equiv_case(2, 3, 2, 2);
    c14_fill_equiv_case(2, 3, 3, 1);
    c14_fill_equiv_case(2, 3, 3, 3);
}

//@ unit props=C14 tier=quick kind=bounded timeout=300 funcs="FrameBuf::fill_interleaved; FrameBuf::fill_le_bytes; FrameBuf::channel_slice; deinterleave_ch1; le_bytes_to_i32s" bound="1 channel, 1 and 4 bytes/sample, capacity 3, fill 0, 2, 3" note="mono leaves stale samples beyond the fill in the buffer (deinterleave_ch1 does not zero); channel_slice never exposes them"
#[kani::proof]
#[kani::unwind(26)]
#[kani::stub(std::fmt::format, stub_format)]
fn c14_fill_equiv_ch1() {
    c14_fill_equiv_case(1, 1, 3, 0);
    c14_fill_equiv_case(1, 1, 3, 2);
    c14_fill_equiv_case(1, 4, 3, 2);
    c14_fill_equiv_case(1, 4, 3, 3);
}

//@ unit props=C14 tier=thorough kind=bounded timeout=900 funcs="FrameBuf::fill_interleaved; FrameBuf::fill_le_bytes; FrameBuf::channel_slice; deinterleave_ch3; deinterleave_ch8; le_bytes_to_i32s" bound="3 channels x 3 bytes and 8 channels x 2 bytes, capacity 3, fill 2 and 3"
#[kani::proof]
#[kani::unwind(26)]
#[kani::stub(std::fmt::format, stub_format)]
fn c14_fill_equiv_ch3_ch8() {
    c14_fill_equiv_case(3, 3, 3, 2);
    c14_fill_equiv_case(8, 2, 3, 2);
    c14_fill_equiv_case(8, 2, 3, 3);
}

//@ unit props=C14,C10 tier=quick kind=bounded timeout=300 funcs="FrameBuf::fill_interleaved; FrameBuf::fill_le_bytes; FrameBuf::channel_slice" bound="2 channels, 2 and 3 bytes/sample, capacity 3 then 0..=2 samples; 1 channel, 2 bytes, capacity 3 then 1 sample"
#[kani::proof]
#[kani::unwind(26)]
#[kani::stub(std::fmt::format, stub_format)]
fn c14_fill_full_then_short() {
    c14_fill_sequence_case(2, 2, 3, 2);
    c14_fill_sequence_case(2, 3, 3, 1);
    c14_fill_sequence_case(2, 3, 3, 0);
    c14_fill_sequence_case(1, 2, 3, 1);
}
