// Harnesses for src/repeat.rs (child module `repeat::verif`): the unrolling macros against the loop
// they stand for.  The Verus unit residual_write replaces `try_repeat!(i to N; while C => B)` by
//     for i in 0..N { if !C(i) { break }  B(i)? }
// and these units prove that the macro (seq!-generated impls of `Repeat::try_repeat_while`) means that.

#[derive(Debug)]
struct StopErr(usize);
impl std::fmt::Display for StopErr {
    fn fmt(&self, f: &mut std::fmt::Formatter<'_>) -> std::fmt::Result {
        f.write_str("StopErr")
    }
}
impl std::error::Error for StopErr {}

/// `try_repeat!(n to 4; while n < limit => body)`: the body runs for n = 0, 1, .. in order while
/// n < 4 and the condition holds, stops at the first error and returns it; the condition is
/// evaluated before every body call; otherwise Ok.  Every (limit, failing index) combination.
//@ unit props=C08,C02,C12 tier=quick kind=complete timeout=300 funcs="repeat::try_repeat!; <Count<4> as Repeat>::try_repeat_while"
#[kani::proof]
#[kani::unwind(8)]
fn c08_try_repeat_semantics() {
    let limit: usize = kani::any();
    kani::assume(limit <= 6);
    let fail_at: usize = kani::any();
    kani::assume(fail_at <= 6);
    let mut calls = 0usize;
    let mut in_order = true;
    let r: Result<(), StopErr> = try_repeat!(
        n to 4;
        while n < limit => {
            if n != calls {
                in_order = false;
            }
            calls += 1;
            if n == fail_at {
                return Err(StopErr(n));
            }
            Ok::<(), StopErr>(())
        }
    );
    let bound = if limit < 4 { limit } else { 4 };
    assert!(in_order);
    if fail_at < bound {
        assert!(calls == fail_at + 1);
        match r {
            Err(StopErr(k)) => assert!(k == fail_at),
            Ok(()) => assert!(false),
        }
    } else {
        assert!(calls == bound);
        assert!(r.is_ok());
    }
    kani::cover!(limit == 0);
    kani::cover!(limit == 6 && fail_at == 3);
    kani::cover!(limit == 2 && fail_at == 5);
}

/// `repeat!(n to 3 => body)` and `repeat!(n to 3; while c => body)`: plain counted loops.
//@ unit props=C13,C14 tier=quick kind=complete timeout=300 funcs="repeat::repeat!; Repeat::repeat; Repeat::repeat_while"
#[kani::proof]
#[kani::unwind(8)]
fn c13_repeat_semantics() {
    let mut sum = 0usize;
    let mut calls = 0usize;
    repeat!(n to 3 => {
        sum += 10 * n;
        calls += 1;
    });
    assert!(calls == 3 && sum == 30);
    let limit: usize = kani::any();
    kani::assume(limit <= 5);
    let mut calls2 = 0usize;
    let mut last = usize::MAX;
    repeat!(n to 3; while n < limit => {
        calls2 += 1;
        last = n;
    });
    let bound = if limit < 3 { limit } else { 3 };
    assert!(calls2 == bound);
    assert!(bound == 0 || last == bound - 1);
    kani::cover!(limit == 5);
    kani::cover!(limit == 0);
}
