// Appended to src/component.rs: re-exports test constructors of the private `datatype` module so
// that harness modules outside `component` (coding.rs) can build small components.
pub(crate) use crate::component::datatype::verif::residual_from_raw;
pub(crate) use crate::component::datatype::verif::set_sum_quotients;
pub(crate) use crate::component::datatype::verif::set_block_and_warmup;
