// Harnesses for src/rice.rs (child module `rice::verif`).

// ================================================================================================
// C01.1: zig-zag folding and its inverse (Kani function contracts, reusable via stub_verified)
// ================================================================================================

//@ unit props=C01,C15 tier=quick kind=contract timeout=120 funcs="rice::encode_signbit" contract_of=encode_signbit
#[kani::proof_for_contract(encode_signbit)]
fn c01_encode_signbit_contract() {
    let v: i32 = kani::any();
    encode_signbit(v);
}

//@ unit props=C01,C15 tier=quick kind=contract timeout=120 funcs="rice::decode_signbit" contract_of=decode_signbit
#[kani::proof_for_contract(decode_signbit)]
fn c01_decode_signbit_contract() {
    let v: u32 = kani::any();
    decode_signbit(v);
}

/// decode(encode(v)) == v for every i32 except i32::MIN (not representable: 2^32 residual values
/// need 33 bits after folding; the encoder never produces it for <= 25-bit samples).
//@ unit props=C01,C15 tier=quick kind=complete timeout=120 funcs="rice::encode_signbit; rice::decode_signbit"
#[kani::proof]
#[kani::unwind(2)]
fn c01_signbit_roundtrip() {
    let v: i32 = kani::any();
    kani::assume(v != i32::MIN);
    assert!(decode_signbit(encode_signbit(v)) == v);
    kani::cover!(v < 0);
    kani::cover!(v == i32::MAX);
}

// ================================================================================================
// C02 / C13: finest partition order
// ================================================================================================

/// o <= 15; 2^o divides the block; partitions hold at least `min_part_size` samples (or o == 0);
/// and o is the LARGEST such order (so the search space of C13 is exactly orders 0..=o).
//@ unit props=C02,C13 tier=quick kind=contract timeout=300 funcs="rice::finest_partition_order" contract_of=finest_partition_order
#[kani::proof_for_contract(finest_partition_order)]
fn c02_finest_partition_order_contract() {
    let size: usize = kani::any();
    let m: usize = kani::any();
    finest_partition_order(size, m);
}

// ================================================================================================
// C13: the cost table
// ================================================================================================

fn any_table(bound: u32) -> PrcBitTable {
    let a: [u32; 16] = kani::any();
    let mut i = 0;
    while i < 16 {
        kani::assume(a[i] <= bound);
        i += 1;
    }
    PrcBitTable {
        p_to_bits: simd::u32x16::from_array(a),
    }
}

/// `minimizer(max_p)` returns (argmin over p <= max_p with the smallest p on ties, that minimum),
/// for every table whose entries are below the saturation bound 2^28.
//@ unit props=C13,C02 tier=quick kind=complete timeout=900 funcs="PrcBitTable::minimizer"
#[kani::proof]
#[kani::unwind(18)]
fn c13_minimizer_argmin() {
    let t = any_table(MAX_P_TO_BITS);
    let max_p: usize = kani::any();
    kani::assume(max_p <= 14);
    let (p, bits) = t.minimizer(max_p);
    assert!(p <= max_p); // never the escape code 15 (C02)
    assert!(bits == t.p_to_bits[p] as usize);
    let mut q = 0;
    while q < 16 {
        if q <= max_p {
            assert!(t.p_to_bits[q] as usize >= bits);
            if q < p {
                assert!(t.p_to_bits[q] as usize > bits);
            }
        }
        q += 1;
    }
    kani::cover!(p == 14);
    kani::cover!(p == 0 && max_p == 14);
}

/// `merge(a, b, 4)`: entry-wise `a[p] + b[p] - 4` (the union of two partitions saves one 4-bit
/// parameter), saturating at 2^28 - 1 so that an expensive partition never looks cheap.
//@ unit props=C13 tier=quick kind=complete timeout=600 funcs="PrcBitTable::merge"
#[kani::proof]
#[kani::unwind(18)]
fn c13_merge_exact_or_saturated() {
    let a = any_table(MAX_P_TO_BITS);
    let b = any_table(MAX_P_TO_BITS);
    let mut i = 0;
    while i < 16 {
        kani::assume(a.p_to_bits[i] >= 4); // every table already contains its own 4 parameter bits
        i += 1;
    }
    let m = a.merge(&b, 4);
    let mut p = 0;
    while p < 16 {
        let exact = a.p_to_bits[p] as u64 + b.p_to_bits[p] as u64 - 4;
        if exact < MAX_P_TO_BITS as u64 {
            assert!(m.p_to_bits[p] as u64 == exact);
        } else {
            assert!(m.p_to_bits[p] == MAX_P_TO_BITS);
        }
        p += 1;
    }
}

/// `from_errors(e, off)[p] == sum_i (e_i >> p) + |e| * (p + 1) + off` when that is below the
/// saturation bound, and == 2^28 - 1 otherwise (monotone saturation: an expensive partition never
/// looks cheap).  `limit` bounds the folded residuals: with every e_i <= 2^28 - 2^24 - 1 the lane
/// sums of one 16-chunk cannot wrap in u32; without that bound they can (known finding).
fn c13_from_errors_body<const N: usize>(limit: u32) {
    let e: [u32; N] = kani::any();
    let mut i = 0;
    while i < N {
        kani::assume(e[i] <= limit);
        i += 1;
    }
    let t = PrcBitTable::from_errors(&e, 4);
    let mut p = 0;
    while p < 15 {
        let mut exact: u64 = 4 + (N as u64) * (p as u64 + 1);
        let mut i = 0;
        while i < N {
            exact += (e[i] >> p) as u64;
            i += 1;
        }
        if exact < MAX_P_TO_BITS as u64 {
            assert!(t.p_to_bits[p] as u64 == exact);
        } else {
            assert!(t.p_to_bits[p] == MAX_P_TO_BITS);
        }
        p += 1;
    }
}

const FROM_ERRORS_SAFE_LIMIT: u32 = (1 << 28) - (1 << 24) - 1;

//@ unit props=C13 tier=quick kind=bounded timeout=900 funcs="PrcBitTable::from_errors" bound="3 residuals (partial-chunk path), every value up to 2^28 - 2^24 - 1"
#[kani::proof]
#[kani::unwind(18)]
fn c13_from_errors_n3() {
    c13_from_errors_body::<3>(FROM_ERRORS_SAFE_LIMIT);
}

//@ unit props=C13 tier=thorough kind=bounded timeout=3000 funcs="PrcBitTable::from_errors" bound="17 residuals (one full 16-chunk + tail), every value up to 2^28 - 2^24 - 1"
#[kani::proof]
#[kani::unwind(19)]
fn c13_from_errors_n17() {
    c13_from_errors_body::<17>(FROM_ERRORS_SAFE_LIMIT);
}

/// Witness unit of known finding F-C13-from-errors-wrap: without the bound on the folded
/// residuals the u32 lane sums wrap before the per-chunk clamp and a very expensive parameter
/// looks cheap.  Expected to FAIL on the unchanged tree (prints KNOWN-FINDING).
//@ unit props=C13 tier=quick kind=bounded timeout=900 funcs="PrcBitTable::from_errors" bound="3 residuals, every u32 value" finding=F-C13-from-errors-wrap
#[kani::proof]
#[kani::unwind(18)]
fn c13_from_errors_wrap_witness() {
    c13_from_errors_body::<3>(u32::MAX);
}
