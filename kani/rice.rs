// Harnesses for src/rice.rs (child module `rice::verif`).

// ================================================================================================
// C01.1: zig-zag folding and its inverse (Kani function contracts, reusable via stub_verified)
// ================================================================================================

//@ unit props=C01,C15 tier=quick kind=contract timeout=120 funcs="rice::encode_signbit" contract_of=encode_signbit
#[kani::proof_for_contract(encode_signbit)]
fn c01_encode_signbit_contract() {
    let v: i32 = kani::any();
    encode_signbit(v);
}

//@ unit props=C01,C15 tier=quick kind=contract timeout=120 funcs="rice::decode_signbit" contract_of=decode_signbit
#[kani::proof_for_contract(decode_signbit)]
fn c01_decode_signbit_contract() {
    let v: u32 = kani::any();
    decode_signbit(v);
}

/// decode(encode(v)) == v for every i32 except i32::MIN (not representable: 2^32 residual values
/// need 33 bits after folding; the encoder never produces it for <= 25-bit samples).
//@ unit props=C01,C15 tier=quick kind=complete timeout=120 funcs="rice::encode_signbit; rice::decode_signbit"
#[kani::proof]
#[kani::unwind(2)]
fn c01_signbit_roundtrip() {
    let v: i32 = kani::any();
    kani::assume(v != i32::MIN);
    assert!(decode_signbit(encode_signbit(v)) == v);
    kani::cover!(v < 0);
    kani::cover!(v == i32::MAX);
}

// ================================================================================================
// C02 / C13: finest partition order
// ================================================================================================

/// o <= 15; 2^o divides the block; partitions hold at least `min_part_size` samples (or o == 0);
/// and o is the LARGEST such order (so the search space of C13 is exactly orders 0..=o).
//@ unit props=C02,C13 tier=quick kind=contract timeout=300 funcs="rice::finest_partition_order" contract_of=finest_partition_order
#[kani::proof_for_contract(finest_partition_order)]
fn c02_finest_partition_order_contract() {
    let size: usize = kani::any();
    let m: usize = kani::any();
    finest_partition_order(size, m);
}

// ================================================================================================
// C13: the cost table
// ================================================================================================

fn any_table(bound: u32) -> PrcBitTable {
    let a: [u32; 16] = kani::any();
    let mut i = 0;
    while i < 16 {
        kani::assume(a[i] <= bound);
        i += 1;
    }
    PrcBitTable {
        p_to_bits: simd::u32x16::from_array(a),
    }
}

/// `minimizer(max_p)` returns (argmin over p <= max_p with the smallest p on ties, that minimum),
/// for every table whose entries are below the saturation bound 2^28.
//@ unit props=C13,C02 tier=quick kind=complete timeout=900 funcs="PrcBitTable::minimizer"
#[kani::proof]
#[kani::unwind(18)]
fn c13_minimizer_argmin() {
    let t = any_table(MAX_P_TO_BITS);
    let max_p: usize = kani::any();
    kani::assume(max_p <= 14);
    let (p, bits) = t.minimizer(max_p);
    assert!(p <= max_p); // never the escape code 15 (C02)
    assert!(bits == t.p_to_bits[p] as usize);
    let mut q = 0;
    while q < 16 {
        if q <= max_p {
            assert!(t.p_to_bits[q] as usize >= bits);
            if q < p {
                assert!(t.p_to_bits[q] as usize > bits);
            }
        }
        q += 1;
    }
    kani::cover!(p == 14);
    kani::cover!(p == 0 && max_p == 14);
}

/// `merge(a, b, 4)`: entry-wise `a[p] + b[p] - 4` (the union of two partitions saves one 4-bit
/// parameter), saturating at 2^28 - 1 so that an expensive partition never looks cheap.
//@ unit props=C13 tier=quick kind=complete timeout=600 funcs="PrcBitTable::merge"
#[kani::proof]
#[kani::unwind(18)]
fn c13_merge_exact_or_saturated() {
    let a = any_table(MAX_P_TO_BITS);
    let b = any_table(MAX_P_TO_BITS);
    let mut i = 0;
    while i < 16 {
        kani::assume(a.p_to_bits[i] >= 4); // every table already contains its own 4 parameter bits
        i += 1;
    }
    let m = a.merge(&b, 4);
    let mut p = 0;
    while p < 16 {
        let exact = a.p_to_bits[p] as u64 + b.p_to_bits[p] as u64 - 4;
        if exact < MAX_P_TO_BITS as u64 {
            assert!(m.p_to_bits[p] as u64 == exact);
        } else {
            assert!(m.p_to_bits[p] == MAX_P_TO_BITS);
        }
        p += 1;
    }
}

/// `from_errors(e, off)[p] == sum_i (e_i >> p) + |e| * (p + 1) + off` when that is below the
/// saturation bound, and == 2^28 - 1 otherwise (monotone saturation: an expensive partition never
/// looks cheap).  `limit` bounds the folded residuals: with every e_i <= 2^28 - 2^24 - 1 the lane
/// sums of one 16-chunk cannot wrap in u32; without that bound they can (known finding).
fn c13_from_errors_body<const N: usize>(limit: u32) {
    let e: [u32; N] = kani::any();
    let mut i = 0;
    while i < N {
        kani::assume(e[i] <= limit);
        i += 1;
    }
    let t = PrcBitTable::from_errors(&e, 4);
    let mut p = 0;
    while p < 15 {
        let mut exact: u64 = 4 + (N as u64) * (p as u64 + 1);
        let mut i = 0;
        while i < N {
            exact += (e[i] >> p) as u64;
            i += 1;
        }
        if exact < MAX_P_TO_BITS as u64 {
            assert!(t.p_to_bits[p] as u64 == exact);
        } else {
            assert!(t.p_to_bits[p] == MAX_P_TO_BITS);
        }
        p += 1;
    }
}

const FROM_ERRORS_SAFE_LIMIT: u32 = (1 << 28) - (1 << 24) - 1;

//@ unit props=C13 tier=quick kind=bounded timeout=900 funcs="PrcBitTable::from_errors" bound="3 residuals (partial-chunk path), every value up to 2^28 - 2^24 - 1"
#[kani::proof]
#[kani::unwind(18)]
fn c13_from_errors_n3() {
    c13_from_errors_body::<3>(FROM_ERRORS_SAFE_LIMIT);
}

//@ unit props=C13 tier=thorough kind=bounded timeout=3000 funcs="PrcBitTable::from_errors" bound="17 residuals (one full 16-chunk + tail), every value up to 2^28 - 2^24 - 1"
#[kani::proof]
#[kani::unwind(19)]
fn c13_from_errors_n17() {
    c13_from_errors_body::<17>(FROM_ERRORS_SAFE_LIMIT);
}

/// The full 16-element (unrolled) chunk path with three fully symbolic residuals (first, middle,
/// last position) and thirteen small ones, followed by a partial chunk: same exactness statement.
fn c13_from_errors_sparse_body<const N: usize>() {
    let big: [u32; 3] = kani::any();
    let small: [u8; N] = kani::any();
    let mut e = [0u32; N];
    let mut i = 0;
    while i < N {
        e[i] = small[i] as u32;
        i += 1;
    }
    kani::assume(big[0] <= FROM_ERRORS_SAFE_LIMIT && big[1] <= FROM_ERRORS_SAFE_LIMIT && big[2] <= FROM_ERRORS_SAFE_LIMIT);
    e[0] = big[0];
    e[7] = big[1];
    e[15] = big[2];
    let t = PrcBitTable::from_errors(&e, 4);
    let mut p = 0;
    while p < 15 {
        let mut exact: u64 = 4 + (N as u64) * (p as u64 + 1);
        let mut i = 0;
        while i < N {
            exact += (e[i] >> p) as u64;
            i += 1;
        }
        if exact < MAX_P_TO_BITS as u64 {
            assert!(t.p_to_bits[p] as u64 == exact);
        } else {
            assert!(t.p_to_bits[p] == MAX_P_TO_BITS);
        }
        p += 1;
    }
    kani::cover!(big[0] >= (1 << 27) && big[2] >= (1 << 27));
    kani::cover!(t.p_to_bits[0] == MAX_P_TO_BITS && t.p_to_bits[14] < MAX_P_TO_BITS);
}

//@ unit props=C13 tier=quick kind=bounded timeout=1500 funcs="PrcBitTable::from_errors" bound="16 residuals (exactly one full unrolled chunk): positions 0, 7, 15 any value up to 2^28 - 2^24 - 1, the others any value below 256"
#[kani::proof]
#[kani::unwind(19)]
fn c13_from_errors_n16_sparse() {
    c13_from_errors_sparse_body::<16>();
}

//@ unit props=C13 tier=thorough kind=bounded timeout=1500 funcs="PrcBitTable::from_errors" bound="18 residuals (one full unrolled chunk + a partial one): positions 0, 7, 15 any value up to 2^28 - 2^24 - 1, the others below 256"
#[kani::proof]
#[kani::unwind(21)]
fn c13_from_errors_n18_sparse() {
    c13_from_errors_sparse_body::<18>();
}

/// Witness unit of known finding F-C13-from-errors-wrap: without the bound on the folded
/// residuals the u32 lane sums wrap before the per-chunk clamp and a very expensive parameter
/// looks cheap.  Expected to FAIL on the unchanged tree (prints KNOWN-FINDING).
//@ unit props=C13 tier=quick kind=bounded timeout=900 funcs="PrcBitTable::from_errors" bound="3 residuals, every u32 value" finding=F-C13-from-errors-wrap
#[kani::proof]
#[kani::unwind(18)]
fn c13_from_errors_wrap_witness() {
    c13_from_errors_body::<3>(u32::MAX);
}

// ================================================================================================
// C13: the bottom-up search over partition orders, with the table builder as a callee contract
// ================================================================================================

static mut STUB_TABLES: [[u32; 16]; 4] = [[0; 16]; 4];
static mut STUB_TABLE_COUNT: usize = 0;

/// contract of `PrcBitTable::from_errors`: SOME cost table with entries >= 4 (its own parameter
/// bits) and below the saturation bound; recorded so that the caller's result can be compared with
/// a brute-force optimum over exactly these tables.  (Exactness of the real tables: c13_from_errors_*.)
fn contract_from_errors(_errors: &[u32], _offset: usize) -> PrcBitTable {
    let a: [u32; 16] = kani::any();
    let mut i = 0;
    while i < 16 {
        kani::assume(4 <= a[i] && a[i] <= MAX_P_TO_BITS);
        i += 1;
    }
    unsafe {
        if STUB_TABLE_COUNT < 4 {
            STUB_TABLES[STUB_TABLE_COUNT] = a;
        }
        STUB_TABLE_COUNT += 1;
    }
    PrcBitTable {
        p_to_bits: simd::u32x16::from_array(a),
    }
}

fn table_min(t: &[u32; 16], max_p: usize) -> u64 {
    let mut best = u64::MAX;
    let mut p = 0;
    while p < 16 {
        if p <= max_p && (t[p] as u64) < best {
            best = t[p] as u64;
        }
        p += 1;
    }
    best
}

fn merged(a: &[u32; 16], b: &[u32; 16]) -> [u32; 16] {
    let mut m = [0u32; 16];
    let mut p = 0;
    while p < 16 {
        let v = a[p] as u64 + b[p] as u64 - 4;
        m[p] = if v < MAX_P_TO_BITS as u64 { v as u32 } else { MAX_P_TO_BITS };
        p += 1;
    }
    m
}

/// `PrcParameterFinder::find` on a block of 128 samples (finest order 1: two partitions of 64):
/// the returned (order, parameters, code_bits) is the cheapest over {order 1 with independently
/// optimal parameters, order 0 with the optimal single parameter}, code_bits is that cost, every
/// parameter is <= max_p, the parameter count is 2^order -- starting from a DIRTY finder (C10).
//@ unit props=C13,C10,C02 tier=thorough kind=bounded timeout=1800 funcs="PrcParameterFinder::find; rice::eval_partitions; rice::merge_partitions; PrcBitTable::merge; PrcBitTable::minimizer" stubs="PrcBitTable::from_errors -> some table with entries in [4, 2^28) (c13_from_errors_*)" bound="block 128 (two finest partitions), tables fully symbolic"
#[kani::proof]
#[kani::unwind(130)]
#[kani::stub(PrcBitTable::from_errors, contract_from_errors)]
fn c13_find_two_partitions() {
    let signal = [0i32; 128];
    let max_p: usize = kani::any();
    kani::assume(max_p <= 14);
    let mut finder = PrcParameterFinder::default();
    // dirty scratch from a previous call on a LARGER block (more partitions than this one):
    // every scratch vector is longer than this call needs and holds arbitrary values
    let stale: [[u32; 16]; 4] = kani::any();
    finder.tables = vec![
        PrcBitTable { p_to_bits: simd::u32x16::from_array(stale[0]) },
        PrcBitTable { p_to_bits: simd::u32x16::from_array(stale[1]) },
        PrcBitTable { p_to_bits: simd::u32x16::from_array(stale[2]) },
        PrcBitTable { p_to_bits: simd::u32x16::from_array(stale[3]) },
    ];
    let stale_ps: [usize; 4] = kani::any();
    finder.ps = vec![stale_ps[0], stale_ps[1], stale_ps[2]];
    finder.min_ps = vec![stale_ps[3], stale_ps[0], stale_ps[1], stale_ps[2]];
    finder.errors = vec![0xdead_beef; 3];
    let r = finder.find(&signal, 0, max_p);
    let (t0, t1, n) = unsafe { (STUB_TABLES[0], STUB_TABLES[1], STUB_TABLE_COUNT) };
    assert!(n == 2);
    let cost1 = table_min(&t0, max_p) + table_min(&t1, max_p);
    let m = merged(&t0, &t1);
    let cost0 = table_min(&m, max_p);
    let best = if cost0 < cost1 { cost0 } else { cost1 };
    assert!(r.code_bits as u64 == best);
    assert!(r.order <= 1 && r.ps.len() == 1usize << r.order);
    if r.order == 1 {
        assert!(cost1 <= cost0);
        assert!(r.ps[0] as usize <= max_p && r.ps[1] as usize <= max_p);
        assert!(t0[r.ps[0] as usize] as u64 == table_min(&t0, max_p));
        assert!(t1[r.ps[1] as usize] as u64 == table_min(&t1, max_p));
    } else {
        assert!(cost0 < cost1);
        assert!(r.ps[0] as usize <= max_p);
        assert!(m[r.ps[0] as usize] as u64 == cost0);
    }
    kani::cover!(r.order == 0);
    kani::cover!(r.order == 1);
}


/// contract of `from_errors` restricted to tables whose only competitive parameters are 0 and 1
/// (all other entries saturated): enough to make the ORDER search fully symbolic while keeping the
/// parameter dimension small.
fn contract_from_errors_p01(_errors: &[u32], _offset: usize) -> PrcBitTable {
    let mut a = [MAX_P_TO_BITS; 16];
    let x: [u32; 2] = kani::any();
    kani::assume(4 <= x[0] && x[0] < (1 << 20) && 4 <= x[1] && x[1] < (1 << 20));
    a[0] = x[0];
    a[1] = x[1];
    unsafe {
        if STUB_TABLE_COUNT < 4 {
            STUB_TABLES[STUB_TABLE_COUNT] = a;
        }
        STUB_TABLE_COUNT += 1;
    }
    PrcBitTable {
        p_to_bits: simd::u32x16::from_array(a),
    }
}

/// `find` on a block of 256 samples (finest order 2: four partitions, two merge levels): the
/// result is the cheapest of orders 2, 1 and 0 -- every order is evaluated, none is pruned.
//@ unit props=C13 tier=thorough kind=bounded timeout=3600 funcs="PrcParameterFinder::find; rice::eval_partitions; rice::merge_partitions" stubs="PrcBitTable::from_errors -> some table whose parameters 0 and 1 have arbitrary costs in [4, 2^20) and all others are saturated" bound="block 256 (four finest partitions, orders 2/1/0)"
#[kani::proof]
#[kani::unwind(260)]
#[kani::stub(PrcBitTable::from_errors, contract_from_errors_p01)]
fn c13_find_four_partitions() {
    let signal = [0i32; 256];
    let mut finder = PrcParameterFinder::default();
    let r = finder.find(&signal, 0, 14);
    let (t, n) = unsafe { (STUB_TABLES, STUB_TABLE_COUNT) };
    assert!(n == 4);
    let cost2 = table_min(&t[0], 14) + table_min(&t[1], 14) + table_min(&t[2], 14) + table_min(&t[3], 14);
    let m01 = merged(&t[0], &t[1]);
    let m23 = merged(&t[2], &t[3]);
    let cost1 = table_min(&m01, 14) + table_min(&m23, 14);
    let m = merged(&m01, &m23);
    let cost0 = table_min(&m, 14);
    let mut best = cost2;
    if cost1 < best {
        best = cost1;
    }
    if cost0 < best {
        best = cost0;
    }
    assert!(r.code_bits as u64 == best);
    assert!(r.order <= 2 && r.ps.len() == 1usize << r.order);
    let chosen = if r.order == 2 { cost2 } else if r.order == 1 { cost1 } else { cost0 };
    assert!(chosen == best);
    kani::cover!(r.order == 0);
    kani::cover!(r.order == 1);
    kani::cover!(r.order == 2);
}
