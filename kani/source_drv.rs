// Harnesses for src/source.rs, module `source::verif_drv`: the single-thread driver
// `coding::encode_with_fixed_block_size` run by Kani on a specification source (C02/C03/C04).
// This is the bounded companion of Verus unit `driver` (which is unbounded in the number of frames
// but tied to the text of the function): it accepts any rewrite of the driver's body.
//
// Callee contracts: `encode_fixed_size_frame` -> some frame that carries the given frame number and
// the filled block size (units coding::verif::c17_frame_number_and_sample_range, c09_*, c01_*);
// `Context::fill_interleaved` -> counts samples and frames (the MD5 feed: Verus context_fill; md-5
// cannot be run inside CBMC); `Context::md5_digest` -> a marker digest.
// (An attempt to compare the MD5 input bytes through the digest under Kani timed out at 1200 s for
// six samples: attic note in DESIGN 10.)

use crate::component::BitRepr;
use crate::component::BlockSizeSpec;
use crate::component::ChannelAssignment;
use crate::component::Frame;
use crate::component::FrameOffset;
use crate::component::SampleRateSpec;
use crate::component::SampleSizeSpec;
use crate::component::StreamInfo;
use crate::error::EncodeError;
use crate::error::Verified;

const BLOCK: usize = 48;
const MARKER: [u8; 16] = [0xA5, 1, 2, 3, 4, 5, 6, 7, 8, 9, 10, 11, 12, 13, 14, 0x5A];

static mut FRAMES_ENCODED: usize = 0;
static mut NUMBERS_OK: bool = true;
static mut SIZES: [usize; 4] = [0; 4];
static mut STREAMINFO_MAX_AT_CALL_OK: bool = true;

/// contract of `coding::encode_fixed_size_frame`: a frame with the given frame number (fixed
/// blocking strategy) and the block size currently filled in the buffer; records what it was given.
fn contract_encode_fixed_size_frame(
    _config: &Verified<crate::config::Encoder>,
    framebuf: &FrameBuf,
    frame_number: usize,
    stream_info: &StreamInfo,
) -> Result<Frame, EncodeError> {
    unsafe {
        if frame_number != FRAMES_ENCODED {
            NUMBERS_OK = false;
        }
        if FRAMES_ENCODED < 4 {
            SIZES[FRAMES_ENCODED] = framebuf.filled_size();
        }
        if stream_info.max_block_size() != BLOCK {
            STREAMINFO_MAX_AT_CALL_OK = false;
        }
        FRAMES_ENCODED += 1;
    }
    let mut frame = Frame::new_empty(
        BlockSizeSpec::from_size(framebuf.filled_size() as u16),
        ChannelAssignment::Independent(1),
        SampleSizeSpec::B16,
        SampleRateSpec::R44_1kHz,
    );
    frame
        .header_mut()
        .set_frame_offset(FrameOffset::Frame(frame_number as u32));
    Ok(frame)
}

/// contract of `<Context as Fill>::fill_interleaved` without the MD5 feed
fn contract_context_fill(ctx: &mut Context, interleaved: &[i32]) -> Result<(), SourceError> {
    if interleaved.is_empty() {
        return Ok(());
    }
    ctx.sample_count += interleaved.len() / ctx.channels;
    ctx.frame_count += 1;
    Ok(())
}

/// contract of `<FrameBuf as Fill>::fill_interleaved` (units c17_fill_interleaved_ch1/2,
/// c14_deinterleave_*): over-fill is an error, otherwise the block now holds len/channels samples
fn contract_framebuf_fill(fb: &mut FrameBuf, interleaved: &[i32]) -> Result<(), SourceError> {
    let channels = fb.channels();
    if interleaved.len() / channels > fb.size() {
        return Err(SourceError::by_reason(SourceErrorReason::InvalidBuffer));
    }
    fb.filled_size = interleaved.len() / channels;
    Ok(())
}

/// contract of `Context::new` for in-range widths: zero counters; the MD5 state is never looked at
/// here (both users are contracts), so it is left all-zero, which spares CBMC the 64-byte buffer
/// initialisation loop of md-5 and keeps the unwinding bound at the number of frames.
fn contract_context_new(bits_per_sample: usize, channels: usize) -> Context {
    assert!(bits_per_sample <= 32);
    Context {
        // SAFETY: md5::Md5 is plain data (four u32 words, a byte buffer, counters)
        md5: unsafe { std::mem::zeroed() },
        bytes_per_sample: (bits_per_sample + 7) / 8,
        channels,
        sample_count: 0,
        frame_count: 0,
    }
}

/// `format!` replacement for these units: a one-byte string (the empty `String::new()` of
/// `stub_format` triggers Kani's spurious `__rust_dealloc` failures here, README pitfall 9)
fn stub_format_nonempty(_args: core::fmt::Arguments<'_>) -> String {
    String::from("x")
}

fn contract_md5_digest(_ctx: &Context) -> [u8; 16] {
    MARKER
}

/// the multi-thread driver must not be entered with `multithread = false` (and Kani cannot compile
/// code that reaches `thread::spawn`: README pitfall 4)
fn contract_par_not_called<T: Source>(
    _config: &Verified<crate::config::Encoder>,
    _src: T,
    _block_size: usize,
) -> Result<crate::component::Stream, EncodeError> {
    assert!(false);
    Err(EncodeError::from(SourceError::by_reason(SourceErrorReason::InvalidBuffer)))
}

/// a mono 16-bit 44.1 kHz source of `total` zero samples, with or without a length hint
struct SpecSource {
    total: usize,
    remaining: usize,
    hint: bool,
}

static ZEROS: [i32; BLOCK] = [0; BLOCK];

impl Source for SpecSource {
    fn channels(&self) -> usize {
        1
    }
    fn bits_per_sample(&self) -> usize {
        16
    }
    fn sample_rate(&self) -> usize {
        44100
    }
    fn read_samples<F: Fill>(&mut self, block_size: usize, dest: &mut F) -> Result<usize, SourceError> {
        let n = if self.remaining < block_size { self.remaining } else { block_size };
        self.remaining -= n;
        dest.fill_interleaved(&ZEROS[..n])?;
        Ok(n)
    }
    fn len_hint(&self) -> Option<usize> {
        if self.hint {
            Some(self.total)
        } else {
            None
        }
    }
}

/// For a source of `total` samples and block size 48: the stream has ceil(total/48) frames,
/// numbered 0, 1, 2, ... in order, all of 48 samples except a shorter last one; STREAMINFO
/// announces min = max block size = 48 (RFC 9639 8.2: the last block does not count) - also for an
/// empty input and for an input shorter than one block -, the exact total, the context's digest,
/// the source's format, and frame-size bounds that enclose every frame.
fn driver_body(total: usize, hint: bool) {
    unsafe {
        FRAMES_ENCODED = 0;
        NUMBERS_OK = true;
        STREAMINFO_MAX_AT_CALL_OK = true;
    }
    let mut cfg = crate::config::Encoder::default();
    cfg.multithread = false;
    let cfg = unsafe { crate::error::Verify::assume_verified(cfg) };
    let src = SpecSource { total, remaining: total, hint };
    let r = crate::coding::encode_with_fixed_block_size(&cfg, src, BLOCK);
    assert!(r.is_ok());
    if let Ok(stream) = r {
        let frames = (total + BLOCK - 1) / BLOCK;
        assert!(stream.frame_count() == frames);
        assert!(unsafe { FRAMES_ENCODED } == frames);
        assert!(unsafe { NUMBERS_OK });
        assert!(unsafe { STREAMINFO_MAX_AT_CALL_OK });
        let info = stream.stream_info();
        assert!(info.min_block_size() == BLOCK && info.max_block_size() == BLOCK);
        assert!(info.total_samples() == total);
        // (compared element-wise without a loop: the unwinding bound of these units must stay at
        // the number of frames, README pitfall 1)
        let d = info.md5_digest();
        assert!(d[0] == MARKER[0] && d[1] == MARKER[1] && d[2] == MARKER[2] && d[3] == MARKER[3]);
        assert!(d[4] == MARKER[4] && d[5] == MARKER[5] && d[6] == MARKER[6] && d[7] == MARKER[7]);
        assert!(d[8] == MARKER[8] && d[9] == MARKER[9] && d[10] == MARKER[10] && d[11] == MARKER[11]);
        assert!(d[12] == MARKER[12] && d[13] == MARKER[13] && d[14] == MARKER[14] && d[15] == MARKER[15]);
        assert!(info.channels() == 1 && info.bits_per_sample() == 16 && info.sample_rate() == 44100);
        let mut i = 0;
        while i < frames && i < 4 {
            let want = if i + 1 < frames || total % BLOCK == 0 { BLOCK } else { total % BLOCK };
            assert!(unsafe { SIZES[i] } == want);
            match stream.frame(i) {
                Some(f) => {
                    assert!(f.block_size() == want);
                    let bytes = f.count_bits() / 8;
                    assert!(info.min_frame_size() <= bytes && bytes <= info.max_frame_size());
                }
                None => assert!(false),
            }
            i += 1;
        }
        std::mem::forget(stream);
    }
}

macro_rules! driver_unit {
    ($name:ident, $total:expr, $hint:expr) => {
        #[kani::proof]
        #[kani::unwind(6)]
        #[kani::stub(std::fmt::format, stub_format_nonempty)]
        #[kani::stub(Context::new, contract_context_new)]
        #[kani::stub(crate::coding::encode_fixed_size_frame, contract_encode_fixed_size_frame)]
        #[kani::stub(<Context as Fill>::fill_interleaved, contract_context_fill)]
        #[kani::stub(<FrameBuf as Fill>::fill_interleaved, contract_framebuf_fill)]
        #[kani::stub(Context::md5_digest, contract_md5_digest)]
        #[kani::stub(crate::par::encode_with_fixed_block_size, contract_par_not_called)]
        fn $name() {
            driver_body($total, $hint);
        }
    };
}

// (two or more frames exhaust CBMC's memory - the growth of Vec<Frame> -; any number of frames: Verus unit `driver`)
//@ unit name=c04_driver_empty heavy=1 props=C04 tier=quick kind=bounded timeout=1500 funcs="coding::encode_with_fixed_block_size; Stream::new; StreamInfo::set_block_sizes; StreamInfo::set_total_samples; StreamInfo::set_md5_digest" stubs="encode_fixed_size_frame -> some frame with the given number and the filled block size (recording both); <Context as Fill>::fill_interleaved -> counters only; <FrameBuf as Fill>::fill_interleaved -> filled size only (c17_fill_interleaved_*); Context::new -> zero counters; Context::md5_digest -> marker; par driver -> must not be called" bound="block size 48, empty input with a length hint"
//@ unit name=c04_driver_short heavy=1 props=C04 tier=quick kind=bounded timeout=1500 funcs="coding::encode_with_fixed_block_size; Stream::add_frame; StreamInfo::update_frame_info; FrameBuf::fill_interleaved" stubs="as c04_driver_empty" bound="block size 48, input of 1 sample (shorter than one block) with a length hint"
//@ unit name=c04_driver_one_block heavy=1 props=C04 tier=thorough kind=bounded timeout=1500 funcs="coding::encode_with_fixed_block_size; Stream::add_frame; StreamInfo::update_frame_info" stubs="as c04_driver_empty" bound="block size 48, input of exactly 48 samples (one full block, then the terminating empty read) without a length hint"
driver_unit!(c04_driver_empty, 0, true);
driver_unit!(c04_driver_short, 1, true);
driver_unit!(c04_driver_one_block, 48, false);
