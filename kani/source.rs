// Harnesses for src/source.rs (child module `source::verif`).

/// Test constructor: a FrameBuf of arbitrary small size (the public constructor starts at 32).
pub(crate) fn framebuf_from_parts(samples: Vec<i32>, size: usize, filled_size: usize) -> FrameBuf {
    FrameBuf {
        samples,
        size,
        filled_size,
        readbuf: vec![],
    }
}
pub(crate) fn framebuf_samples_mut(fb: &mut FrameBuf) -> &mut Vec<i32> {
    &mut fb.samples
}

// ================================================================================================
// C17: argument contracts of the frame buffer
// ================================================================================================

/// `FrameBuf::with_size(ch, n)`:  Ok <=> 1 <= ch <= 8 /\ 32 <= n <= 32767, over all usize pairs.
//@ unit props=C17 tier=quick kind=complete timeout=300 funcs="FrameBuf::with_size"
#[kani::proof]
#[kani::unwind(6)]
#[kani::stub(std::fmt::format, stub_format)]
fn c17_framebuf_with_size() {
    let ch: usize = kani::any();
    let n: usize = kani::any();
    let valid = 1 <= ch && ch <= 8 && 32 <= n && n <= 32767;
    match FrameBuf::with_size(ch, n) {
        Ok(fb) => {
            assert!(valid);
            assert!(fb.size() == n);
            assert!(fb.channels() == ch);
            assert!(fb.filled_size() == 0);
        }
        Err(_) => assert!(!valid),
    }
    kani::cover!(valid);
}

/// `FrameBuf::fill_interleaved`: a fill holding more inter-channel samples than the buffer must be
/// an error (Fill trait documentation), never a panic, never silently accepted; an accepted fill
/// leaves `filled_size <= size` (the invariant `channel_slice` relies on).
fn c17_fill_interleaved_body<const CH: usize>() {
    let mut fb = FrameBuf::with_size(CH, 32).unwrap();
    let data: [i32; 80] = kani::any();
    let len: usize = kani::any();
    kani::assume(len <= 80);
    kani::assume(len % CH == 0);
    let r = fb.fill_interleaved(&data[0..len]);
    if len / CH > 32 {
        assert!(r.is_err());
    }
    if r.is_ok() {
        assert!(fb.filled_size() <= fb.size());
        assert!(fb.filled_size() == len / CH);
    }
    kani::cover!(len / CH > 32);
    kani::cover!(len / CH == 32);
}

//@ unit props=C17 tier=quick kind=complete timeout=600 funcs="FrameBuf::fill_interleaved; deinterleave_ch2" bound="capacity 2x32 (smallest public buffer), fill length 0..=80 values: every over/under-fill class"
#[kani::proof]
#[kani::unwind(4)]
#[kani::stub(std::fmt::format, stub_format)]
fn c17_fill_interleaved_ch2() {
    c17_fill_interleaved_body::<2>();
}

//@ unit props=C17 tier=thorough kind=complete timeout=600 funcs="FrameBuf::fill_interleaved; deinterleave_ch1" bound="capacity 1x32, fill length 0..=80"
#[kani::proof]
#[kani::unwind(4)]
#[kani::stub(std::fmt::format, stub_format)]
fn c17_fill_interleaved_ch1() {
    c17_fill_interleaved_body::<1>();
}

/// `FrameBuf::fill_le_bytes`: bytes-per-sample outside 1..=4 and over-fill are errors, not panics.
/// (A byte count that is not a multiple of bytes-per-sample is outside the listed domain of C17.)
//@ unit props=C17 tier=quick kind=complete timeout=900 funcs="FrameBuf::fill_le_bytes; le_bytes_to_i32s" bound="capacity 1x32, 0..=40 samples"
#[kani::proof]
#[kani::unwind(42)]
#[kani::stub(std::fmt::format, stub_format)]
fn c17_fill_le_bytes() {
    let mut fb = FrameBuf::with_size(1, 32).unwrap();
    let data: [u8; 40] = kani::any();
    let bps: usize = kani::any();
    let n: usize = kani::any();
    kani::assume(n <= 40);
    if 1 <= bps && bps <= 4 {
        kani::assume(n % bps == 0);
    }
    let r = fb.fill_le_bytes(&data[0..n], bps);
    if bps == 0 || bps > 4 {
        assert!(r.is_err());
    } else if n / bps > 32 {
        assert!(r.is_err());
    }
    if r.is_ok() {
        assert!(fb.filled_size() <= fb.size());
    }
    kani::cover!(bps == 1 && n == 40);
    kani::cover!(bps == 0);
    kani::cover!(bps == 5);
}

/// `FrameBuf::verify_samples(bits)`:  Ok  <=>  every FILLED sample of every channel lies in
/// [-2^(bits-1), 2^(bits-1)-1]; samples beyond `filled_size` are not looked at.
//@ unit props=C17 tier=quick kind=complete timeout=900 funcs="FrameBuf::verify_samples; find_min_and_max" bound="2 channels x 2 filled samples of capacity 3; every i32 value, every supported width"
#[kani::proof]
#[kani::unwind(66)]
#[kani::stub(std::fmt::format, stub_format)]
fn c17_verify_samples() {
    let vals: [i32; 4] = kani::any();
    let samples = vec![vals[0], vals[1], i32::MAX, vals[2], vals[3], i32::MIN];
    let fb = framebuf_from_parts(samples, 3, 2);
    let bits: usize = kani::any();
    kani::assume(bits == 8 || bits == 12 || bits == 16 || bits == 20 || bits == 24);
    let lo = -(1i64 << (bits - 1));
    let hi = (1i64 << (bits - 1)) - 1;
    let mut all_in = true;
    let mut i = 0;
    while i < 4 {
        let v = vals[i] as i64;
        if v < lo || v > hi {
            all_in = false;
        }
        i += 1;
    }
    let r = fb.verify_samples(bits);
    assert!(r.is_ok() == all_in);
    kani::cover!(all_in);
    kani::cover!(!all_in);
}

// ================================================================================================
// C10: the mid/side scratch frame buffer
// ================================================================================================

/// `resize` + `fill_stereo_with_iter` on a DIRTY stereo buffer (previous capacity larger or
/// smaller, arbitrary stale samples and fill state): afterwards exactly the new pairs are visible
/// through `channel_slice`, `filled_size` is the number of pairs, nothing stale.
//@ unit props=C10,C01 tier=quick kind=bounded timeout=600 funcs="FrameBuf::resize; FrameBuf::fill_stereo_with_iter; FrameBuf::channel_slice (MSFRAMEBUF scratch)" bound="new capacity 3 with 2 pairs, previous capacity 2 or 5 with arbitrary contents"
#[kani::proof]
#[kani::unwind(12)]
fn c10_ms_framebuf_reuse() {
    c10_ms_framebuf_reuse_body(true);
    c10_ms_framebuf_reuse_body(false);
}
fn c10_ms_framebuf_reuse_body(bigger: bool) {
    let stale: [i32; 10] = kani::any();
    let old_fill: usize = kani::any();
    let mut fb = if bigger {
        kani::assume(old_fill <= 5);
        framebuf_from_parts(stale.to_vec(), 5, old_fill)
    } else {
        kani::assume(old_fill <= 2);
        framebuf_from_parts(stale[0..4].to_vec(), 2, old_fill)
    };
    let m: [i32; 2] = kani::any();
    let s: [i32; 2] = kani::any();
    fb.resize(3);
    fb.fill_stereo_with_iter([(m[0], s[0]), (m[1], s[1])].into_iter());
    assert!(fb.size() == 3 && fb.channels() == 2 && fb.filled_size() == 2);
    assert!(fb.channel_slice(0).len() == 2 && fb.channel_slice(1).len() == 2);
    assert!(fb.channel_slice(0)[0] == m[0] && fb.channel_slice(0)[1] == m[1]);
    assert!(fb.channel_slice(1)[0] == s[0] && fb.channel_slice(1)[1] == s[1]);
}

// ================================================================================================
// C03 / C02: the crate's own `Source` meets the contract the driver unit (Verus `driver`) assumes
// ================================================================================================

/// A `Fill` that records what it was given.
struct RecFill {
    calls: usize,
    len: usize,
    first: i32,
    last: i32,
    bytes_calls: usize,
}
impl Fill for RecFill {
    fn fill_interleaved(&mut self, interleaved: &[i32]) -> Result<(), SourceError> {
        self.calls += 1;
        self.len = interleaved.len();
        if !interleaved.is_empty() {
            self.first = interleaved[0];
            self.last = interleaved[interleaved.len() - 1];
        }
        Ok(())
    }
    fn fill_le_bytes(&mut self, _bytes: &[u8], _bytes_per_sample: usize) -> Result<(), SourceError> {
        self.bytes_calls += 1;
        Ok(())
    }
}

/// `MemSource::read_samples(block, dest)`: delivers exactly `min(block, remaining)` inter-channel
/// samples, the NEXT ones in order, through exactly one `fill_interleaved` call (so the frame
/// buffer and the MD5 context see the same samples), returns that count, and `len_hint()` is the
/// true total.  This is the `Source` contract of the Verus driver unit, proved for the crate's own
/// source; for foreign sources it is the trait documentation (assumption A-src).
//@ unit props=C03,C02,C04 tier=quick kind=bounded timeout=600 funcs="MemSource::read_samples; MemSource::read_samples_from; MemSource::len_hint; MemSource::len" bound="2 channels, 7 inter-channel samples, block sizes 1..=9, three consecutive reads"
#[kani::proof]
#[kani::unwind(20)]
fn c03_memsource_read() {
    let data: [i32; 14] = kani::any();
    let mut src = MemSource::from_samples(&data, 2, 16, 44100);
    assert!(src.len_hint() == Some(7));
    assert!(src.channels() == 2 && src.bits_per_sample() == 16 && src.sample_rate() == 44100);
    let block: usize = kani::any();
    kani::assume(1 <= block && block <= 9);
    let mut consumed = 0usize;
    let mut round = 0;
    while round < 3 {
        let mut rec = RecFill { calls: 0, len: 0, first: 0, last: 0, bytes_calls: 0 };
        let r = src.read_samples(block, &mut rec);
        let remaining = 7 - consumed;
        let expect = if block < remaining { block } else { remaining };
        assert!(r.is_ok());
        let n = r.unwrap_or(usize::MAX);
        assert!(n == expect);
        assert!(rec.calls == 1 && rec.bytes_calls == 0);
        assert!(rec.len == 2 * expect);
        if expect > 0 {
            assert!(rec.first == data[2 * consumed]);
            assert!(rec.last == data[2 * (consumed + expect) - 1]);
        }
        consumed += expect;
        round += 1;
    }
    kani::cover!(consumed == 7);
    kani::cover!(block == 3);
}
