// Harnesses for src/lpc.rs, property C07 second half (child module `lpc::verif_c07`):
// "every accepted configuration encodes every valid input without panicking" -- the consumers of
// `qlpc.window` (`fingerprint_window`, which asserts) and of `qlpc.quant_precision`
// (`find_shift`, which asserts, and `quantize_parameters`, which shifts by `precision - 1`).

// ================================================================================================
// qlpc.window
// ================================================================================================

/// Every window `Window::verify` accepts (Rectangle; Tukey with 0 <= alpha <= 1, unit
/// config::verif::c07_window_exact) is fingerprinted without tripping the function's own
/// `assert!` ("alpha is larger than 1"), and a Tukey window never collides with the rectangular
/// one.  Complete over every f32 in [0, 1] (including -0.0 and subnormals).  (How much of alpha the
/// fingerprint keeps is C10's business: lpc::verif::c10_window_key_injective.)
//@ unit props=C07 tier=quick kind=complete timeout=300 funcs="lpc::fingerprint_window"
#[kani::proof]
#[kani::unwind(4)]
fn c07_fingerprint_window_no_panic() {
    let rect = fingerprint_window(&Window::Rectangle);
    let alpha: f32 = kani::any();
    kani::assume(alpha >= 0.0 && alpha <= 1.0); // accepted by verify; excludes NaN
    let fp = fingerprint_window(&Window::Tukey { alpha });
    assert!(fp != rect);
    kani::cover!(alpha == 1.0);
    kani::cover!(alpha == 0.0 && alpha.is_sign_negative());
    kani::cover!(alpha == 0.4);
}

// ================================================================================================
// qlpc.quant_precision
// ================================================================================================

/// Post-condition of `quantize_parameters` wanted by the property for `N` finite coefficients and an
/// accepted precision: no panic, shift in 0..=15, the precision is recorded, `1 <= order <= N`, every
/// stored coefficient is a `precision`-bit two's complement number, and the component is accepted
/// by its own `verify`.
fn quantize_parameters_in_range<const N: usize>() {
    let coefs: [f64; N] = kani::any();
    let mut i = 0;
    while i < N {
        // LPC coefficients come out of Levinson-Durbin / a linear solve on finite statistics.
        kani::assume(coefs[i].is_finite());
        i += 1;
    }
    let precision: usize = kani::any();
    // accepted range of `qlpc.quant_precision` (unit config::verif::c07_qlpc_exact)
    kani::assume(1 <= precision && precision <= 15);

    let shift = find_shift(&coefs, precision);
    assert!(0 <= shift && shift <= 15);

    // NOTE: CBMC models `log2` / `powi` as bounded-error relations, not as functions (two calls
    // with the same argument may differ), so `qp.shift() == shift` is not provable here; the range
    // is asserted on both results separately.  Every obligation below holds for ANY value the
    // model lets `log2` / `powi` take, which is stronger than needed.
    let qp = quantize_parameters(&coefs, precision);
    assert!(0 <= qp.shift() && qp.shift() <= 15);
    assert!(qp.precision() == precision);
    assert!(1 <= qp.order() && qp.order() <= N);
    let lo = -(1i32 << (precision - 1));
    let hi = (1i32 << (precision - 1)) - 1;
    let mut j = 0;
    while j < N {
        if let Some(c) = qp.coefficient(j) {
            assert!(j < qp.order());
            assert!(lo <= c as i32 && c as i32 <= hi);
        } else {
            assert!(j >= qp.order());
        }
        j += 1;
    }
    // ... and the component is accepted by its own verification (order <= 24, shift, precision).
    assert!(crate::error::Verify::verify(&qp).is_ok());
    kani::cover!(precision == 1);
    kani::cover!(precision == 15 && qp.shift() == 15);
    kani::cover!(qp.shift() == 0);
    kani::cover!(qp.shift() == 7 && shift == 7);
    kani::cover!(qp.order() == N);
    kani::cover!(coefs[0] == 0.0);
}

/// One coefficient (the order-1 predictor).
//@ unit props=C07 tier=quick kind=bounded timeout=1500 funcs="lpc::find_shift; lpc::quantize_parameter; lpc::quantize_parameters" bound="1 coefficient (every finite f64), precision 1..=15 complete"
#[kani::proof]
#[kani::unwind(34)]
#[kani::stub(std::fmt::format, stub_format)]
fn c07_quantize_parameters_n1() {
    quantize_parameters_in_range::<1>();
}

/// Two coefficients (exercises the max-reduction of `find_shift` and the tail-zero trimming).
//@ unit props=C07,C02 tier=thorough kind=bounded timeout=1500 funcs="lpc::find_shift; lpc::quantize_parameter; lpc::quantize_parameters" bound="2 coefficients (every finite f64), precision 1..=15 complete"
#[kani::proof]
#[kani::unwind(34)]
#[kani::stub(std::fmt::format, stub_format)]
fn c07_quantize_parameters_n2() {
    quantize_parameters_in_range::<2>();
}


/// C02 "non-negative shift": `find_shift` - the only producer of the LPC shift the encoder writes
/// into its 5-bit two's-complement field - returns a value in 0..=15 for every finite coefficient
/// and every accepted precision (a value of 16..=31 would be read back as negative).
//@ unit props=C02,C07,C01 tier=quick kind=bounded timeout=900 funcs="lpc::find_shift" bound="1 and 2 coefficients (every finite f64), precision 1..=15"
#[kani::proof]
#[kani::unwind(6)]
#[kani::stub(std::fmt::format, stub_format)]
fn c02_find_shift_range() {
    let c: [f64; 2] = kani::any();
    kani::assume(c[0].is_finite() && c[1].is_finite());
    let precision: usize = kani::any();
    kani::assume(1 <= precision && precision <= 15);
    let s1 = find_shift(&c[0..1], precision);
    assert!(0 <= s1 && s1 <= 15);
    let s2 = find_shift(&c, precision);
    assert!(0 <= s2 && s2 <= 15);
    kani::cover!(s1 == 15);
    kani::cover!(s2 == 0);
}
