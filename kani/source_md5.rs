// Harnesses for src/source.rs (child module `source::verif_md5`), built with the md-5 dependency
// replaced by the RECORDING stand-in kani/md5_spec (overlay rule O6): the digest state is the byte
// string fed so far.  Kani companions of the Verus unit context_fill: they run the real function
// bodies as compiled (no extraction), so they still decide when a body has been rewritten.

fn le_byte(v: i32, k: usize) -> u8 {
    ((v as u32) >> (8 * k)) as u8
}

fn any_bits() -> usize {
    let bits: usize = kani::any();
    kani::assume(bits == 8 || bits == 12 || bits == 16 || bits == 20 || bits == 24 || bits == 32);
    bits
}

/// C03 / C14: a block of 3 samples followed by a SHORTER block of 2 samples followed by an empty one,
/// through the integer path: the bytes hashed are exactly the little-endian bytes of the byte-rounded
/// width of every sample, in order, nothing else (no stale or padding bytes); the sample counter
/// advances by len / channels per block, the frame counter by one per non-empty block.
//@ unit props=C03,C14 tier=quick kind=bounded timeout=900 funcs="<Context as Fill>::fill_interleaved; Context::new; Context::total_samples; Context::current_frame_number; Context::bytes_per_sample" stubs="md5::Md5 -> recording stand-in (assumed: the digest is a function of the fed byte string)" bound="mono; blocks of 3, 2 and 0 samples; every width and sample value"
#[kani::proof]
#[kani::unwind(14)]
#[kani::stub(std::fmt::format, stub_format)]
fn c03_context_fill_interleaved_md5() {
    let bits = any_bits();
    let bps = (bits + 7) / 8;
    let mut ctx = Context::new(bits, 1);
    assert!(ctx.bytes_per_sample() == bps);
    assert!(ctx.md5.len == 0 && ctx.total_samples() == 0 && ctx.current_frame_number().is_none());
    let a: [i32; 3] = kani::any();
    let b: [i32; 2] = kani::any();
    assert!(ctx.fill_interleaved(&a).is_ok());
    assert!(ctx.md5.len == 3 * bps && ctx.total_samples() == 3);
    assert!(ctx.current_frame_number() == Some(0));
    assert!(ctx.fill_interleaved(&b).is_ok());
    assert!(ctx.fill_interleaved(&[]).is_ok());
    assert!(ctx.md5.len == 5 * bps && ctx.total_samples() == 5);
    assert!(ctx.current_frame_number() == Some(1));
    let all = [a[0], a[1], a[2], b[0], b[1]];
    let mut t = 0;
    while t < 5 {
        let mut k = 0;
        while k < bps {
            assert!(ctx.md5.fed[t * bps + k] == le_byte(all[t], k));
            k += 1;
        }
        t += 1;
    }
    kani::cover!(bits == 12 && a[0] < 0);
    kani::cover!(bits == 24);
    kani::cover!(bits == 32);
}

/// Stereo: the counter counts INTER-CHANNEL samples.
//@ unit props=C03,C14 tier=quick kind=bounded timeout=900 funcs="<Context as Fill>::fill_interleaved; Context::total_samples" stubs="md5::Md5 -> recording stand-in" bound="2 channels; blocks of 2 and 1 inter-channel samples; 16- and 24-bit"
#[kani::proof]
#[kani::unwind(14)]
#[kani::stub(std::fmt::format, stub_format)]
fn c03_context_fill_interleaved_stereo() {
    let bits: usize = kani::any();
    kani::assume(bits == 16 || bits == 24);
    let bps = bits / 8;
    let mut ctx = Context::new(bits, 2);
    let a: [i32; 4] = kani::any();
    let b: [i32; 2] = kani::any();
    assert!(ctx.fill_interleaved(&a).is_ok());
    assert!(ctx.fill_interleaved(&b).is_ok());
    assert!(ctx.total_samples() == 3);
    assert!(ctx.md5.len == 6 * bps);
    let all = [a[0], a[1], a[2], a[3], b[0], b[1]];
    let mut t = 0;
    while t < 6 {
        let mut k = 0;
        while k < bps {
            assert!(ctx.md5.fed[t * bps + k] == le_byte(all[t], k));
            k += 1;
        }
        t += 1;
    }
    kani::cover!(bits == 24);
}

/// C14 / C17: the packed-byte path hashes exactly the bytes it is given and advances the counters
/// like the integer path; a bytes-per-sample that disagrees with the context's width is an error
/// that leaves the context untouched.
//@ unit props=C03,C14,C17 tier=quick kind=bounded timeout=900 funcs="<Context as Fill>::fill_le_bytes" stubs="md5::Md5 -> recording stand-in" bound="mono; 3 samples then 1 sample; every width 1..=4 bytes and byte value"
#[kani::proof]
#[kani::unwind(18)]
#[kani::stub(std::fmt::format, stub_format)]
fn c14_context_fill_le_bytes_md5() {
    let bits = any_bits();
    let bps = (bits + 7) / 8;
    let mut ctx = Context::new(bits, 1);
    let raw: [u8; 16] = kani::any();
    let claimed: usize = kani::any();
    kani::assume(claimed <= 5);
    let r = ctx.fill_le_bytes(&raw[0..3 * bps], claimed);
    if claimed != bps {
        assert!(r.is_err());
        assert!(ctx.md5.len == 0 && ctx.total_samples() == 0 && ctx.current_frame_number().is_none());
    } else {
        assert!(r.is_ok());
        assert!(ctx.fill_le_bytes(&raw[12..12 + bps], bps).is_ok());
        assert!(ctx.md5.len == 4 * bps && ctx.total_samples() == 4);
        assert!(ctx.current_frame_number() == Some(1));
        let mut i = 0;
        while i < 3 * bps {
            assert!(ctx.md5.fed[i] == raw[i]);
            i += 1;
        }
        let mut k = 0;
        while k < bps {
            assert!(ctx.md5.fed[3 * bps + k] == raw[12 + k]);
            k += 1;
        }
    }
    kani::cover!(claimed == bps && bps == 3);
    kani::cover!(claimed != bps);
}

/// `Context::md5_digest` is the digest of the bytes fed so far and does not disturb the state.
//@ unit props=C03 tier=quick kind=complete timeout=600 funcs="Context::md5_digest" stubs="md5::Md5 -> recording stand-in"
#[kani::proof]
#[kani::unwind(18)]
#[kani::stub(std::fmt::format, stub_format)]
fn c03_context_md5_digest() {
    let mut ctx = Context::new(16, 1);
    let a: [i32; 2] = kani::any();
    assert!(ctx.fill_interleaved(&a).is_ok());
    let d1 = ctx.md5_digest();
    let d2 = ctx.md5_digest();
    assert!(d1 == d2);
    assert!(d1[0] == 4 && d1[1] == le_byte(a[0], 0) && d1[2] == le_byte(a[0], 1) && d1[3] == le_byte(a[1], 0));
    assert!(ctx.md5.len == 4);
}

/// Long blocks (more samples than any internal batch size a rewrite might use) with channel counts
/// that do not divide a power of two: the byte count and the inter-channel sample counter are exact.
//@ unit props=C03,C14 tier=quick kind=bounded timeout=1200 funcs="<Context as Fill>::fill_interleaved; Context::total_samples" stubs="md5::Md5 -> recording stand-in" bound="3 channels x 22 samples (66 values) then 7 channels x 19 samples (133 values), 16-bit; the first 48 hashed bytes are compared"
#[kani::proof]
#[kani::unwind(300)]
#[kani::stub(std::fmt::format, stub_format)]
fn c03_context_fill_interleaved_long() {
    let mut ctx = Context::new(16, 3);
    let a: [i32; 66] = kani::any();
    assert!(ctx.fill_interleaved(&a).is_ok());
    assert!(ctx.total_samples() == 22);
    assert!(ctx.md5.len == 132);
    let mut t = 0;
    while t < 24 {
        assert!(ctx.md5.fed[2 * t] == le_byte(a[t], 0) && ctx.md5.fed[2 * t + 1] == le_byte(a[t], 1));
        t += 1;
    }
    let mut ctx7 = Context::new(16, 7);
    let b: [i32; 133] = kani::any();
    assert!(ctx7.fill_interleaved(&b).is_ok());
    assert!(ctx7.total_samples() == 19);
    assert!(ctx7.md5.len == 266);
    assert!(ctx7.current_frame_number() == Some(0));
}
