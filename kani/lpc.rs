// Harnesses for src/lpc.rs (child module `lpc::verif`).

use crate::component::QuantizedParameters;

/// C01.5: `compute_error` (both the i32 fast path and the i64 fallback; the branch is symbolic):
/// for t >= order:  errors[t] + (sum_j c_j * s[t-1-j] >> shift) == s[t]  in 64-bit arithmetic and no
/// overflow panic, UNDER assumption A1 (the exact residual fits i32 -- the encoder never checks
/// it; coefficients come out of floating point).  errors[t] == 0 below the order.
fn c01_compute_error_body<const N: usize, const ORDER: usize>() {
    let s: [i32; N] = kani::any();
    let mut i = 0;
    while i < N {
        kani::assume(spec_fits(s[i] as i64, 25));
        i += 1;
    }
    let c: [i16; ORDER] = kani::any();
    let precision: usize = kani::any();
    kani::assume(1 <= precision && precision <= 15);
    let mut j = 0;
    while j < ORDER {
        kani::assume(spec_fits(c[j] as i64, precision));
        j += 1;
    }
    let shift: i8 = kani::any();
    kani::assume(0 <= shift && shift <= 15);
    let qp = QuantizedParameters::from_parts(&c, ORDER, shift, precision);
    // A1: the exact residual fits in 32 bits
    let mut t = ORDER;
    while t < N {
        let mut pred: i64 = 0;
        let mut j = 0;
        while j < ORDER {
            pred += c[j] as i64 * s[t - 1 - j] as i64;
            j += 1;
        }
        let exact = s[t] as i64 - (pred >> shift);
        kani::assume(spec_fits(exact, 32));
        // and so does the prediction itself (the i32 path subtracts it from the sample)
        kani::assume(spec_fits(pred >> shift, 32));
        t += 1;
    }
    let mut errors = [0x5a5a_5a5ai32; N];
    compute_error(&qp, &s, &mut errors);
    let mut t = 0;
    while t < N {
        if t < ORDER {
            assert!(errors[t] == 0);
        } else {
            let mut pred: i64 = 0;
            let mut j = 0;
            while j < ORDER {
                pred += c[j] as i64 * s[t - 1 - j] as i64;
                j += 1;
            }
            assert!(errors[t] as i64 + (pred >> shift) == s[t] as i64);
        }
        t += 1;
    }
}

//@ unit props=C01 tier=thorough kind=bounded timeout=3000 funcs="lpc::compute_error; lpc::compute_error_impl::<i32,64>; lpc::compute_error_impl::<i64,64>; find_max_abs" bound="3 samples, order 1, every 25-bit sample, coefficient, precision and shift" note="assumption A1: the exact residual (and the shifted prediction) fit in i32; without it Kani refutes compute_error (overflow in the i32 path, truncation in the i64 path)"
#[kani::proof]
#[kani::unwind(66)]
fn c01_compute_error_n3_o1() {
    c01_compute_error_body::<3, 1>();
}

// ================================================================================================
// C10: the window cache key
// ================================================================================================

/// Two (window, size) pairs share a cache entry only if they denote the same window: equal size
/// and either both rectangular or Tukey with bit-identical alpha -- in particular two alphas that
/// differ by less than 2^-16 never share an entry.  Complete over all f32 pairs in [0, 1].
//@ unit props=C10 tier=quick kind=complete timeout=300 funcs="lpc::fingerprint_window; lpc::WindowKey::new"
#[kani::proof]
#[kani::unwind(4)]
fn c10_window_key_injective() {
    let a1: f32 = kani::any();
    let a2: f32 = kani::any();
    kani::assume(0.0 <= a1 && a1 <= 1.0 && 0.0 <= a2 && a2 <= 1.0);
    let r1: bool = kani::any();
    let r2: bool = kani::any();
    let w1 = if r1 { Window::Rectangle } else { Window::Tukey { alpha: a1 } };
    let w2 = if r2 { Window::Rectangle } else { Window::Tukey { alpha: a2 } };
    let n1: usize = kani::any();
    let n2: usize = kani::any();
    let k1 = WindowKey::new(n1, &w1);
    let k2 = WindowKey::new(n2, &w2);
    if k1 == k2 {
        assert!(n1 == n2);
        assert!(r1 == r2);
        if !r1 {
            assert!(a1.to_bits() == a2.to_bits());
        }
    }
    kani::cover!(k1 == k2 && !r1);
    kani::cover!(k1 != k2 && !r1 && !r2 && n1 == n2 && (a1 - a2) < 0.00001 && (a2 - a1) < 0.00001);
}

//@ unit props=C01 tier=quick kind=bounded timeout=1200 funcs="lpc::compute_error; lpc::compute_error_impl::<i32,64>; lpc::compute_error_impl::<i64,64>; find_max_abs" bound="2 samples, order 1 (one predicted sample), every 25-bit sample, coefficient, precision and shift" note="assumption A1 as in c01_compute_error_n3_o1"
#[kani::proof]
#[kani::unwind(66)]
fn c01_compute_error_n2_o1() {
    c01_compute_error_body::<2, 1>();
}
