// Harnesses for src/component/bitrepr.rs (child module `component::bitrepr::verif`).
// C02 (layout per RFC 9639), C08 (count_bits == bits written), C15 (leaf inverses).

use crate::bitsink::verif::SpecSink;
use crate::component::datatype::BlockSizeSpec;
use crate::component::datatype::FrameOffset;
use crate::component::datatype::QuantizedParameters;
use crate::component::datatype::SampleRateSpec;
use crate::component::datatype::SampleSizeSpec;

// ================================================================================================
// UTF-8-like coded number: complete over all 2^36 values (split by byte count) + rejection above
// ================================================================================================

pub(crate) const UTF8_CLASS_LO: [u64; 8] = [0, 0, 1 << 7, 1 << 11, 1 << 16, 1 << 21, 1 << 26, 1 << 31];
pub(crate) const UTF8_CLASS_HI: [u64; 8] = [0, 1 << 7, 1 << 11, 1 << 16, 1 << 21, 1 << 26, 1 << 31, 1 << 36];

/// For every value whose shortest code has L bytes: the encoder emits exactly L bytes, an RFC 9639
/// decoder (shortest-form, continuation bytes 10xxxxxx) reads the value back, and
/// `utf8like_bytesize` (used by count_bits) agrees.
fn c02_utf8_body<const L: usize>() {
    let v: u64 = kani::any();
    kani::assume(UTF8_CLASS_LO[L] <= v && v < UTF8_CLASS_HI[L]);
    let r = encode_to_utf8like(v);
    assert!(r.is_ok());
    let bytes = r.unwrap();
    assert!(bytes.len() == L);
    // (the argument is converted to whatever integer type the function takes)
    let arg = num_traits::cast(v);
    assert!(arg.is_some());
    assert!(utf8like_bytesize(arg.unwrap_or(0)) == L);
    let mut buf = [0u8; 7];
    let mut i = 0;
    while i < L {
        buf[i] = bytes[i];
        i += 1;
    }
    assert!(spec_utf8_decode(&buf[0..L]) == Some((v, L)));
    // and it is the closed-form RFC code (the callee contract used by the header units)
    let spec = spec_utf8_encode(v, L);
    let mut i = 0;
    while i < 7 {
        assert!(buf[i] == spec[i]);
        i += 1;
    }
}

/// Callee contracts for `encode_to_utf8like`, one per byte-count class: exactly the closed-form
/// RFC code with a CONCRETE length (symbolic lengths make the header units intractable).  Proved
/// equal to the real function on each class by units c02_utf8_len1..7.
macro_rules! utf8_contract {
    ($name:ident, $l:expr) => {
        pub(crate) fn $name(val: u64) -> Result<heapless::Vec<u8, 7>, RangeError> {
            kani::assume(UTF8_CLASS_LO[$l] <= val && val < UTF8_CLASS_HI[$l]);
            let spec = spec_utf8_encode(val, $l);
            let mut ret = heapless::Vec::new();
            let mut i = 0;
            while i < $l {
                ret.push(spec[i]).unwrap();
                i += 1;
            }
            Ok(ret)
        }
    };
}
macro_rules! bytesize_contract {
    ($name:ident, $l:expr) => {
        /// callee contract for `utf8like_bytesize` on the class (proved by c02_utf8_len*): a
        /// CONCRETE byte count, so that `reserve(count_bits())` keeps a concrete capacity.
        pub(crate) const fn $name(_val: usize) -> usize {
            $l
        }
    };
}
bytesize_contract!(contract_bytesize_l1, 1);
bytesize_contract!(contract_bytesize_l2, 2);
bytesize_contract!(contract_bytesize_l3, 3);
bytesize_contract!(contract_bytesize_l4, 4);
bytesize_contract!(contract_bytesize_l5, 5);
bytesize_contract!(contract_bytesize_l6, 6);
utf8_contract!(contract_utf8_l1, 1);
pub(crate) fn contract_utf8_l1_pub(val: u64) -> Result<heapless::Vec<u8, 7>, RangeError> {
    contract_utf8_l1(val)
}
pub(crate) const fn contract_bytesize_l1_pub(val: usize) -> usize {
    contract_bytesize_l1(val)
}
utf8_contract!(contract_utf8_l2, 2);
utf8_contract!(contract_utf8_l3, 3);
utf8_contract!(contract_utf8_l4, 4);
utf8_contract!(contract_utf8_l5, 5);
utf8_contract!(contract_utf8_l6, 6);

//@ unit name=c02_utf8_len1 props=C02,C08,C15,C18 tier=quick kind=complete timeout=300 funcs="encode_to_utf8like; utf8like_bytesize"
//@ unit name=c02_utf8_len2 props=C02,C08,C15,C18 tier=quick kind=complete timeout=300 funcs="encode_to_utf8like; utf8like_bytesize"
//@ unit name=c02_utf8_len3 props=C02,C08,C15,C18 tier=quick kind=complete timeout=300 funcs="encode_to_utf8like; utf8like_bytesize"
//@ unit name=c02_utf8_len4 props=C02,C08,C15,C18 tier=quick kind=complete timeout=300 funcs="encode_to_utf8like; utf8like_bytesize"
//@ unit name=c02_utf8_len5 props=C02,C08,C15,C18 tier=quick kind=complete timeout=300 funcs="encode_to_utf8like; utf8like_bytesize"
//@ unit name=c02_utf8_len6 props=C02,C08,C15,C18 tier=quick kind=complete timeout=300 funcs="encode_to_utf8like; utf8like_bytesize"
//@ unit name=c02_utf8_len7 props=C02,C08,C15,C18 tier=quick kind=complete timeout=300 funcs="encode_to_utf8like; utf8like_bytesize"
macro_rules! utf8_harness {
    ($name:ident, $l:expr) => {
        #[kani::proof]
        #[kani::unwind(9)]
        #[kani::stub(std::fmt::format, stub_format)]
        fn $name() {
            c02_utf8_body::<$l>();
        }
    };
}
utf8_harness!(c02_utf8_len1, 1);
utf8_harness!(c02_utf8_len2, 2);
utf8_harness!(c02_utf8_len3, 3);
utf8_harness!(c02_utf8_len4, 4);
utf8_harness!(c02_utf8_len5, 5);
utf8_harness!(c02_utf8_len6, 6);
utf8_harness!(c02_utf8_len7, 7);

/// Values of 2^36 and above are rejected (no silent truncation).
//@ unit props=C02,C17 tier=quick kind=complete timeout=300 funcs="encode_to_utf8like"
#[kani::proof]
#[kani::unwind(9)]
#[kani::stub(std::fmt::format, stub_format)]
fn c02_utf8_rejects_37_bits() {
    let v: u64 = kani::any();
    kani::assume(v >= (1u64 << 36));
    assert!(encode_to_utf8like(v).is_err());
}

// ================================================================================================
// CRC implementations (table driven, slice-by-16) against the bitwise RFC polynomials
// ================================================================================================

//@ unit props=C02,C16 tier=thorough kind=bounded timeout=600 funcs="HEADER_CRC (crc::Crc<u8, Table<16>>::checksum)" bound="messages of 0..=17 bytes (slice-by-16 step + per-byte tail), every byte value"
#[kani::proof]
#[kani::unwind(19)]
fn c02_crc8_matches_rfc() {
    let data: [u8; 17] = kani::any();
    let n: usize = kani::any();
    kani::assume(n <= 17);
    assert!(HEADER_CRC.checksum(&data[0..n]) == spec_crc8(&data[0..n]));
    kani::cover!(n == 17);
    kani::cover!(n == 0);
}

//@ unit props=C02,C16 tier=thorough kind=bounded timeout=600 funcs="FRAME_CRC (crc::Crc<u16, Table<16>>::checksum)" bound="messages of 0..=17 bytes (slice-by-16 step + per-byte tail), every byte value"
#[kani::proof]
#[kani::unwind(19)]
fn c02_crc16_matches_rfc() {
    let data: [u8; 17] = kani::any();
    let n: usize = kani::any();
    kani::assume(n <= 17);
    assert!(FRAME_CRC.checksum(&data[0..n]) == spec_crc16(&data[0..n]));
    kani::cover!(n == 17);
    kani::cover!(n == 0);
}

/// `ChannelAssignment::write`: 4 bits, `n - 1` for n independent channels (1..=8), 8/9/10 for
/// left-side / side-right / mid-side; more than 8 channels is an error; count_bits == 4.
//@ unit props=C02,C08 tier=quick kind=complete timeout=300 funcs="ChannelAssignment::write; ChannelAssignment::count_bits"
#[kani::proof]
#[kani::unwind(10)]
#[kani::stub(std::fmt::format, stub_format)]
fn c02_channel_assignment_write() {
    let n: u8 = kani::any();
    kani::assume(n >= 1);
    let mut s = SpecSink::new();
    let r = ChannelAssignment::Independent(n).write(&mut s);
    if n > 8 {
        assert!(r.is_err());
        assert!(s.id.len == 0);
    } else {
        assert!(r.is_ok());
        assert!(s.id.len == 4 && (s.id.w[0] >> 60) as u8 == n - 1);
    }
    let mut s = SpecSink::new();
    assert!(ChannelAssignment::LeftSide.write(&mut s).is_ok());
    assert!(s.id.len == 4 && (s.id.w[0] >> 60) == 8);
    let mut s = SpecSink::new();
    assert!(ChannelAssignment::RightSide.write(&mut s).is_ok());
    assert!(s.id.len == 4 && (s.id.w[0] >> 60) == 9);
    let mut s = SpecSink::new();
    assert!(ChannelAssignment::MidSide.write(&mut s).is_ok());
    assert!(s.id.len == 4 && (s.id.w[0] >> 60) == 10);
    assert!(ChannelAssignment::MidSide.count_bits() == 4);
    assert!(ChannelAssignment::Independent(n).count_bits() == 4);
}
