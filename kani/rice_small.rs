// Harnesses for src/rice.rs (child module `rice::verif_small`), built WITHOUT the injected Kani
// function contracts (unit attribute nocontracts=1): this unit replaces the contracted function
// `finest_partition_order` by a callee contract of its own.  The helpers are copies of those in rice.rs.

static mut STUB_TABLES: [[u32; 16]; 4] = [[0; 16]; 4];
static mut STUB_TABLE_COUNT: usize = 0;

fn contract_from_errors(_errors: &[u32], _offset: usize) -> PrcBitTable {
    let a: [u32; 16] = kani::any();
    let mut i = 0;
    while i < 16 {
        kani::assume(4 <= a[i] && a[i] <= MAX_P_TO_BITS);
        i += 1;
    }
    unsafe {
        if STUB_TABLE_COUNT < 4 {
            STUB_TABLES[STUB_TABLE_COUNT] = a;
        }
        STUB_TABLE_COUNT += 1;
    }
    PrcBitTable {
        p_to_bits: simd::u32x16::from_array(a),
    }
}

fn table_min(t: &[u32; 16], max_p: usize) -> u64 {
    let mut best = u64::MAX;
    let mut p = 0;
    while p < 16 {
        if p <= max_p && (t[p] as u64) < best {
            best = t[p] as u64;
        }
        p += 1;
    }
    best
}

fn merged(a: &[u32; 16], b: &[u32; 16]) -> [u32; 16] {
    let mut m = [0u32; 16];
    let mut p = 0;
    while p < 16 {
        let v = a[p] as u64 + b[p] as u64 - 4;
        m[p] = if v < MAX_P_TO_BITS as u64 { v as u32 } else { MAX_P_TO_BITS };
        p += 1;
    }
    m
}

/// contract of `finest_partition_order` for the small-block unit: SOME order whose partitions divide
/// the block - here 1 for a block of 4 (the real function would need 128 samples for two
/// partitions; what `find` does with the order does not depend on the partition length).
fn contract_finest_order_one(_size: usize, _min_part_size: usize) -> usize {
    1
}

/// The same statement on a block of 4 samples split in two partitions (the finest order is supplied
/// by a callee contract, the tables by `from_errors`' contract): the ORDER decision, the parameter
/// hand-over and the independence of the finder's stale scratch, at a fraction of the cost of the
/// 128-sample version above (which runs in the thorough tier).
//@ unit props=C13,C10 tier=quick kind=bounded timeout=900 nocontracts=1 funcs="PrcParameterFinder::find; rice::eval_partitions; rice::merge_partitions; PrcBitTable::merge; PrcBitTable::minimizer" stubs="PrcBitTable::from_errors -> some table with entries in [4, 2^28) (c13_from_errors_*); finest_partition_order -> an order whose partitions divide the block (c02_finest_partition_order_contract)" bound="block 4 in two partitions; dirty finder with 4 stale tables; tables fully symbolic"
#[kani::proof]
#[kani::unwind(68)]
#[kani::stub(PrcBitTable::from_errors, contract_from_errors)]
#[kani::stub(finest_partition_order, contract_finest_order_one)]
fn c13_find_two_partitions_small() {
    let signal = [0i32; 4];
    let max_p: usize = kani::any();
    kani::assume(max_p <= 14);
    let mut finder = PrcParameterFinder::default();
    // dirty scratch from a previous call on a LARGER block (more partitions than this one):
    // every scratch vector is longer than this call needs and holds arbitrary values
    let stale: [[u32; 16]; 4] = kani::any();
    finder.tables = vec![
        PrcBitTable { p_to_bits: simd::u32x16::from_array(stale[0]) },
        PrcBitTable { p_to_bits: simd::u32x16::from_array(stale[1]) },
        PrcBitTable { p_to_bits: simd::u32x16::from_array(stale[2]) },
        PrcBitTable { p_to_bits: simd::u32x16::from_array(stale[3]) },
    ];
    let stale_ps: [usize; 4] = kani::any();
    finder.ps = vec![stale_ps[0], stale_ps[1], stale_ps[2]];
    finder.min_ps = vec![stale_ps[3], stale_ps[0], stale_ps[1], stale_ps[2]];
    finder.errors = vec![0xdead_beef; 3];
    let r = finder.find(&signal, 0, max_p);
    let (t0, t1, n) = unsafe { (STUB_TABLES[0], STUB_TABLES[1], STUB_TABLE_COUNT) };
    assert!(n == 2);
    let cost1 = table_min(&t0, max_p) + table_min(&t1, max_p);
    let m = merged(&t0, &t1);
    let cost0 = table_min(&m, max_p);
    let best = if cost0 < cost1 { cost0 } else { cost1 };
    assert!(r.code_bits as u64 == best);
    assert!(r.order <= 1 && r.ps.len() == 1usize << r.order);
    if r.order == 1 {
        assert!(cost1 <= cost0);
        assert!(r.ps[0] as usize <= max_p && r.ps[1] as usize <= max_p);
        assert!(t0[r.ps[0] as usize] as u64 == table_min(&t0, max_p));
        assert!(t1[r.ps[1] as usize] as u64 == table_min(&t1, max_p));
    } else {
        assert!(cost0 < cost1);
        assert!(r.ps[0] as usize <= max_p);
        assert!(m[r.ps[0] as usize] as u64 == cost0);
    }
    kani::cover!(r.order == 0);
    kani::cover!(r.order == 1);
}
