// Harnesses for src/component/decode.rs (child module `component::decode::verif`).
// C15 / C01: the decoder maps the components the encoder builds back to exactly the original
// samples.  Oracles are the independent spec functions of verif_support (`spec_zigzag`,
// `spec_unzigzag`, `spec_fixed_predict`, `spec_unmix_midside`), all in 64-bit arithmetic.
//
// Sizes are tiny and CONCRETE (block size <= 4), every sample / coefficient value is symbolic.

/// Callee contract for `arrayutils::find_max::<N>` (64-lane fakesimd reduction, README pitfall 5):
/// the maximum element, 0 for the empty slice.
fn contract_find_max<const N: usize>(data: &[u32]) -> u32
where
    crate::fakesimd::LaneCount<N>: crate::fakesimd::SupportedLaneCount,
{
    let mut m = 0u32;
    let mut i = 0;
    while i < data.len() {
        if data[i] > m {
            m = data[i];
        }
        i += 1;
    }
    m
}

/// Callee contract for `arrayutils::wrapping_sum::<T, N>`: the sum modulo 2^bits.
fn contract_wrapping_sum<T, const N: usize>(data: &[T]) -> T
where
    T: crate::fakesimd::SimdElement + num_traits::WrappingAdd + num_traits::Zero,
    crate::fakesimd::Simd<T, N>: crate::fakesimd::SimdUint<Scalar = T>
        + std::ops::Add<Output = crate::fakesimd::Simd<T, N>>,
    crate::repeat::Count<N>: crate::repeat::Repeat,
    crate::fakesimd::LaneCount<N>: crate::fakesimd::SupportedLaneCount,
{
    let mut s = T::zero();
    let mut i = 0;
    while i < data.len() {
        s = s.wrapping_add(&data[i]);
        i += 1;
    }
    s
}

/// Bound on residual magnitudes in the units below: 2^30.  Residuals of <= 25-bit audio under the
/// fixed predictors are below 2^29 (16 * 2^24 + 2^24); RFC 9639 requires every residual to be
/// representable in 32 bits.  `decode_signbit(u32::MAX)` (the folding of i32::MIN) overflows -- a
/// documented precondition of rice::decode_signbit (contracts.txt).
const RES_LIMIT: i64 = 1 << 30;

/// The Rice split of the folded residual, as coding::quotients_and_remainders produces it
/// (unit coding::verif::c01_quotients_and_remainders): (q << p) + r == zigzag(e), r < 2^p.
fn rice_split(e: i64, p: u8) -> (u32, u32) {
    let u = spec_zigzag(e as i32);
    ((u >> p) as u32, (u & ((1u64 << p) - 1)) as u32)
}

/// Builds a `Residual` of block size N with partition order `po` (N >> po samples per partition),
/// `warm` leading warm-up slots (zero quotient/remainder) and the Rice split of `e[warm..]`.
fn residual_of<const N: usize>(e: &[i64; N], warm: usize, po: u8, params: &[u8]) -> Residual {
    let part_len = N >> po;
    let mut q = vec![0u32; N];
    let mut r = vec![0u32; N];
    let mut t = warm;
    while t < N {
        let (qq, rr) = rice_split(e[t], params[t / part_len]);
        q[t] = qq;
        r[t] = rr;
        t += 1;
    }
    Residual::from_parts(po, N, warm, params.to_vec(), q, r)
}

fn any_residuals<const N: usize>() -> [i64; N] {
    let a: [i32; N] = kani::any();
    let mut e = [0i64; N];
    let mut i = 0;
    while i < N {
        kani::assume(-RES_LIMIT < a[i] as i64 && (a[i] as i64) < RES_LIMIT);
        e[i] = a[i] as i64;
        i += 1;
    }
    e
}

fn any_samples<const N: usize>(bits: usize) -> [i64; N] {
    let a: [i32; N] = kani::any();
    let mut s = [0i64; N];
    let mut i = 0;
    while i < N {
        kani::assume(spec_fits(a[i] as i64, bits));
        s[i] = a[i] as i64;
        i += 1;
    }
    s
}

// ================================================================================================
// Residual: un-Rice + un-fold
// ================================================================================================

/// `Residual::copy_signal` returns exactly the residuals whose Rice split the component stores:
/// dest[t] == e[t] == spec_unzigzag((q[t] << p) + r[t]), zero in the warm-up slots, one Rice
/// parameter (0..=14, symbolic) per partition.
//@ unit props=C15,C01 tier=quick kind=bounded timeout=600 funcs="Residual::copy_signal; Residual::signal_len; rice::decode_signbit" stubs="arrayutils::find_max -> contract_find_max (maximum element); arrayutils::wrapping_sum -> contract_wrapping_sum (sum mod 2^32)" bound="block size 4 with partition order 0 and 1, warm-up 0..=2; every residual |e| < 2^30, every Rice parameter 0..=14"
#[kani::proof]
#[kani::unwind(6)]
#[kani::stub(crate::arrayutils::find_max, contract_find_max)]
#[kani::stub(crate::arrayutils::wrapping_sum, contract_wrapping_sum)]
fn c15_residual_copy_signal() {
    let shapes: [(u8, usize); 3] = [(0, 0), (1, 1), (1, 2)]; // (partition order, warm-up)
    let mut k = 0;
    while k < shapes.len() {
        let (po, warm) = shapes[k];
        let e: [i64; 4] = any_residuals::<4>();
        let p0: u8 = kani::any();
        let p1: u8 = kani::any();
        kani::assume(p0 <= 14 && p1 <= 14);
        let res = if po == 0 {
            residual_of::<4>(&e, warm, 0, &[p0])
        } else {
            residual_of::<4>(&e, warm, 1, &[p0, p1])
        };
        assert!(res.signal_len() == 4);
        let mut dest = [7i32; 4];
        res.copy_signal(&mut dest);
        let mut t = 0;
        while t < 4 {
            if t < warm {
                assert!(dest[t] == 0);
            } else {
                assert!(dest[t] as i64 == e[t]);
                let p = if po == 0 || t < 2 { p0 } else { p1 };
                let u = ((res.quotients()[t] as u64) << p) + res.remainders()[t] as u64;
                assert!(spec_unzigzag(u) == dest[t] as i64);
            }
            t += 1;
        }
        kani::cover!(po == 1 && e[3] == -(RES_LIMIT - 1) && p1 == 0);
        kani::cover!(po == 0 && e[0] == RES_LIMIT - 1 && p0 == 14);
        k += 1;
    }
}

// ================================================================================================
// decode_lpc / FixedLpc / Lpc: prediction + residual == original samples
// ================================================================================================

/// `FixedLpc::copy_signal`, every fixed order 0..=4: for ANY in-range samples s[0..n] (n = order+2)
/// the component holding warm-up s[0..order] and residuals e[t] = s[t] - spec_fixed_predict(..)
/// decodes to exactly s.
//@ unit props=C15,C01 tier=quick kind=bounded timeout=900 funcs="FixedLpc::copy_signal; decode::decode_lpc; Residual::copy_signal; FIXED_LPC_COEFS" stubs="arrayutils::find_max -> contract_find_max; arrayutils::wrapping_sum -> contract_wrapping_sum" bound="orders 0..=4, block size order+2, one partition; samples symbolic in 8..=25 bits"
#[kani::proof]
#[kani::unwind(8)]
#[kani::stub(crate::arrayutils::find_max, contract_find_max)]
#[kani::stub(crate::arrayutils::wrapping_sum, contract_wrapping_sum)]
fn c15_fixed_lpc_decode() {
    c15_fixed_body::<2>(0);
    c15_fixed_body::<3>(1);
    c15_fixed_body::<4>(2);
    c15_fixed_body::<5>(3);
    c15_fixed_body::<6>(4);
}

fn c15_fixed_body<const N: usize>(order: usize) {
    let bits: usize = kani::any();
    kani::assume(8 <= bits && bits <= 25);
    let s: [i64; N] = any_samples::<N>(bits);
    let p: u8 = kani::any();
    kani::assume(p <= 14);
    // encoder side, from the RFC 9639 definition of the fixed predictors
    let mut e = [0i64; N];
    let mut t = order;
    while t < N {
        let mut prev = [0i64; 4];
        let mut j = 0;
        while j < order {
            prev[j] = s[t - 1 - j];
            j += 1;
        }
        e[t] = s[t] - spec_fixed_predict(order, &prev);
        assert!(-RES_LIMIT < e[t] && e[t] < RES_LIMIT); // 16 * 2^24 < 2^30
        t += 1;
    }
    let res = residual_of::<N>(&e, order, 0, &[p]);
    let mut warm = heapless::Vec::<i32, 4>::new();
    let mut j = 0;
    while j < order {
        warm.push(s[j] as i32).unwrap();
        j += 1;
    }
    let comp = FixedLpc::from_parts(warm, res, bits as u8);
    assert!(comp.signal_len() == N);
    let mut dest = [0i32; N];
    comp.copy_signal(&mut dest);
    let mut t = 0;
    while t < N {
        assert!(dest[t] as i64 == s[t]);
        t += 1;
    }
    kani::cover!(bits == 25 && s[N - 1] == -(1 << 24));
}

/// `decode_lpc` / `Lpc::copy_signal`, orders 1 and 2: for ANY in-range samples, ANY quantized
/// coefficients of ANY precision 1..=15 and ANY shift 0..=15, the component holding the warm-up
/// and e[t] = s[t] - ((sum_j c_j * s[t-1-j]) >> shift) (64-bit, arithmetic shift: RFC 9639
/// section 9.2.6) decodes to exactly s -- provided the residual is below 2^30 in magnitude.
//@ unit props=C15,C01 tier=thorough kind=bounded timeout=900 funcs="Lpc::copy_signal; decode::decode_lpc; Residual::copy_signal; QuantizedParameters::coefs" stubs="arrayutils::find_max -> contract_find_max; arrayutils::wrapping_sum -> contract_wrapping_sum" bound="orders 1..=2, block size order+2, one partition; samples symbolic in 8..=25 bits; |residual| < 2^30"
#[kani::proof]
#[kani::unwind(34)]
#[kani::stub(std::fmt::format, stub_format)]
#[kani::stub(crate::arrayutils::find_max, contract_find_max)]
#[kani::stub(crate::arrayutils::wrapping_sum, contract_wrapping_sum)]
fn c15_lpc_decode() {
    c15_lpc_body::<3>(1);
    c15_lpc_body::<4>(2);
}

fn c15_lpc_body<const N: usize>(order: usize) {
    let bits: usize = kani::any();
    kani::assume(8 <= bits && bits <= 25);
    let s: [i64; N] = any_samples::<N>(bits);
    let p: u8 = kani::any();
    kani::assume(p <= 14);
    let precision: usize = kani::any();
    kani::assume(1 <= precision && precision <= 15);
    let shift: i8 = kani::any();
    kani::assume(0 <= shift && shift <= 15);
    let c: [i16; 2] = kani::any();
    kani::assume(spec_fits(c[0] as i64, precision) && spec_fits(c[1] as i64, precision));
    let mut e = [0i64; N];
    let mut t = order;
    while t < N {
        let mut pred = 0i64;
        let mut j = 0;
        while j < order {
            pred += (c[j] as i64) * s[t - 1 - j];
            j += 1;
        }
        e[t] = s[t] - (pred >> shift);
        kani::assume(-RES_LIMIT < e[t] && e[t] < RES_LIMIT);
        t += 1;
    }
    let res = residual_of::<N>(&e, order, 0, &[p]);
    let mut warm = heapless::Vec::<i32, { crate::constant::qlpc::MAX_ORDER }>::new();
    let mut j = 0;
    while j < order {
        warm.push(s[j] as i32).unwrap();
        j += 1;
    }
    let qp = QuantizedParameters::from_parts(&c[0..order], order, shift, precision);
    let comp = Lpc::from_parts(warm, qp, res, bits as u8);
    assert!(comp.signal_len() == N);
    let mut dest = [0i32; N];
    comp.copy_signal(&mut dest);
    let mut t = 0;
    while t < N {
        assert!(dest[t] as i64 == s[t]);
        t += 1;
    }
    kani::cover!(bits == 25 && shift == 15 && precision == 15);
    kani::cover!(shift == 0 && c[0] < 0);
}

// ================================================================================================
// Constant / Verbatim
// ================================================================================================

//@ unit props=C15,C01 tier=quick kind=bounded timeout=300 funcs="Constant::copy_signal; Verbatim::copy_signal; SubFrame::copy_signal; Decode::decode" bound="block size 3"
#[kani::proof]
#[kani::unwind(6)]
fn c15_constant_verbatim_decode() {
    let v: i32 = kani::any();
    let c: SubFrame = Constant::from_parts(3, v, 16).into();
    assert!(c.signal_len() == 3);
    let d = c.decode();
    assert!(d.len() == 3 && d[0] == v && d[1] == v && d[2] == v);
    let s: [i32; 3] = kani::any();
    let vb: SubFrame = Verbatim::from_samples(&s, 16).into();
    assert!(vb.signal_len() == 3);
    let d = vb.decode();
    assert!(d.len() == 3 && d[0] == s[0] && d[1] == s[1] && d[2] == s[2]);
}

// ================================================================================================
// Frame: stereo un-mixing + interleaving
// ================================================================================================

/// Callee contracts for the per-subframe decoding inside `Frame::copy_signal`: `signal_len` is
/// the block size and `copy_signal` writes the subframe's signal (established per subframe type by
/// c15_constant_verbatim_decode, c15_fixed_lpc_decode, c15_lpc_decode).  The k-th call hands out
/// the k-th channel chosen by the harness.  Needed because the SubFrame variant read back from the
/// `Vec<SubFrame>` is symbolic for CBMC, which makes `vec![0; signal_len()]` a symbolic-size
/// allocation (README pitfall 1; the un-stubbed harness runs out of memory).
static mut UNMIX_CH: [[i32; 2]; 2] = [[0; 2]; 2];
static mut UNMIX_CALLS: usize = 0;
fn contract_subframe_signal_len(_sf: &SubFrame) -> usize {
    2
}
fn contract_subframe_copy_signal(_sf: &SubFrame, dest: &mut [i32]) {
    unsafe {
        let k = UNMIX_CALLS;
        UNMIX_CALLS += 1;
        assert!(k < 2 && dest.len() >= 2);
        dest[0] = UNMIX_CH[k][0];
        dest[1] = UNMIX_CH[k][1];
    }
}

/// For ANY in-range left/right samples: the frame whose two subframes decode to the channel pair
/// the RFC 9639 encoder side defines (left/side, side/right, mid/side with side = l - r,
/// mid = (l + r) >> 1, or the plain pair) decodes to exactly l0 r0 l1 r1 (interleaved); mid/side
/// agrees with `spec_unmix_midside`.
fn c15_unmix_body(mode: u8) {
    let bits: usize = kani::any();
    kani::assume(8 <= bits && bits <= 24);
    let l: [i64; 2] = any_samples::<2>(bits);
    let r: [i64; 2] = any_samples::<2>(bits);
    let side = [l[0] - r[0], l[1] - r[1]];
    let mid = [(l[0] + r[0]) >> 1, (l[1] + r[1]) >> 1];
    assert!(spec_fits(side[0], bits + 1) && spec_fits(mid[0], bits));
    let (ca, ch0, ch1) = match mode {
        0 => (ChannelAssignment::Independent(2), l, r),
        1 => (ChannelAssignment::LeftSide, l, side),
        2 => (ChannelAssignment::RightSide, side, r),
        _ => (ChannelAssignment::MidSide, mid, side),
    };
    if mode == 3 {
        assert!(spec_unmix_midside(mid[0], side[0]) == (l[0], r[0]));
        assert!(spec_unmix_midside(mid[1], side[1]) == (l[1], r[1]));
    }
    unsafe {
        UNMIX_CALLS = 0;
        UNMIX_CH[0] = [ch0[0] as i32, ch0[1] as i32];
        UNMIX_CH[1] = [ch1[0] as i32, ch1[1] as i32];
    }
    let b0 = (bits + ca.bits_per_sample_offset(0)) as u8;
    let b1 = (bits + ca.bits_per_sample_offset(1)) as u8;
    let sf0: SubFrame = Constant::from_parts(2, 0, b0).into();
    let sf1: SubFrame = Constant::from_parts(2, 0, b1).into();
    let header = FrameHeader::from_specs(
        BlockSizeSpec::ExtraByte(1), // block size 2
        ca,
        SampleSizeSpec::Unspecified,
        SampleRateSpec::R44_1kHz,
    );
    let frame = Frame::from_parts(header, vec![sf0, sf1]);
    assert!(frame.signal_len() == 4);
    let mut dest = [0i32; 4];
    frame.copy_signal(&mut dest);
    assert!(unsafe { UNMIX_CALLS } == 2);
    assert!(dest[0] as i64 == l[0] && dest[1] as i64 == r[0]);
    assert!(dest[2] as i64 == l[1] && dest[3] as i64 == r[1]);
    kani::cover!((side[0] & 1) == 1 && l[0] < 0 && bits == 24);
}

//@ unit name=c15_frame_unmix_independent props=C15,C01 tier=quick kind=bounded timeout=600 funcs="Frame::copy_signal; Frame::signal_len; Decode::decode" stubs="SubFrame::signal_len -> contract_subframe_signal_len (block size); SubFrame::copy_signal -> contract_subframe_copy_signal (the subframe's signal; units c15_constant_verbatim_decode, c15_fixed_lpc_decode, c15_lpc_decode)" bound="2 independent channels, block size 2; samples symbolic in 8..=24 bits"
//@ unit name=c15_frame_unmix_left_side props=C15,C01 tier=quick kind=bounded timeout=600 funcs="Frame::copy_signal; Frame::signal_len; Decode::decode" stubs="SubFrame::signal_len -> contract_subframe_signal_len; SubFrame::copy_signal -> contract_subframe_copy_signal" bound="left/side, block size 2; samples symbolic in 8..=24 bits (side channel one bit more)"
//@ unit name=c15_frame_unmix_side_right props=C15,C01 tier=quick kind=bounded timeout=600 funcs="Frame::copy_signal; Frame::signal_len; Decode::decode" stubs="SubFrame::signal_len -> contract_subframe_signal_len; SubFrame::copy_signal -> contract_subframe_copy_signal" bound="side/right, block size 2; samples symbolic in 8..=24 bits (side channel one bit more)"
//@ unit name=c15_frame_unmix_mid_side props=C15,C01 tier=quick kind=bounded timeout=600 funcs="Frame::copy_signal; Frame::signal_len; Decode::decode" stubs="SubFrame::signal_len -> contract_subframe_signal_len; SubFrame::copy_signal -> contract_subframe_copy_signal" bound="mid/side, block size 2; samples symbolic in 8..=24 bits (side channel one bit more)"
macro_rules! c15_unmix_harness {
    ($name:ident, $mode:expr) => {
        #[kani::proof]
        #[kani::unwind(4)]
        #[kani::stub(<SubFrame as Decode>::signal_len, contract_subframe_signal_len)]
        #[kani::stub(<SubFrame as Decode>::copy_signal, contract_subframe_copy_signal)]
        fn $name() {
            c15_unmix_body($mode);
        }
    };
}
c15_unmix_harness!(c15_frame_unmix_independent, 0);
c15_unmix_harness!(c15_frame_unmix_left_side, 1);
c15_unmix_harness!(c15_frame_unmix_side_right, 2);
c15_unmix_harness!(c15_frame_unmix_mid_side, 3);
