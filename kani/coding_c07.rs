// Harnesses for src/coding.rs, property C07 second half (child module `coding::verif_c07`):
// "every accepted configuration encodes every valid input without panicking" -- the consumer of
// `fixed.order_sel = ApproxEnt { partitions }` is `estimate_entropy`, which divides by `partitions`.
//
// Floating point under CBMC.  `estimate_entropy` calls `f32::log2` and `f32::mul_add`.  CBMC's C
// library models of `log2f` / `fmaf` call `feraiseexcept`, which CBMC turns into a FAILING assertion
// ("floating-point exception") for log2(0) and 0 * inf -- values Rust defines as -inf and NaN and
// which this function produces on purpose for all-zero partitions.  The two calls are therefore
// replaced by explicit IEEE-754 / libm range contracts (`libm_log2`, `ieee_mul_add`; ASSUMED, they
// are statements about the platform's libm, not about the crate), and the SIMD reduction
// `find_sum_abs_f32::<16>` by its callee contract, proved for the lengths used here by unit
// `c07_find_sum_abs_f32_contract`.

/// Residual magnitude bound used below: 24-bit audio, side channel (+1 bit), fixed predictor of
/// order <= 4 (at most +4 bits) stays far inside; the point of the bound is to exclude `i32::MIN`
/// (whose `abs()` overflows, and which no predictor on <= 25-bit input can produce).
const C07_MAX_ABS_RESIDUAL: i32 = 1 << 29;

/// ASSUMED contract of `f32::log2` (faithful libm): NaN for negative or NaN arguments, -inf at
/// zero, within [-150, 0] on (0, 1] (log2 of the smallest subnormal is -149), within [0, 128] on
/// [1, f32::MAX], +inf at +inf.
fn libm_log2(x: f32) -> f32 {
    // (definite results are returned as constants so that concrete iterations constant-fold)
    if x == 0.0 {
        return f32::NEG_INFINITY;
    }
    let r: f32 = kani::any();
    if x.is_nan() || x < 0.0 {
        kani::assume(r.is_nan());
    } else if x <= 1.0 {
        kani::assume(-150.0 <= r && r <= 0.0);
    } else if x == f32::INFINITY {
        kani::assume(r == f32::INFINITY);
    } else {
        kani::assume(0.0 <= r && r <= 128.0);
    }
    r
}

/// ASSUMED contract of `f32::mul_add` (IEEE-754 fusedMultiplyAdd): NaN if an operand is NaN or
/// the product is 0 * inf; for finite operands |fma(a, b, c)| <= round(|a||b| + |c|), stated here
/// for two boxes of operands with constant bounds (no float arithmetic in the contract, which
/// keeps the SAT instance small): 2^33 * 150 + 150 < 2^41 and 2^49 * 150 + 150 < 2^57.
/// Outside the boxes nothing is promised (any f32, including inf and NaN).
fn ieee_mul_add(a: f32, b: f32, c: f32) -> f32 {
    const P33: f32 = 8_589_934_592.0;
    const P41: f32 = 2_199_023_255_552.0;
    const P49: f32 = 562_949_953_421_312.0;
    const P57: f32 = 144_115_188_075_855_872.0;
    if a.is_nan()
        || b.is_nan()
        || c.is_nan()
        || (a == 0.0 && b.is_infinite())
        || (a.is_infinite() && b == 0.0)
    {
        // some NaN (the code under test never looks at NaN payloads)
        return f32::NAN;
    }
    let r: f32 = kani::any();
    if b.abs() <= 150.0 && c.abs() <= 150.0 {
        if a.abs() <= P33 {
            kani::assume(r.abs() <= P41);
        } else if a.abs() <= P49 {
            kani::assume(r.abs() <= P57);
        }
    }
    r
}

/// Largest slice the reduction's contract is proved for, and the resulting bound of the sum.
const C07_SUM_MAX_LEN: usize = 4;
const C07_SUM_BOUND: f32 = 2_147_483_648.0; // 4 * 2^29

/// Callee contract of `find_sum_abs_f32` on slices of at most 4 residuals with |x| <= 2^29: the sum
/// of absolute values, accumulated in f32, is exactly 0 for the empty slice, otherwise finite, in
/// [0, 4 * 2^29], and either exactly zero or at least one (every addend is zero or an integer >= 1
/// and f32 addition of non-negative numbers is monotone).  Proved by `c07_find_sum_abs_f32_contract`.
fn contract_find_sum_abs_f32<const N: usize>(data: &[i32]) -> f32
where
    simd::LaneCount<N>: simd::SupportedLaneCount,
{
    assert!(data.len() <= C07_SUM_MAX_LEN);
    if data.is_empty() {
        return 0.0;
    }
    // precondition |x| <= 2^29: the caller below bounds the WHOLE array and only passes sub-slices
    // of it; spot-checked here at both ends (a loop over a symbolic-length slice is exactly what
    // this stub avoids).
    assert!(data[0].unsigned_abs() <= C07_MAX_ABS_RESIDUAL as u32);
    assert!(data[data.len() - 1].unsigned_abs() <= C07_MAX_ABS_RESIDUAL as u32);
    let r: f32 = kani::any();
    kani::assume(0.0 <= r && r <= C07_SUM_BOUND);
    kani::assume(r == 0.0 || r >= 1.0);
    r
}

/// The contract above holds for the real reduction, every length 0..=4 (the lengths that occur in
/// `c07_estimate_entropy_no_panic_n4`), every residual with |x| <= 2^29.
//@ unit props=C07 tier=quick kind=bounded timeout=300 funcs="arrayutils::find_sum_abs_f32" bound="data.len() 0..=4, |x| <= 2^29" note="proves contract_find_sum_abs_f32"
#[kani::proof]
#[kani::unwind(18)]
fn c07_find_sum_abs_f32_contract() {
    let data: [i32; 4] = kani::any();
    let mut i = 0;
    while i < 4 {
        kani::assume(-C07_MAX_ABS_RESIDUAL <= data[i] && data[i] <= C07_MAX_ABS_RESIDUAL);
        i += 1;
    }
    let mut len = 0;
    while len <= 4 {
        let r = find_sum_abs_f32::<16>(&data[..len]);
        assert!(0.0 <= r && r <= C07_SUM_BOUND);
        assert!(r == 0.0 || r >= 1.0);
        assert!(len != 0 || r == 0.0);
        len += 1;
    }
    kani::cover!(data[0] == -C07_MAX_ABS_RESIDUAL && data[3] == 1);
}

/// `estimate_entropy` returns normally (no division by zero, no slice out of bounds, no
/// arithmetic overflow) for the given partition count, 4 residuals, every warm-up length.
///
/// Preconditions and why:
///  * the callers below pass `1 <= partitions <= 64`: exactly what `config::OrderSel::verify`
///    accepts (unit config::verif::c07_order_sel_exact), and what reaches this function through
///    `SubFrameCoding::verify -> Fixed::verify -> OrderSel::verify` (units c07_subframe_coding_exact,
///    c07_fixed_exact);
///  * `warmup_len <= errors.len()`: the only caller passes the predictor order with an error signal
///    of block length (`fixed_lpc`: order <= 4 < 32 <= block size);
///  * `|e| <= 2^29`: see `C07_MAX_ABS_RESIDUAL` (enters only through the reduction's contract).
fn estimate_entropy_returns(partitions: usize, warmup_len: usize) -> usize {
    let errors: [i32; 4] = kani::any();
    let mut i = 0;
    while i < 4 {
        kani::assume(-C07_MAX_ABS_RESIDUAL <= errors[i] && errors[i] <= C07_MAX_ABS_RESIDUAL);
        i += 1;
    }
    assert!(warmup_len <= 4);
    estimate_entropy(&errors, warmup_len, partitions)
}

fn any_warmup_len() -> usize {
    let warmup_len: usize = kani::any();
    kani::assume(warmup_len <= 4);
    warmup_len
}

/// Every partition count 1..=8 (symbolic): covers all four shapes a block of 4 residuals can be
/// cut into (1x4, 2x2, 2+2+0, 4x1 followed by 0..=4 empty partitions).
//@ unit props=C07 tier=quick kind=bounded timeout=300 funcs="coding::estimate_entropy" bound="errors.len() == 4 (|e| <= 2^29); partitions 1..=8 complete; warmup_len 0..=4 complete" stubs="arrayutils::find_sum_abs_f32 -> contract_find_sum_abs_f32 (c07_find_sum_abs_f32_contract); f32::log2 -> libm_log2 (ASSUMED libm range contract); f32::mul_add -> ieee_mul_add (ASSUMED IEEE-754 fma contract)"
#[kani::proof]
#[kani::unwind(10)]
#[kani::stub(find_sum_abs_f32, contract_find_sum_abs_f32)]
#[kani::stub(f32::log2, libm_log2)]
#[kani::stub(f32::mul_add, ieee_mul_add)]
fn c07_estimate_entropy_no_panic_p1to8() {
    let partitions: usize = kani::any();
    kani::assume(1 <= partitions && partitions <= 8);
    let _bits = estimate_entropy_returns(partitions, any_warmup_len());
    kani::cover!(partitions == 1);
    kani::cover!(partitions == 3);
    kani::cover!(partitions == 8);
}

/// The maximum accepted partition count 64, concrete per call together with the warm-up length
/// (the 60 trailing empty partitions then simplify); the full range is the thorough-tier unit.
//@ unit props=C07 tier=quick kind=bounded timeout=300 funcs="coding::estimate_entropy" bound="errors.len() == 4 (|e| <= 2^29); partitions == 64; warmup_len 0..=4 (each concrete)" stubs="arrayutils::find_sum_abs_f32 -> contract_find_sum_abs_f32 (c07_find_sum_abs_f32_contract); f32::log2 -> libm_log2 (ASSUMED libm range contract); f32::mul_add -> ieee_mul_add (ASSUMED IEEE-754 fma contract)"
#[kani::proof]
#[kani::unwind(66)]
#[kani::stub(find_sum_abs_f32, contract_find_sum_abs_f32)]
#[kani::stub(f32::log2, libm_log2)]
#[kani::stub(f32::mul_add, ieee_mul_add)]
fn c07_estimate_entropy_no_panic_upper() {
    let mut w = 0;
    while w <= 4 {
        let _a = estimate_entropy_returns(64, w);
        w += 1;
    }
    kani::cover!(true);
}

/// The whole accepted range 1..=64 with a symbolic partition count (64 unrolled float pipelines,
/// a 2.4M-variable SAT instance: thorough tier only).
//@ unit props=C07 tier=thorough kind=bounded timeout=1500 funcs="coding::estimate_entropy" bound="errors.len() == 4 (|e| <= 2^29); partitions 1..=64 complete; warmup_len 0..=4 complete" stubs="arrayutils::find_sum_abs_f32 -> contract_find_sum_abs_f32 (c07_find_sum_abs_f32_contract); f32::log2 -> libm_log2 (ASSUMED libm range contract); f32::mul_add -> ieee_mul_add (ASSUMED IEEE-754 fma contract)"
#[kani::proof]
#[kani::unwind(66)]
#[kani::stub(find_sum_abs_f32, contract_find_sum_abs_f32)]
#[kani::stub(f32::log2, libm_log2)]
#[kani::stub(f32::mul_add, ieee_mul_add)]
fn c07_estimate_entropy_no_panic_n4() {
    let partitions: usize = kani::any();
    kani::assume(1 <= partitions && partitions <= 64);
    let _bits = estimate_entropy_returns(partitions, any_warmup_len());
    // (each cover is one more SAT call on the big instance: keep them few and integer-only)
    kani::cover!(partitions == 64);
    kani::cover!(partitions == 3);
}
