// Harnesses for src/coding.rs, property C07 second half (child module `coding::verif_c07`):
// "every accepted configuration encodes every valid input without panicking" -- the consumer of
// `fixed.order_sel = ApproxEnt { partitions }`.

/// Body shared by the shapes: `N` residuals (concrete length, symbolic values), symbolic warm-up
/// length and symbolic partition count inside the accepted range.
///
/// Preconditions and why:
///  * `1 <= partitions <= 64`: the range `config::OrderSel::verify` accepts (unit
///    config::verif::c07_order_sel_exact), reached through `Fixed::verify` / `SubFrameCoding::verify`
///    (units c07_fixed_exact, c07_subframe_coding_exact);
///  * `warmup_len <= N`: the only caller passes the predictor order together with an error signal
///    of the block length (`fixed_lpc`: order <= 4 < 32 <= block size);
///  * `|e| < 2^25`: residuals of <= 24-bit audio (25 bits for a side channel) under the fixed
///    predictors; excludes `i32::MIN`, whose `abs()` is not an input the encoder can produce.
fn estimate_entropy_no_panic<const N: usize>() {
    let errors: [i32; N] = kani::any();
    let mut i = 0;
    while i < N {
        kani::assume(-(1i32 << 25) < errors[i] && errors[i] < (1i32 << 25));
        i += 1;
    }
    let partitions: usize = kani::any();
    kani::assume(1 <= partitions && partitions <= 64);
    let warmup_len: usize = kani::any();
    kani::assume(warmup_len <= N);
    // Obligation: returns (no division by zero, no slice out of bounds, no arithmetic overflow).
    let _bits = estimate_entropy(&errors, warmup_len, partitions);
    kani::cover!(partitions == 1);
    kani::cover!(partitions == 3 && warmup_len == 2);
    kani::cover!(partitions == 64 && warmup_len == N);
    kani::cover!(partitions > N && warmup_len == 0);
}

/// 4 residuals: partitions both smaller and (mostly) larger than the block, so the
/// "empty trailing partition" path (`offset == end == block_size`) is exercised 60 times.
//@ unit props=C07 tier=quick kind=bounded timeout=300 funcs="coding::estimate_entropy" bound="errors.len() == 4 (values: all 26-bit signed), partitions 1..=64 complete, warmup_len 0..=len complete"
#[kani::proof]
#[kani::unwind(66)]
fn c07_estimate_entropy_no_panic_n4() {
    estimate_entropy_no_panic::<4>();
}
