// Harnesses for src/component/datatype.rs (child module `component::datatype::verif`).

// ================================================================================================
// C17: public constructors of stream-level data over the FULL usize domain
// ================================================================================================

/// `StreamInfo::new(rate, ch, bps)`:  Ok  <=>  rate <= 96000 /\ 1 <= ch <= 8 /\ bps is a sample
/// width the crate documents (8..=25, 4n or 4n+1), evaluated on the UNTRUNCATED arguments, and
/// Ok  ==>  the stored values are the arguments (no silent reinterpretation).
//@ unit props=C17,C18 tier=quick kind=complete timeout=300 funcs="StreamInfo::new; StreamInfo::verify"
#[kani::proof]
#[kani::unwind(6)]
#[kani::stub(std::fmt::format, stub_format)]
fn c17_stream_info_new() {
    let rate: usize = kani::any();
    let ch: usize = kani::any();
    let bps: usize = kani::any();
    let valid = rate <= 96_000
        && 1 <= ch
        && ch <= 8
        && 8 <= bps
        && bps <= 25
        && (bps % 4 == 0 || bps % 4 == 1);
    match StreamInfo::new(rate, ch, bps) {
        Ok(info) => {
            assert!(valid);
            assert!(info.sample_rate() == rate);
            assert!(info.channels() == ch);
            assert!(info.bits_per_sample() == bps);
        }
        Err(_) => {
            assert!(!valid);
        }
    }
    kani::cover!(valid);
    kani::cover!(ch == 257);
}

/// `Stream::new` is `StreamInfo::new` + wrapping: same contract.
//@ unit props=C17 tier=quick kind=complete timeout=300 funcs="Stream::new; Stream::with_stream_info"
#[kani::proof]
#[kani::unwind(6)]
#[kani::stub(std::fmt::format, stub_format)]
fn c17_stream_new() {
    let rate: usize = kani::any();
    let ch: usize = kani::any();
    let bps: usize = kani::any();
    let valid = rate <= 96_000
        && 1 <= ch
        && ch <= 8
        && 8 <= bps
        && bps <= 25
        && (bps % 4 == 0 || bps % 4 == 1);
    match Stream::new(rate, ch, bps) {
        Ok(s) => {
            assert!(valid);
            assert!(s.stream_info().sample_rate() == rate);
            assert!(s.stream_info().channels() == ch);
            assert!(s.stream_info().bits_per_sample() == bps);
            assert!(s.frame_count() == 0);
        }
        Err(_) => {
            assert!(!valid);
        }
    }
    kani::cover!(valid);
}

/// `FrameHeader::new`: block size 1..=32767 (0 has no block-size code), bits 8/12/16/20/24,
/// rate representable, channel assignment valid; Ok ==> the header reports the arguments.
//@ unit props=C17,C18 tier=quick kind=complete timeout=600 funcs="FrameHeader::new; BlockSizeSpec::from_size; SampleRateSpec::from_freq; SampleSizeSpec::from_bits"
#[kani::proof]
#[kani::unwind(6)]
#[kani::stub(std::fmt::format, stub_format)]
fn c17_frame_header_new() {
    let bs: usize = kani::any();
    let bps: usize = kani::any();
    let rate: usize = kani::any();
    let nch: u8 = kani::any();
    let which: u8 = kani::any();
    let ca = match which % 4 {
        0 => ChannelAssignment::Independent(nch),
        1 => ChannelAssignment::LeftSide,
        2 => ChannelAssignment::RightSide,
        _ => ChannelAssignment::MidSide,
    };
    let num: u32 = kani::any();
    match FrameHeader::new(bs, ca.clone(), bps, rate, FrameOffset::Frame(num)) {
        Ok(h) => {
            // never a silently re-interpreted value
            assert!(1 <= bs && bs <= 32767);
            assert!(h.block_size() == bs);
            assert!(bps == 8 || bps == 12 || bps == 16 || bps == 20 || bps == 24);
            assert!(h.bits_per_sample() == Some(bps));
            assert!(h.channel_assignment().channels() >= 1 && h.channel_assignment().channels() <= 8);
            assert!(*h.channel_assignment() == ca);
            assert!(!h.is_variable_blocking() && h.frame_number() == num);
            assert!(h.block_size_spec().tag() != 0);
            assert!(h.sample_rate_spec().tag() != 15);
        }
        Err(_) => {}
    }
    kani::cover!(FrameHeader::new(bs, ca.clone(), bps, rate, FrameOffset::Frame(num)).is_ok());
}
