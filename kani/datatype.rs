// Harnesses for src/component/datatype.rs (child module `component::datatype::verif`).

// ================================================================================================
// C17: public constructors of stream-level data over the FULL usize domain
// ================================================================================================

/// `StreamInfo::new(rate, ch, bps)`:  Ok  <=>  rate <= 96000 /\ 1 <= ch <= 8 /\ bps is a sample
/// width the crate documents (8..=25, 4n or 4n+1), evaluated on the UNTRUNCATED arguments, and
/// Ok  ==>  the stored values are the arguments (no silent reinterpretation).
//@ unit props=C17,C18 tier=quick kind=complete timeout=300 funcs="StreamInfo::new; StreamInfo::verify"
#[kani::proof]
#[kani::unwind(6)]
#[kani::stub(std::fmt::format, stub_format)]
fn c17_stream_info_new() {
    let rate: usize = kani::any();
    let ch: usize = kani::any();
    let bps: usize = kani::any();
    let valid = rate <= 96_000
        && 1 <= ch
        && ch <= 8
        && 8 <= bps
        && bps <= 25
        && (bps % 4 == 0 || bps % 4 == 1);
    match StreamInfo::new(rate, ch, bps) {
        Ok(info) => {
            assert!(valid);
            assert!(info.sample_rate() == rate);
            assert!(info.channels() == ch);
            assert!(info.bits_per_sample() == bps);
        }
        Err(_) => {
            assert!(!valid);
        }
    }
    kani::cover!(valid);
    kani::cover!(ch == 257);
}

/// `Stream::new` is `StreamInfo::new` + wrapping: same contract.
//@ unit props=C17 tier=quick kind=complete timeout=300 funcs="Stream::new; Stream::with_stream_info"
#[kani::proof]
#[kani::unwind(6)]
#[kani::stub(std::fmt::format, stub_format)]
fn c17_stream_new() {
    let rate: usize = kani::any();
    let ch: usize = kani::any();
    let bps: usize = kani::any();
    let valid = rate <= 96_000
        && 1 <= ch
        && ch <= 8
        && 8 <= bps
        && bps <= 25
        && (bps % 4 == 0 || bps % 4 == 1);
    match Stream::new(rate, ch, bps) {
        Ok(s) => {
            assert!(valid);
            assert!(s.stream_info().sample_rate() == rate);
            assert!(s.stream_info().channels() == ch);
            assert!(s.stream_info().bits_per_sample() == bps);
            assert!(s.frame_count() == 0);
        }
        Err(_) => {
            assert!(!valid);
        }
    }
    kani::cover!(valid);
}

/// `FrameHeader::new`: block size 1..=32767 (0 has no block-size code), bits 8/12/16/20/24,
/// rate representable, channel assignment valid; Ok ==> the header reports the arguments.
//@ unit props=C17,C18 tier=quick kind=complete timeout=600 funcs="FrameHeader::new; BlockSizeSpec::from_size; SampleRateSpec::from_freq; SampleSizeSpec::from_bits"
#[kani::proof]
#[kani::unwind(6)]
#[kani::stub(std::fmt::format, stub_format)]
fn c17_frame_header_new() {
    let bs: usize = kani::any();
    let bps: usize = kani::any();
    let rate: usize = kani::any();
    let nch: u8 = kani::any();
    let which: u8 = kani::any();
    let ca = match which % 4 {
        0 => ChannelAssignment::Independent(nch),
        1 => ChannelAssignment::LeftSide,
        2 => ChannelAssignment::RightSide,
        _ => ChannelAssignment::MidSide,
    };
    let num: u32 = kani::any();
    match FrameHeader::new(bs, ca.clone(), bps, rate, FrameOffset::Frame(num)) {
        Ok(h) => {
            // never a silently re-interpreted value
            assert!(1 <= bs && bs <= 32767);
            assert!(h.block_size() == bs);
            assert!(bps == 8 || bps == 12 || bps == 16 || bps == 20 || bps == 24);
            assert!(h.bits_per_sample() == Some(bps));
            assert!(h.channel_assignment().channels() >= 1 && h.channel_assignment().channels() <= 8);
            assert!(*h.channel_assignment() == ca);
            assert!(!h.is_variable_blocking() && h.frame_number() == num);
            assert!(h.block_size_spec().tag() != 0);
            assert!(h.sample_rate_spec().tag() != 15);
        }
        Err(_) => {}
    }
    kani::cover!(FrameHeader::new(bs, ca.clone(), bps, rate, FrameOffset::Frame(num)).is_ok());
}

// ================================================================================================
// C02 / C08 / C15: header code tables, complete over their finite code spaces
// ================================================================================================
use crate::bitsink::verif::SpecSink;

fn written_value(s: &SpecSink) -> u32 {
    if s.id.len == 0 {
        0
    } else {
        (s.id.w[0] >> (64 - s.id.len)) as u32
    }
}

/// For EVERY block size 1..=65535: the 4-bit code is never the reserved 0, the number of extra bits
/// matches the code, and an RFC 9639 decoder reading (code, extra) recovers exactly the block size.
//@ unit props=C02,C08,C15,C18 tier=quick kind=complete timeout=300 funcs="BlockSizeSpec::from_size; BlockSizeSpec::tag; BlockSizeSpec::count_extra_bits; BlockSizeSpec::write_extra_bits; BlockSizeSpec::block_size"
#[kani::proof]
#[kani::unwind(10)]
fn c02_block_size_code_all() {
    let bs: u16 = kani::any();
    kani::assume(bs >= 1);
    let spec = BlockSizeSpec::from_size(bs);
    let tag = spec.tag();
    assert!(1 <= tag && tag <= 15);
    let mut s = SpecSink::new();
    assert!(spec.write_extra_bits(&mut s).is_ok());
    assert!(s.id.len == spec.count_extra_bits());
    assert!(s.id.len == spec_blocksize_extra_bits(tag));
    assert!(spec_blocksize(tag, written_value(&s)) == Some(bs as u32));
    assert!(spec.block_size() == Some(bs as usize));
    kani::cover!(tag == 1);
    kani::cover!(tag == 5);
    kani::cover!(tag == 6 && bs == 255);
    kani::cover!(tag == 7);
    kani::cover!(tag == 15);
}

/// For EVERY u32 sample rate: the code is never the forbidden 0b1111; it is either 0 ("see
/// STREAMINFO") or an RFC 9639 decoder reading (code, extra) recovers exactly the rate.
//@ unit props=C02,C08,C15,C18 tier=quick kind=complete timeout=300 funcs="SampleRateSpec::from_freq; SampleRateSpec::tag; SampleRateSpec::count_extra_bits; SampleRateSpec::write_extra_bits"
#[kani::proof]
#[kani::unwind(10)]
fn c02_sample_rate_code_all() {
    let f: u32 = kani::any();
    let spec = SampleRateSpec::from_freq(f).unwrap_or(SampleRateSpec::Unspecified);
    let tag = spec.tag();
    assert!(tag <= 14);
    let mut s = SpecSink::new();
    assert!(spec.write_extra_bits(&mut s).is_ok());
    assert!(s.id.len == spec.count_extra_bits());
    assert!(s.id.len == spec_samplerate_extra_bits(tag));
    if tag != 0 {
        assert!(spec_samplerate(tag, written_value(&s)) == Some(f));
    }
    if 1 <= f && f <= 96_000 && f % 10 == 0 {
        assert!(tag != 0); // representable rates are coded in the frame header
    }
    kani::cover!(tag == 0 && f <= 96_000);
    kani::cover!(tag == 9);
    kani::cover!(tag == 12);
    kani::cover!(tag == 13);
    kani::cover!(tag == 14);
}

/// Sample-size codes per the RFC table; widths without a code map to 0 ("see STREAMINFO"); the
/// reserved code 3 is never produced.
//@ unit props=C02,C15,C18 tier=quick kind=complete timeout=120 funcs="SampleSizeSpec::from_bits; SampleSizeSpec::into_tag; SampleSizeSpec::from_tag; SampleSizeSpec::into_bits"
#[kani::proof]
#[kani::unwind(4)]
fn c02_sample_size_code_all() {
    let b: u8 = kani::any();
    let spec = SampleSizeSpec::from_bits(b).unwrap_or(SampleSizeSpec::Unspecified);
    let tag = spec.into_tag();
    assert!(tag <= 7 && tag != 3);
    if tag != 0 {
        assert!(spec_samplesize(tag) == Some(b as u32));
    }
    if b == 8 || b == 12 || b == 16 || b == 20 || b == 24 {
        assert!(tag != 0);
    }
    // parser side: from_tag inverts into_tag
    assert!(SampleSizeSpec::from_tag(tag) == Some(spec));
    let t: u8 = kani::any();
    match SampleSizeSpec::from_tag(t) {
        Some(s2) => assert!(t <= 7 && s2.into_tag() == t),
        None => assert!(t > 7),
    }
}

/// Channel-assignment codes (RFC 9639 9.1.3): 0..=7 independent (n-1), 8 left/side, 9 side/right,
/// 10 mid/side; `from_tag` inverts; which channel carries the extra bit.
//@ unit props=C02,C15,C01 tier=quick kind=complete timeout=120 funcs="ChannelAssignment::from_tag; ChannelAssignment::bits_per_sample_offset; ChannelAssignment::channels; ChannelAssignment::select_channels"
#[kani::proof]
#[kani::unwind(4)]
fn c02_channel_assignment_codes() {
    let t: u8 = kani::any();
    match ChannelAssignment::from_tag(t) {
        Some(ChannelAssignment::Independent(n)) => assert!(t <= 7 && n == t + 1),
        Some(ChannelAssignment::LeftSide) => assert!(t == 8),
        Some(ChannelAssignment::RightSide) => assert!(t == 9),
        Some(ChannelAssignment::MidSide) => assert!(t == 10),
        None => assert!(t > 10),
    }
    // the side channel (one extra bit) is channel 1 for left/side and mid/side, channel 0 for side/right
    assert!(ChannelAssignment::LeftSide.bits_per_sample_offset(0) == 0);
    assert!(ChannelAssignment::LeftSide.bits_per_sample_offset(1) == 1);
    assert!(ChannelAssignment::RightSide.bits_per_sample_offset(0) == 1);
    assert!(ChannelAssignment::RightSide.bits_per_sample_offset(1) == 0);
    assert!(ChannelAssignment::MidSide.bits_per_sample_offset(0) == 0);
    assert!(ChannelAssignment::MidSide.bits_per_sample_offset(1) == 1);
    let ch: usize = kani::any();
    let n: u8 = kani::any();
    assert!(ChannelAssignment::Independent(n).bits_per_sample_offset(ch) == 0);
    assert!(ChannelAssignment::Independent(n).channels() == n as usize);
    assert!(ChannelAssignment::MidSide.channels() == 2);
}

// ================================================================================================
// C04: one step of the STREAMINFO bounds (update_frame_info / add_frame)
// ================================================================================================

/// `update_frame_info(frame)`: min/max block size and min/max frame size are folded with the
/// frame's block size and its byte length (count_bits / 8); total_samples advances by the block
/// size; nothing else changes.  This is the `add_frame` contract the Verus driver unit consumes.
//@ unit props=C04,C03 tier=quick kind=complete timeout=600 funcs="StreamInfo::update_frame_info; Frame::block_size"
#[kani::proof]
#[kani::unwind(10)]
#[kani::stub(std::fmt::format, stub_format)]
fn c04_update_frame_info() {
    let mut info = StreamInfo::new(44100, 1, 16).unwrap();
    let minb: u16 = kani::any();
    let maxb: u16 = kani::any();
    let minf: u32 = kani::any();
    let maxf: u32 = kani::any();
    let tot: u64 = kani::any();
    kani::assume(tot < (1u64 << 40));
    info.min_block_size = minb;
    info.max_block_size = maxb;
    info.min_frame_size = minf;
    info.max_frame_size = maxf;
    info.total_samples = tot;
    let bs: u16 = kani::any();
    kani::assume(bs >= 1);
    let mut frame = Frame::new_empty(
        BlockSizeSpec::from_size(bs),
        ChannelAssignment::Independent(1),
        SampleSizeSpec::B16,
        SampleRateSpec::R44_1kHz,
    );
    let num: u32 = kani::any();
    frame.header_mut().set_frame_offset(FrameOffset::Frame(num));
    assert!(frame.block_size() == bs as usize);
    // the frame's byte length as the component itself reports it (C08 proves it is what is written)
    let nbytes = (frame.count_bits() / 8) as u32;
    info.update_frame_info(&frame);
    assert!(info.min_block_size() == std::cmp::min(minb, bs) as usize);
    assert!(info.max_block_size() == std::cmp::max(maxb, bs) as usize);
    assert!(info.min_frame_size() == std::cmp::min(minf, nbytes) as usize);
    assert!(info.max_frame_size() == std::cmp::max(maxf, nbytes) as usize);
    assert!(info.total_samples() as u64 == tot + bs as u64);
    assert!(info.sample_rate() == 44100 && info.channels() == 1 && info.bits_per_sample() == 16);
    kani::cover!(bs < minb);
    kani::cover!(bs > maxb);
    kani::cover!(nbytes == 8);
    kani::cover!(nbytes > 10);
}

/// `set_block_sizes(min, max)`: Ok exactly for min <= max <= 32767 (both <= 65535 before the
/// range check), and then both fields are stored.
//@ unit props=C04,C17 tier=quick kind=complete timeout=300 funcs="StreamInfo::set_block_sizes"
#[kani::proof]
#[kani::unwind(6)]
#[kani::stub(std::fmt::format, stub_format)]
fn c04_set_block_sizes() {
    let mut info = StreamInfo::new(44100, 2, 16).unwrap();
    let a: usize = kani::any();
    let b: usize = kani::any();
    let r = info.set_block_sizes(a, b);
    if a <= b && b <= 32767 {
        assert!(r.is_ok());
        assert!(info.min_block_size() == a && info.max_block_size() == b);
    } else {
        assert!(r.is_err());
    }
    kani::cover!(r.is_ok());
    kani::cover!(a == 65536 + 44);
}

// ================================================================================================
// Test constructors for other harness modules (struct literals: no SIMD reductions involved)
// ================================================================================================

/// A `Residual` with the given fields and the cached sums computed by plain loops.
pub(crate) fn residual_from_raw(
    partition_order: u8,
    block_size: usize,
    warmup_length: usize,
    rice_params: Vec<u8>,
    quotients: Vec<u32>,
    remainders: Vec<u32>,
) -> Residual {
    let mut sum_quotients = 0usize;
    let mut i = 0;
    while i < quotients.len() {
        sum_quotients += quotients[i] as usize;
        i += 1;
    }
    let mut sum_rice_params = 0usize;
    let mut i = 0;
    while i < rice_params.len() {
        sum_rice_params += rice_params[i] as usize;
        i += 1;
    }
    Residual {
        partition_order,
        block_size,
        warmup_length,
        rice_params,
        quotients,
        remainders,
        sum_quotients,
        sum_rice_params,
    }
}

/// C08: the sums cached by `Residual::from_parts` are the true sums, on BOTH sides of the
/// `max * block_size < 2^32` switch between the SIMD wrapping sum and the plain sum.
//@ unit props=C08,C01 tier=quick kind=bounded timeout=900 funcs="Residual::from_parts; find_max::<64>; wrapping_sum::<u32,32>" bound="4 quotients, every u32 value (both sides of the overflow-safety switch)"
#[kani::proof]
#[kani::unwind(66)]
fn c08_residual_from_parts_sums() {
    let q: [u32; 4] = kani::any();
    let p: [u8; 2] = kani::any();
    let r = Residual::from_parts(1, 4, 0, vec![p[0], p[1]], vec![q[0], q[1], q[2], q[3]], vec![0, 0, 0, 0]);
    let true_sum = q[0] as usize + q[1] as usize + q[2] as usize + q[3] as usize;
    assert!(r.sum_quotients() == true_sum);
    assert!(r.sum_rice_params() == p[0] as usize + p[1] as usize);
    assert!(r.partition_order() == 1 && r.block_size() == 4 && r.warmup_length() == 0);
    kani::cover!(true_sum > u32::MAX as usize);
    kani::cover!(true_sum < 100);
}

/// Test hook: overrides the cached quotient sum (used to build candidate subframes of arbitrary
/// reported size for the selection-logic units).
pub(crate) fn set_sum_quotients(r: &mut Residual, v: usize) {
    r.sum_quotients = v;
}

pub(crate) fn set_block_and_warmup(r: &mut Residual, block_size: usize, warmup_length: usize) {
    r.block_size = block_size;
    r.warmup_length = warmup_length;
}

// ================================================================================================
// C02: metadata-block "last" flags
// ================================================================================================

/// STREAMINFO carries the last-block flag iff no further metadata block follows; with k further
/// blocks exactly the final one carries it (checked for k = 0, 1, 2; `Stream::verify` agrees).
//@ unit props=C02 tier=quick kind=bounded timeout=600 funcs="Stream::with_stream_info; Stream::add_metadata_block; Stream::stream_info_block; Stream::metadata" bound="0, 1 or 2 additional metadata blocks"
#[kani::proof]
#[kani::unwind(8)]
#[kani::stub(std::fmt::format, stub_format)]
fn c02_metadata_last_flags() {
    let mut s = Stream::new(44100, 2, 16).unwrap();
    assert!(s.stream_info_block().is_last && s.metadata().is_empty());
    let tag: u8 = kani::any();
    kani::assume(1 <= tag && tag <= 126);
    s.add_metadata_block(MetadataBlockData::new_unknown(tag, &[1, 2]).unwrap());
    assert!(!s.stream_info_block().is_last);
    assert!(s.metadata().len() == 1 && s.metadata()[0].is_last);
    s.add_metadata_block(MetadataBlockData::new_unknown(tag, &[3]).unwrap());
    assert!(!s.stream_info_block().is_last);
    assert!(s.metadata().len() == 2 && !s.metadata()[0].is_last && s.metadata()[1].is_last);
    assert!(s.frame_count() == 0);
}
