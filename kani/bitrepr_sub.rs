// Harnesses for src/component/bitrepr.rs, second module (`component::bitrepr::verif_sub`):
// subframe / residual / metadata writers against the RFC 9639 layout, and count_bits (C02, C08).

use crate::bitsink::verif::SpecSink;
use crate::component::datatype::verif::residual_from_raw;
use crate::component::datatype::QuantizedParameters;

fn ideal_eq(a: &Ideal, b: &Ideal) {
    assert!(a.len == b.len);
    let mut i = 0;
    while i < IDEAL_WORDS {
        assert!(a.w[i] == b.w[i]);
        i += 1;
    }
}

fn any_bps() -> usize {
    let b: usize = kani::any();
    // sample widths incl. the one-bit-wider side channel
    kani::assume(b == 8 || b == 9 || b == 12 || b == 13 || b == 16 || b == 17 || b == 20 || b == 21 || b == 24 || b == 25);
    b
}

fn any_sample(bps: usize) -> i32 {
    let v: i32 = kani::any();
    kani::assume(spec_fits(v as i64, bps));
    v
}

/// pushes the RFC 9639 Rice code of (q, r) with parameter p: q zeros, a one, p remainder bits
fn push_rice(e: &mut Ideal, q: u32, r: u32, p: u8) {
    e.push_zeros(q as usize);
    e.push_lsbs(1, 1);
    e.push_lsbs(r as u64, p as usize);
}

// ---- CONSTANT and VERBATIM --------------------------------------------------------------------

/// CONSTANT: header byte 0b0_000000_0, then the value in `bps` bits two's complement.
//@ unit props=C02,C08 tier=quick kind=complete timeout=300 funcs="<Constant as BitRepr>::write; <Constant as BitRepr>::count_bits"
#[kani::proof]
#[kani::unwind(10)]
fn c08_constant_write() {
    let bps = any_bps();
    let v = any_sample(bps);
    let n: usize = kani::any();
    let c = Constant::from_parts(n, v, bps as u8);
    let mut s = SpecSink::new();
    assert!(c.write(&mut s).is_ok());
    let mut e = Ideal::new();
    e.push_lsbs(0, 1); // padding bit
    e.push_lsbs(0b000000, 6); // subframe type: constant
    e.push_lsbs(0, 1); // no wasted bits
    e.push_twoc(v as i64, bps);
    ideal_eq(&s.id, &e);
    assert!(c.count_bits() == e.len);
    kani::cover!(v < 0 && bps == 25);
}

/// VERBATIM: header byte 0b0_000001_0, then every sample in `bps` bits.
//@ unit props=C02,C08 tier=quick kind=bounded timeout=300 funcs="<Verbatim as BitRepr>::write; <Verbatim as BitRepr>::count_bits; Verbatim::count_bits_from_metadata" bound="3 samples, every in-range value and width"
#[kani::proof]
#[kani::unwind(10)]
fn c08_verbatim_write() {
    let bps = any_bps();
    let a = any_sample(bps);
    let b = any_sample(bps);
    let c3 = any_sample(bps);
    let v = Verbatim::from_samples(&[a, b, c3], bps as u8);
    let mut s = SpecSink::new();
    assert!(v.write(&mut s).is_ok());
    let mut e = Ideal::new();
    e.push_lsbs(0b0000_0010, 8);
    e.push_twoc(a as i64, bps);
    e.push_twoc(b as i64, bps);
    e.push_twoc(c3 as i64, bps);
    ideal_eq(&s.id, &e);
    assert!(v.count_bits() == e.len);
    assert!(Verbatim::count_bits_from_metadata(3, bps) == e.len);
    kani::cover!(a < 0 && bps == 24);
}

// ---- RESIDUAL -----------------------------------------------------------------------------------

/// RESIDUAL (RFC 9639 9.2.7): method 00, 4-bit partition order, per partition a 4-bit parameter
/// (< 15) followed by the Rice codes of its samples; the first partition is shortened by the
/// predictor order.  Here: block 4, order 1 (two partitions of 2), 1 warm-up sample.
//@ unit props=C02,C08,C01 tier=quick kind=bounded timeout=900 funcs="<Residual as BitRepr>::write; <Residual as BitRepr>::count_bits" bound="block 4, partition order 1, warm-up 1; parameters 0..=14, quotients 0..=70 (a zero run crosses a 64-bit word), remainders arbitrary below 2^p"
#[kani::proof]
#[kani::unwind(10)]
fn c08_residual_write_o1() {
    let p: [u8; 2] = kani::any();
    kani::assume(p[0] <= 14 && p[1] <= 14);
    let q: [u32; 3] = kani::any();
    let r: [u32; 3] = kani::any();
    kani::assume(q[0] <= 70 && q[1] <= 70 && q[2] <= 70);
    kani::assume(r[0] < (1u32 << p[0]) && r[1] < (1u32 << p[1]) && r[2] < (1u32 << p[1]));
    let res = residual_from_raw(1, 4, 1, vec![p[0], p[1]], vec![0, q[0], q[1], q[2]], vec![0, r[0], r[1], r[2]]);
    let mut s = SpecSink::new();
    assert!(res.write(&mut s).is_ok());
    let mut e = Ideal::new();
    e.push_lsbs(0b00, 2);
    e.push_lsbs(1, 4);
    e.push_lsbs(p[0] as u64, 4);
    push_rice(&mut e, q[0], r[0], p[0]);
    e.push_lsbs(p[1] as u64, 4);
    push_rice(&mut e, q[1], r[1], p[1]);
    push_rice(&mut e, q[2], r[2], p[1]);
    ideal_eq(&s.id, &e);
    assert!(res.count_bits() == e.len);
    kani::cover!(q[0] == 70 && p[0] == 14);
    kani::cover!(p[1] == 0);
}

/// Same with partition order 0 and warm-up 2 (block 5, 3 coded samples: exercises the 4-way
/// unrolled inner loop's tail).
//@ unit props=C02,C08,C01 tier=thorough kind=bounded timeout=900 funcs="<Residual as BitRepr>::write; <Residual as BitRepr>::count_bits" bound="block 7, partition order 0, warm-up 2 (5 coded samples: one full unrolled group + tail)"
#[kani::proof]
#[kani::unwind(10)]
fn c08_residual_write_o0() {
    let p: u8 = kani::any();
    kani::assume(p <= 14);
    let q: [u32; 5] = kani::any();
    let r: [u32; 5] = kani::any();
    let mut i = 0;
    while i < 5 {
        kani::assume(q[i] <= 40);
        kani::assume(r[i] < (1u32 << p));
        i += 1;
    }
    let res = residual_from_raw(
        0,
        7,
        2,
        vec![p],
        vec![0, 0, q[0], q[1], q[2], q[3], q[4]],
        vec![0, 0, r[0], r[1], r[2], r[3], r[4]],
    );
    let mut s = SpecSink::new();
    assert!(res.write(&mut s).is_ok());
    let mut e = Ideal::new();
    e.push_lsbs(0b00, 2);
    e.push_lsbs(0, 4);
    e.push_lsbs(p as u64, 4);
    let mut i = 0;
    while i < 5 {
        push_rice(&mut e, q[i], r[i], p);
        i += 1;
    }
    ideal_eq(&s.id, &e);
    assert!(res.count_bits() == e.len);
}

// ---- FIXED and LPC ------------------------------------------------------------------------------

fn small_residual(block: usize, warmup: usize) -> (crate::component::datatype::Residual, u8, [u32; 2], [u32; 2]) {
    // block == warmup + 2, partition order 0
    let p: u8 = kani::any();
    kani::assume(p <= 14);
    let q: [u32; 2] = kani::any();
    let r: [u32; 2] = kani::any();
    kani::assume(q[0] <= 20 && q[1] <= 20);
    kani::assume(r[0] < (1u32 << p) && r[1] < (1u32 << p));
    let mut qs = vec![0u32; block];
    let mut rs = vec![0u32; block];
    qs[warmup] = q[0];
    qs[warmup + 1] = q[1];
    rs[warmup] = r[0];
    rs[warmup + 1] = r[1];
    (residual_from_raw(0, block, warmup, vec![p], qs, rs), p, q, r)
}

fn push_small_residual(e: &mut Ideal, p: u8, q: [u32; 2], r: [u32; 2]) {
    e.push_lsbs(0b00, 2);
    e.push_lsbs(0, 4);
    e.push_lsbs(p as u64, 4);
    push_rice(e, q[0], r[0], p);
    push_rice(e, q[1], r[1], p);
}

/// FIXED predictor subframe of order 2: header 0b0_001010_0, 2 warm-up samples, residual.
//@ unit props=C02,C08 tier=quick kind=bounded timeout=900 funcs="<FixedLpc as BitRepr>::write; <FixedLpc as BitRepr>::count_bits" bound="order 2, block 4"
#[kani::proof]
#[kani::unwind(10)]
fn c08_fixed_write_order2() {
    let bps = any_bps();
    let w0 = any_sample(bps);
    let w1 = any_sample(bps);
    let (res, p, q, r) = small_residual(4, 2);
    let f = FixedLpc::from_parts(heapless::Vec::from_slice(&[w0, w1]).unwrap(), res, bps as u8);
    let mut s = SpecSink::new();
    assert!(f.write(&mut s).is_ok());
    let mut e = Ideal::new();
    e.push_lsbs(0, 1);
    e.push_lsbs(0b001000 | 2, 6); // fixed predictor, order 2
    e.push_lsbs(0, 1);
    e.push_twoc(w0 as i64, bps);
    e.push_twoc(w1 as i64, bps);
    push_small_residual(&mut e, p, q, r);
    ideal_eq(&s.id, &e);
    assert!(f.count_bits() == e.len);
}

/// LPC subframe of order 2: header 0b0_1ooooo_0 with ooooo = order-1, warm-up, 4-bit precision-1
/// (never 1111), 5-bit shift (non-negative), coefficients in `precision` bits, residual.
//@ unit props=C02,C08 tier=thorough kind=bounded timeout=900 funcs="<Lpc as BitRepr>::write; <Lpc as BitRepr>::count_bits" bound="order 2, block 4; precision 1..=15, shift 0..=15, coefficients anywhere in the precision's range"
#[kani::proof]
#[kani::unwind(34)]
fn c08_lpc_write_order2() {
    let bps = any_bps();
    let w0 = any_sample(bps);
    let w1 = any_sample(bps);
    let precision: usize = kani::any();
    kani::assume(1 <= precision && precision <= 15);
    let shift: i8 = kani::any();
    kani::assume(0 <= shift && shift <= 15);
    let c0: i16 = kani::any();
    let c1: i16 = kani::any();
    kani::assume(spec_fits(c0 as i64, precision) && spec_fits(c1 as i64, precision));
    let qp = QuantizedParameters::from_parts(&[c0, c1], 2, shift, precision);
    let (res, p, q, r) = small_residual(4, 2);
    let l = Lpc::from_parts(heapless::Vec::from_slice(&[w0, w1]).unwrap(), qp, res, bps as u8);
    let mut s = SpecSink::new();
    assert!(l.write(&mut s).is_ok());
    let mut e = Ideal::new();
    e.push_lsbs(0, 1);
    e.push_lsbs(0b100000 | (2 - 1), 6);
    e.push_lsbs(0, 1);
    e.push_twoc(w0 as i64, bps);
    e.push_twoc(w1 as i64, bps);
    e.push_lsbs((precision - 1) as u64, 4);
    e.push_twoc(shift as i64, 5);
    e.push_twoc(c0 as i64, precision);
    e.push_twoc(c1 as i64, precision);
    push_small_residual(&mut e, p, q, r);
    ideal_eq(&s.id, &e);
    assert!(l.count_bits() == e.len);
    assert!(precision - 1 != 0b1111);
    kani::cover!(precision == 15 && c0 < 0);
    kani::cover!(precision == 1);
}

// ---- STREAMINFO and metadata blocks ---------------------------------------------------------------

/// STREAMINFO body (RFC 9639 8.2): 16/16/24/24/20/3/5/36 bit fields + 128-bit MD5 = 272 bits.
//@ unit props=C02,C03,C08 tier=quick kind=complete timeout=600 funcs="<StreamInfo as BitRepr>::write; <StreamInfo as BitRepr>::count_bits"
#[kani::proof]
#[kani::unwind(20)]
#[kani::stub(std::fmt::format, stub_format)]
fn c03_stream_info_write() {
    let rate: usize = kani::any();
    let ch: usize = kani::any();
    let bits: usize = kani::any();
    kani::assume(rate <= 96_000 && 1 <= ch && ch <= 8);
    kani::assume(bits == 8 || bits == 12 || bits == 16 || bits == 20 || bits == 24);
    let mut info = StreamInfo::new(rate, ch, bits).unwrap();
    let minb: usize = kani::any();
    let maxb: usize = kani::any();
    kani::assume(minb <= maxb && maxb <= 32767);
    assert!(info.set_block_sizes(minb, maxb).is_ok());
    let minf: usize = kani::any();
    let maxf: usize = kani::any();
    kani::assume(minf <= maxf && maxf < (1 << 24));
    assert!(info.set_frame_sizes(minf, maxf).is_ok());
    let total: usize = kani::any();
    kani::assume(total < (1usize << 36));
    info.set_total_samples(total);
    let md5: [u8; 16] = kani::any();
    info.set_md5_digest(&md5);

    let mut s = SpecSink::new();
    assert!(info.write(&mut s).is_ok());
    let mut e = Ideal::new();
    e.push_lsbs(minb as u64, 16);
    e.push_lsbs(maxb as u64, 16);
    e.push_lsbs(minf as u64, 24);
    e.push_lsbs(maxf as u64, 24);
    e.push_lsbs(rate as u64, 20);
    e.push_lsbs((ch - 1) as u64, 3);
    e.push_lsbs((bits - 1) as u64, 5);
    e.push_lsbs(total as u64, 36);
    let mut i = 0;
    while i < 16 {
        e.push_lsbs(md5[i] as u64, 8);
        i += 1;
    }
    ideal_eq(&s.id, &e);
    assert!(e.len == 272 && info.count_bits() == 272);
}

/// Metadata block: 1-bit last flag, 7-bit type, 24-bit body length in bytes, body.
//@ unit props=C02,C08 tier=quick kind=bounded timeout=600 funcs="<MetadataBlock as BitRepr>::write; <MetadataBlock as BitRepr>::count_bits; <MetadataBlockData as BitRepr>::write" bound="unknown-type block with a 3-byte body; STREAMINFO block header"
#[kani::proof]
#[kani::unwind(20)]
#[kani::stub(std::fmt::format, stub_format)]
fn c08_metadata_block_write() {
    let tag: u8 = kani::any();
    kani::assume(1 <= tag && tag <= 126);
    let body: [u8; 3] = kani::any();
    let is_last: bool = kani::any();
    let data = MetadataBlockData::new_unknown(tag, &body).unwrap();
    let blk = MetadataBlock::from_parts(is_last, data);
    let mut s = SpecSink::new();
    assert!(blk.write(&mut s).is_ok());
    let mut e = Ideal::new();
    e.push_lsbs(is_last as u64, 1);
    e.push_lsbs(tag as u64, 7);
    e.push_lsbs(3, 24);
    e.push_lsbs(body[0] as u64, 8);
    e.push_lsbs(body[1] as u64, 8);
    e.push_lsbs(body[2] as u64, 8);
    ideal_eq(&s.id, &e);
    assert!(blk.count_bits() == e.len);

    // STREAMINFO block: type 0, length 34
    let info = StreamInfo::new(44100, 2, 16).unwrap();
    let blk = MetadataBlock::from_parts(is_last, MetadataBlockData::StreamInfo(info));
    let mut s = SpecSink::new();
    assert!(blk.write(&mut s).is_ok());
    assert!(s.id.len == 32 + 272 && blk.count_bits() == 32 + 272);
    assert!((s.id.w[0] >> 32) as u32 == ((is_last as u32) << 31) | 34);
}

// ---- Frame::count_bits (closures + iterator sum: outside Verus, cheap for Kani) -------------------

/// `Frame::count_bits()` == header bits + sum of subframe bits, rounded up to a byte, + 16; a whole
/// number of bytes; with a precomputed bitstream: 8 x its length.  (What `Frame::write` emits is
/// exactly that many bits: Verus unit frame_write.)
//@ unit props=C08,C04 tier=quick kind=bounded timeout=600 funcs="<Frame as BitRepr>::count_bits; Frame::add_subframe; Frame::precomputed_bitstream" bound="0, 1 or 2 subframes of arbitrary reported size"
#[kani::proof]
#[kani::unwind(12)]
fn c08_frame_count_bits() {
    use crate::component::datatype::BlockSizeSpec;
    use crate::component::datatype::FrameOffset;
    use crate::component::datatype::SampleRateSpec;
    use crate::component::datatype::SampleSizeSpec;
    let mut frame = Frame::new_empty(
        BlockSizeSpec::S192,
        ChannelAssignment::Independent(2),
        SampleSizeSpec::B16,
        SampleRateSpec::R44_1kHz,
    );
    let num: u32 = kani::any();
    frame.header_mut().set_frame_offset(FrameOffset::Frame(num));
    let hb = frame.header().count_bits();
    assert!(frame.count_bits() == ((hb + 7) / 8) * 8 + 16);
    let a: u8 = kani::any();
    let b: u8 = kani::any();
    frame.add_subframe(Constant::from_parts(192, 1, a).into());
    assert!(frame.count_bits() == ((hb + 8 + a as usize + 7) / 8) * 8 + 16);
    frame.add_subframe(Constant::from_parts(192, 2, b).into());
    let total = hb + (8 + a as usize) + (8 + b as usize);
    assert!(frame.count_bits() == ((total + 7) / 8) * 8 + 16);
    assert!(frame.count_bits() % 8 == 0);
    kani::cover!(total % 8 == 3);
}
