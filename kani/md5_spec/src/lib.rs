//! flacverif stand-in for `md-5` 0.10 under Kani: the digest state IS the byte string fed so far
//! (first `CAP` bytes + total length).  Contract assumed of the real crate: the digest is a function
//! of exactly that byte string.  API surface = what flacenc uses (`Digest::{new, update, finalize}`,
//! `Clone`, `Into<[u8; 16]>`, `Debug` of the output).
pub const CAP: usize = 48;

#[derive(Clone)]
pub struct Md5 {
    pub fed: [u8; CAP],
    pub len: usize,
}

#[derive(Clone, Copy, Debug, PartialEq, Eq)]
pub struct Output(pub [u8; 16]);

impl From<Output> for [u8; 16] {
    fn from(o: Output) -> [u8; 16] {
        o.0
    }
}

pub trait Digest {
    fn new() -> Self;
    fn update(&mut self, data: impl AsRef<[u8]>);
    fn finalize(self) -> Output;
}

impl Digest for Md5 {
    fn new() -> Self {
        Md5 { fed: [0u8; CAP], len: 0 }
    }

    fn update(&mut self, data: impl AsRef<[u8]>) {
        let d = data.as_ref();
        let mut i = 0;
        while i < d.len() {
            if self.len < CAP {
                self.fed[self.len] = d[i];
            }
            self.len += 1;
            i += 1;
        }
    }

    /// an injective summary of short inputs: length + first 15 bytes (enough for the units)
    fn finalize(self) -> Output {
        let mut o = [0u8; 16];
        o[0] = self.len as u8;
        let mut i = 0;
        while i < 15 {
            o[i + 1] = self.fed[i];
            i += 1;
        }
        Output(o)
    }
}
