// Harnesses for src/coding.rs (child module `coding::verif_frm`): frame assembly.
// `encode_frame_impl` and `encode_frame` are the functions the selection / entry-point units take as
// callee contracts (contract_encode_frame, contract_encode_frame_impl); here they are proved to
// meet them, with `encode_subframe` / `try_stereo_coding` replaced by recording contracts.

use crate::source::verif::framebuf_from_parts;
use crate::bitsink::verif::SpecSink;

static mut SF_CALLS: usize = 0;
static mut SF_FIRST: [i32; 8] = [0; 8];
static mut SF_LAST: [i32; 8] = [0; 8];
static mut SF_LEN: [usize; 8] = [0; 8];
static mut SF_BPS: [u8; 8] = [0; 8];
static mut SF_CFG_FIXED_MAX: usize = 0;

/// contract of `encode_subframe`: SOME subframe for the samples it was handed (proved by
/// c09_encode_subframe_select: the constant / a candidate / verbatim(samples)).  Records its k-th
/// call; the returned subframe carries k as its value so that the caller's ordering is visible.
fn contract_encode_subframe(
    config: &config::SubFrameCoding,
    samples: &[i32],
    bits_per_sample: u8,
) -> SubFrame {
    let k = unsafe { SF_CALLS };
    unsafe {
        if k < 8 && !samples.is_empty() {
            SF_FIRST[k] = samples[0];
            SF_LAST[k] = samples[samples.len() - 1];
        }
        if k < 8 {
            SF_LEN[k] = samples.len();
            SF_BPS[k] = bits_per_sample;
        }
        SF_CFG_FIXED_MAX = config.fixed.max_order;
        SF_CALLS = k + 1;
    }
    Constant::from_parts(samples.len(), k as i32, bits_per_sample).into()
}

fn written_value(s: &SpecSink) -> u32 {
    if s.id.len == 0 {
        0
    } else {
        (s.id.w[0] >> (64 - s.id.len)) as u32
    }
}

fn call_tag(sf: &SubFrame) -> i32 {
    match sf {
        SubFrame::Constant(c) => c.dc_offset(),
        _ => -1,
    }
}

/// `encode_frame_impl(config, framebuf, offset, stream_info, ch_info)` (C02 "codes that agree with
/// STREAMINFO", C01 "same channel count / width"):
///  * header: block size == the FILLED size, channel assignment == `ch_info`, sample-size code == the
///    code of STREAMINFO's width (8/12/16/20/24 all have one), sample-rate code is 0 or decodes to
///    STREAMINFO's rate, variable-blocking offset == `offset`;
///  * exactly one subframe per channel, in channel order; subframe `ch` was produced from exactly the
///    filled samples of channel `ch` (first, last, length) at `bits + bits_per_sample_offset(ch)` bits
///    with the caller's sub-frame configuration.
fn check_encode_frame_impl(nch: usize, ch_info: ChannelAssignment, symbolic_rate: bool) {
    let mut cfg = config::Encoder::default();
    let fmax: usize = kani::any();
    kani::assume(fmax <= 4);
    cfg.subframe_coding.fixed.max_order = fmax;
    let bits: usize = kani::any();
    kani::assume(bits == 8 || bits == 12 || bits == 16 || bits == 20 || bits == 24);
    let rate: usize = if symbolic_rate { kani::any() } else { 44_100 };
    kani::assume(1 <= rate && rate <= 96_000);
    let filled: usize = kani::any();
    kani::assume(filled == 1 || filled == 2 || filled == 3);
    // capacity 3 per channel
    let mut samples = vec![0i32; 3 * nch];
    let mut i = 0;
    while i < 3 * nch {
        samples[i] = kani::any();
        i += 1;
    }
    let copy = samples.clone();
    let fb = framebuf_from_parts(samples, 3, filled);
    let info = match StreamInfo::new(rate, nch, bits) {
        Ok(x) => x,
        Err(_) => {
            assert!(false);
            return;
        }
    };
    let offset: u64 = kani::any();
    kani::assume(offset < (1u64 << 36));
    unsafe {
        SF_CALLS = 0;
    }

    let frame = encode_frame_impl(&cfg, &fb, offset, &info, &ch_info);

    let h = frame.header();
    assert!(h.block_size() == filled);
    assert!(*h.channel_assignment() == ch_info);
    assert!(h.bits_per_sample() == Some(bits));
    assert!((*h.sample_size_spec()).into_tag() != 0);
    let sr = h.sample_rate_spec();
    let tag = sr.tag();
    assert!(tag <= 14);
    if tag != 0 {
        let mut s = SpecSink::new();
        assert!((*sr).write_extra_bits(&mut s).is_ok());
        assert!(spec_samplerate(tag, written_value(&s)) == Some(rate as u32));
    }
    assert!(h.is_variable_blocking());
    assert!(h.start_sample_number() == offset);

    let calls = unsafe { SF_CALLS };
    assert!(calls == nch);
    assert!(frame.subframe_count() == nch);
    assert!(unsafe { SF_CFG_FIXED_MAX } == fmax);
    let mut ch = 0;
    while ch < nch {
        let sf = frame.subframe(ch).unwrap();
        assert!(call_tag(sf) == ch as i32);
        let (first, last, len, bps) = unsafe { (SF_FIRST[ch], SF_LAST[ch], SF_LEN[ch], SF_BPS[ch]) };
        assert!(len == filled);
        assert!(first == copy[3 * ch]);
        assert!(last == copy[3 * ch + filled - 1]);
        assert!(bps as usize == bits + ch_info.bits_per_sample_offset(ch));
        ch += 1;
    }
    kani::cover!(filled == 1);
    kani::cover!(filled == 3 && (tag == 0 || !symbolic_rate));
    kani::cover!(tag == 13 || !symbolic_rate);
    kani::cover!(tag == 9 && bits == 20);
}

//@ unit props=C02,C01,C03 tier=quick kind=complete timeout=900 funcs="coding::encode_frame_impl; FrameBuf::channel_slice; FrameBuf::filled_size" stubs="encode_subframe -> some subframe, recording samples / width / configuration (c09_encode_subframe_select)" bound="shape: 1 channel, capacity 3, 1..=3 filled; every rate 1..=96000, width, offset and sample value" name=c02_encode_frame_impl_ch1
#[kani::proof]
#[kani::unwind(10)]
#[kani::stub(std::fmt::format, stub_format)]
#[kani::stub(encode_subframe, contract_encode_subframe)]
fn c02_encode_frame_impl_ch1() {
    check_encode_frame_impl(1, ChannelAssignment::Independent(1), true);
}

//@ unit props=C02,C01,C03 tier=quick kind=complete timeout=900 funcs="coding::encode_frame_impl; FrameBuf::channel_slice; ChannelAssignment::bits_per_sample_offset" stubs="encode_subframe -> some subframe, recording samples / width / configuration (c09_encode_subframe_select)" bound="shape: 2 channels, capacity 3, 1..=3 filled; all four stereo assignments; rate 44100 (every rate: _ch1)" name=c02_encode_frame_impl_ch2
#[kani::proof]
#[kani::unwind(10)]
#[kani::stub(std::fmt::format, stub_format)]
#[kani::stub(encode_subframe, contract_encode_subframe)]
fn c02_encode_frame_impl_ch2() {
    let k: u8 = kani::any();
    kani::assume(k < 4);
    let ch_info = match k {
        0 => ChannelAssignment::Independent(2),
        1 => ChannelAssignment::LeftSide,
        2 => ChannelAssignment::RightSide,
        _ => ChannelAssignment::MidSide,
    };
    check_encode_frame_impl(2, ch_info, false);
    kani::cover!(k == 2);
    kani::cover!(k == 3);
}

//@ unit props=C02,C01,C03 tier=thorough kind=complete timeout=1800 funcs="coding::encode_frame_impl; FrameBuf::channel_slice" stubs="encode_subframe -> some subframe, recording samples / width / configuration (c09_encode_subframe_select)" bound="shape: 8 channels, capacity 3, 1..=3 filled; rate 44100" name=c02_encode_frame_impl_ch8
#[kani::proof]
#[kani::unwind(26)]
#[kani::stub(std::fmt::format, stub_format)]
#[kani::stub(encode_subframe, contract_encode_subframe)]
fn c02_encode_frame_impl_ch8() {
    check_encode_frame_impl(8, ChannelAssignment::Independent(8), false);
}

// ------------------------------------------------------------------------------------------------
// encode_frame: independent coding for every channel count, stereo search exactly for 2 channels
// ------------------------------------------------------------------------------------------------

static mut EF_IMPL_CALLS: usize = 0;
static mut EF_IMPL_OFFSET: u64 = 0;
static mut EF_IMPL_INDEP_N: u8 = 0;
static mut EF_STEREO_CALLS: usize = 0;
static mut EF_STEREO_GOT_INDEP: bool = false;
static mut EF_STEREO_OFFSET: u64 = 0;

fn contract_encode_frame_impl_rec(
    _config: &config::Encoder,
    framebuf: &FrameBuf,
    offset: u64,
    _stream_info: &StreamInfo,
    ch_info: &ChannelAssignment,
) -> Frame {
    unsafe {
        EF_IMPL_CALLS += 1;
        EF_IMPL_OFFSET = offset;
        EF_IMPL_INDEP_N = match ch_info {
            ChannelAssignment::Independent(n) => *n,
            _ => 0,
        };
    }
    let mut frame = Frame::new_empty(
        BlockSizeSpec::from_size(framebuf.filled_size() as u16),
        ch_info.clone(),
        SampleSizeSpec::B16,
        SampleRateSpec::R44_1kHz,
    );
    frame
        .header_mut()
        .set_frame_offset(FrameOffset::StartSample(offset));
    frame
}

/// contract of `try_stereo_coding` (proved by c01_stereo_midside_and_selection): some stereo frame;
/// records that it received the independent frame.  The result is marked by the MidSide assignment.
fn contract_try_stereo_coding(
    _config: &config::Encoder,
    framebuf: &FrameBuf,
    indep: Frame,
    offset: u64,
    _stream_info: &StreamInfo,
) -> Frame {
    unsafe {
        EF_STEREO_CALLS += 1;
        EF_STEREO_GOT_INDEP =
            *indep.header().channel_assignment() == ChannelAssignment::Independent(2);
        EF_STEREO_OFFSET = offset;
    }
    let mut frame = Frame::new_empty(
        BlockSizeSpec::from_size(framebuf.filled_size() as u16),
        ChannelAssignment::MidSide,
        SampleSizeSpec::B16,
        SampleRateSpec::R44_1kHz,
    );
    frame
        .header_mut()
        .set_frame_offset(FrameOffset::StartSample(offset));
    frame
}

/// `encode_frame`: the independent-channel frame is built once with `Independent(channels)` and the
/// caller's offset; for exactly two channels it is handed to the stereo search (same offset) and
/// the search's result is returned; for every other channel count it is returned as is.
//@ unit props=C02,C01,C09 tier=quick kind=complete timeout=600 funcs="coding::encode_frame" stubs="encode_frame_impl -> some frame with the given assignment (c02_encode_frame_impl_*); try_stereo_coding -> some stereo frame (c01_stereo_midside_and_selection)"
#[kani::proof]
#[kani::unwind(10)]
#[kani::stub(std::fmt::format, stub_format)]
#[kani::stub(encode_frame_impl, contract_encode_frame_impl_rec)]
#[kani::stub(try_stereo_coding, contract_try_stereo_coding)]
fn c02_encode_frame_dispatch() {
    let cfg = config::Encoder::default();
    let nch: usize = kani::any();
    kani::assume(1 <= nch && nch <= 8);
    let fb = framebuf_from_parts(vec![0i32; 8], 1, 1);
    let info = match StreamInfo::new(44100, nch, 16) {
        Ok(x) => x,
        Err(_) => {
            assert!(false);
            return;
        }
    };
    let offset: u64 = kani::any();
    unsafe {
        EF_IMPL_CALLS = 0;
        EF_STEREO_CALLS = 0;
    }
    let out = encode_frame(&cfg, &fb, offset, &info);
    let (ic, io, inn, sc, sg, so) = unsafe {
        (EF_IMPL_CALLS, EF_IMPL_OFFSET, EF_IMPL_INDEP_N, EF_STEREO_CALLS, EF_STEREO_GOT_INDEP, EF_STEREO_OFFSET)
    };
    assert!(ic == 1 && io == offset && inn as usize == nch);
    assert!(out.header().start_sample_number() == offset);
    if nch == 2 {
        assert!(sc == 1 && sg && so == offset);
        assert!(*out.header().channel_assignment() == ChannelAssignment::MidSide);
    } else {
        assert!(sc == 0);
        assert!(*out.header().channel_assignment() == ChannelAssignment::Independent(nch as u8));
    }
    kani::cover!(nch == 2);
    kani::cover!(nch == 8);
}
