// Harnesses for src/component/parser.rs (child module `component::parser::verif`).
// C16 (no panic on arbitrary bytes; CRCs enforced) and C15 (the parser inverts the writer).
//
// Conventions: input byte strings have a CONCRETE length per harness (symbolic lengths are fatal),
// every byte is symbolic.  Bit-level parsers additionally get a symbolic bit offset 0..=7 where
// noted.  nom error type: the plain `(input, ErrorKind)` pair (no allocation).

use crate::bitsink::verif::SpecSink;
use crate::component::bitrepr::encode_to_utf8like;
use crate::component::BitRepr;
use nom::error::ErrorKind;

type ByteErr<'a> = (&'a [u8], ErrorKind);
type BitErr<'a> = (BitInput<'a>, ErrorKind);

/// Callee contract for `arrayutils::find_max::<N>` (64-lane fakesimd reduction, README pitfall 5):
/// the maximum element, 0 for the empty slice.
fn contract_find_max<const N: usize>(data: &[u32]) -> u32
where
    crate::fakesimd::LaneCount<N>: crate::fakesimd::SupportedLaneCount,
{
    let mut m = 0u32;
    let mut i = 0;
    while i < data.len() {
        if data[i] > m {
            m = data[i];
        }
        i += 1;
    }
    m
}

/// Callee contract for `arrayutils::wrapping_sum::<T, N>`: the sum modulo 2^bits.
fn contract_wrapping_sum<T, const N: usize>(data: &[T]) -> T
where
    T: crate::fakesimd::SimdElement + num_traits::WrappingAdd + num_traits::Zero,
    crate::fakesimd::Simd<T, N>: crate::fakesimd::SimdUint<Scalar = T>
        + std::ops::Add<Output = crate::fakesimd::Simd<T, N>>,
    crate::repeat::Count<N>: crate::repeat::Repeat,
    crate::fakesimd::LaneCount<N>: crate::fakesimd::SupportedLaneCount,
{
    let mut s = T::zero();
    let mut i = 0;
    while i < data.len() {
        s = s.wrapping_add(&data[i]);
        i += 1;
    }
    s
}

// ================================================================================================
// C16 (a): no sub-parser panics on arbitrary bytes
// ================================================================================================

/// `utf8_code` on 7 arbitrary bytes (the longest code) and on every shorter prefix: a result or an
/// error, never a panic; an accepted code consumed 1..=7 bytes and is below 2^36.
//@ unit props=C16 tier=quick kind=complete timeout=300 funcs="parser::utf8_code" note="complete: the parser looks at no more than 7 bytes"
#[kani::proof]
#[kani::unwind(9)]
fn c16_utf8_code_no_panic() {
    let data: [u8; 7] = kani::any();
    let n: usize = kani::any();
    kani::assume(n <= 7);
    let r = utf8_code::<ByteErr>(&data[0..n]);
    let mut ok = false;
    let mut inc = false;
    match r {
        Ok((rest, v)) => {
            assert!(rest.len() < n);
            assert!(v < (1u64 << 36));
            ok = true;
        }
        Err(nom::Err::Incomplete(_)) => inc = true,
        Err(_) => {}
    }
    kani::cover!(ok && n == 7 && data[0] == 0xFE);
    kani::cover!(inc);
    kani::cover!(!ok && !inc);
}

/// `block_size_code(tag)` for EVERY u8 tag on 0..=2 arbitrary bytes, and then the block size the
/// frame parser derives from the result (`FrameHeader::block_size`, called by `frame`): never a
/// panic, and an accepted code denotes the RFC 9639 block size (so 1..=65536).
//@ unit props=C16,C15 tier=quick kind=complete timeout=300 funcs="parser::block_size_code; FrameHeader::block_size; BlockSizeSpec::block_size"
#[kani::proof]
#[kani::unwind(4)]
fn c16_block_size_code_no_panic() {
    let data: [u8; 2] = kani::any();
    let n: usize = kani::any();
    kani::assume(n <= 2);
    let tag: u8 = kani::any();
    let r = block_size_code::<ByteErr>(tag)(&data[0..n]);
    let mut ok = false;
    if let Ok((rest, spec)) = r {
        ok = true;
        let used = n - rest.len();
        assert!(used * 8 == spec_blocksize_extra_bits(tag));
        let extra: u32 = match used {
            0 => 0,
            1 => data[0] as u32,
            _ => ((data[0] as u32) << 8) | data[1] as u32,
        };
        let h = component::FrameHeader::from_specs(
            spec,
            component::ChannelAssignment::Independent(1),
            component::SampleSizeSpec::B16,
            component::SampleRateSpec::R44_1kHz,
        );
        let bs = h.block_size();
        assert!(tag <= 15 && spec_blocksize(tag, extra) == Some(bs as u32));
        assert!(spec.tag() == tag);
    } else {
        // reserved / out-of-range tags are errors; a missing extra byte is Incomplete
        assert!(tag == 0 || tag > 15 || n * 8 < spec_blocksize_extra_bits(tag));
    }
    kani::cover!(ok && tag == 6 && data[0] == 255);
    kani::cover!(ok && tag == 7 && data[0] == 255 && data[1] == 255);
    kani::cover!(ok && tag == 15);
    kani::cover!(!ok && tag == 0);
}

/// `sample_rate_code(tag)` for every 4-bit tag on 0..=2 arbitrary bytes: never a panic; tag 15
/// (forbidden by RFC 9639) is an error; an accepted code denotes the RFC sample rate.
//@ unit props=C16,C15 tier=quick kind=complete timeout=300 funcs="parser::sample_rate_code; SampleRateSpec::from_tag_and_data"
#[kani::proof]
#[kani::unwind(4)]
fn c16_sample_rate_code_no_panic() {
    let data: [u8; 2] = kani::any();
    let n: usize = kani::any();
    kani::assume(n <= 2);
    let tag: u8 = kani::any();
    kani::assume(tag <= 15); // a 4-bit field of the frame header
    let r = sample_rate_code::<ByteErr>(tag)(&data[0..n]);
    let mut ok = false;
    if let Ok((rest, spec)) = r {
        ok = true;
        let used = n - rest.len();
        assert!(tag != 15);
        assert!(used * 8 == spec_samplerate_extra_bits(tag));
        assert!(spec.tag() == tag);
    } else {
        assert!(tag == 15 || n * 8 < spec_samplerate_extra_bits(tag));
    }
    kani::cover!(ok && tag == 14);
    kani::cover!(ok && tag == 12);
    kani::cover!(!ok && tag == 15);
}

/// `u_to_i(x, bits)` for every width 1..=32 and every x < 2^bits: no panic, and the result is the
/// two's complement reading of the field.
//@ unit props=C16,C15 tier=quick kind=complete timeout=300 funcs="parser::u_to_i" note="width 32 is reachable only through SampleSizeSpec::B32, which StreamInfo rejects; widths 1..=26 are what the parsers use"
#[kani::proof]
#[kani::unwind(2)]
fn c16_u_to_i_all_widths() {
    let bits: usize = kani::any();
    kani::assume(1 <= bits && bits <= 32);
    let x: u32 = kani::any();
    kani::assume((x as u64) < (1u64 << bits));
    let v = u_to_i(x, bits);
    assert!(spec_fits(v as i64, bits));
    assert!(((v as i64) & ((1i64 << bits) - 1)) == x as i64);
    kani::cover!(bits == 32 && v < 0);
    kani::cover!(bits == 1 && v == -1);
}

/// The widths the parsers actually pass (1..=26: sample widths 8..=25 (+1 side), LPC precision
/// 1..=16, the 5-bit shift): no panic and two's complement reading.
//@ unit props=C16,C15 tier=quick kind=complete timeout=300 funcs="parser::u_to_i"
#[kani::proof]
#[kani::unwind(2)]
fn c15_u_to_i_used_widths() {
    let bits: usize = kani::any();
    kani::assume(1 <= bits && bits <= 26);
    let x: u32 = kani::any();
    kani::assume((x as u64) < (1u64 << bits));
    let v = u_to_i(x, bits);
    assert!(spec_fits(v as i64, bits));
    assert!(((v as i64) & ((1i64 << bits) - 1)) == x as i64);
    // writer direction: the field `write_twoc(w, bits)` emits for an in-range w reads back as w
    let w: i32 = kani::any();
    kani::assume(spec_fits(w as i64, bits));
    let field = (w as u32) & (((1u64 << bits) - 1) as u32);
    assert!(u_to_i(field, bits) == w);
    kani::cover!(bits == 26 && v < 0);
    kani::cover!(bits == 1 && v == -1);
    kani::cover!(bits == 25 && w == -(1 << 24));
}

/// `subframe_header` on 2 arbitrary bytes at every bit offset: never a panic (a set wasted-bits
/// flag is an unsupported-feature ERROR, not an abort).
//@ unit props=C16 tier=quick kind=complete timeout=300 funcs="parser::subframe_header"
#[kani::proof]
#[kani::unwind(5)]
fn c16_subframe_header_no_panic() {
    let data: [u8; 2] = kani::any();
    let n: usize = kani::any();
    kani::assume(n <= 2);
    let off: usize = kani::any();
    kani::assume(off <= 7);
    let r = subframe_header::<BitErr>((&data[0..n], off));
    let mut ok = false;
    if let Ok((_rest, (tag, wasted))) = r {
        ok = true;
        assert!(tag <= 0x7F);
        assert!(!wasted); // wasted bits are not supported: must not be accepted silently
    }
    kani::cover!(ok && off == 7);
    kani::cover!(!ok && n == 2 && off == 0);
}

/// `quantized_parameters(order)` on N arbitrary bytes at every bit offset: never a panic.  (A
/// precision code of 0b1111, a negative shift and an order above 24 are invalid: errors.)  The
/// order is concrete per harness so that every Vec length is concrete.
fn c16_qp_body<const ORDER: usize, const N: usize>() {
    let data: [u8; N] = kani::any();
    let off: usize = kani::any();
    kani::assume(off <= 7);
    let r = quantized_parameters::<BitErr>(ORDER)((&data[..], off));
    let mut ok = false;
    if let Ok((_rest, qp)) = r {
        ok = true;
        assert!(qp.order() == ORDER);
        assert!(qp.order() <= crate::constant::qlpc::MAX_ORDER);
        assert!(1 <= qp.precision() && qp.precision() <= 15);
        assert!(qp.shift() >= 0);
    }
    kani::cover!(ok || ORDER > 24);
    kani::cover!(!ok);
}

//@ unit props=C16 tier=quick kind=bounded timeout=600 funcs="parser::quantized_parameters; parser::raw_samples" bound="order 1, 4 arbitrary input bytes (9 + 16 bits needed at most), bit offset 0..=7"
#[kani::proof]
#[kani::unwind(8)]
#[kani::stub(std::fmt::format, stub_format)]
fn c16_quantized_parameters_order1() {
    c16_qp_body::<1, 4>();
}

/// `constant(block_size, bits)` for every documented sample width 8..=25 on 5 arbitrary bytes at
/// every bit offset: never a panic; an accepted subframe has an in-range DC offset.
//@ unit props=C16 tier=quick kind=complete timeout=600 funcs="parser::constant; parser::subframe_header; parser::u_to_i" note="complete: the parser reads at most 8+25 bits"
#[kani::proof]
#[kani::unwind(8)]
fn c16_constant_no_panic() {
    let data: [u8; 5] = kani::any();
    let off: usize = kani::any();
    kani::assume(off <= 7);
    let bits: usize = kani::any();
    kani::assume(8 <= bits && bits <= 25);
    let bs: usize = kani::any();
    kani::assume(1 <= bs && bs <= 65535);
    let r = constant::<BitErr>(bs, bits)((&data[..], off));
    let mut ok = false;
    if let Ok((_rest, c)) = r {
        ok = true;
        assert!(c.block_size() == bs && c.bits_per_sample() == bits);
        assert!(spec_fits(c.dc_offset() as i64, bits));
    }
    kani::cover!(ok && bits == 25 && off == 7);
    kani::cover!(!ok);
}

/// `verbatim(2, bits)` for every documented sample width on 8 arbitrary bytes at every bit offset.
//@ unit props=C16 tier=quick kind=bounded timeout=600 funcs="parser::verbatim; parser::raw_samples" bound="block size 2, 8 input bytes"
#[kani::proof]
#[kani::unwind(11)]
fn c16_verbatim_no_panic() {
    let data: [u8; 8] = kani::any();
    let off: usize = kani::any();
    kani::assume(off <= 7);
    let bits: usize = kani::any();
    kani::assume(8 <= bits && bits <= 25);
    let r = verbatim::<BitErr>(2, bits)((&data[..], off));
    let mut ok = false;
    if let Ok((_rest, v)) = r {
        ok = true;
        assert!(v.samples().len() == 2 && v.bits_per_sample() == bits);
        assert!(spec_fits(v.samples()[0] as i64, bits) && spec_fits(v.samples()[1] as i64, bits));
    }
    kani::cover!(ok && bits == 25);
    kani::cover!(!ok);
}

//@ unit props=C16 tier=quick kind=bounded timeout=600 funcs="parser::quantized_parameters; parser::raw_samples" bound="order 2, 6 arbitrary input bytes, bit offset 0..=7"
#[kani::proof]
#[kani::unwind(9)]
#[kani::stub(std::fmt::format, stub_format)]
fn c16_quantized_parameters_order2() {
    c16_qp_body::<2, 6>();
}

// (Order 25..=32 -- beyond this crate's maximum LPC order 24 -- needs unwind 27 over 25 `bit_take`
// calls and exceeds 900 s; the `expect` it reaches was confirmed by concrete execution, see the
// note at the end of this file.)

// ================================================================================================
// C16 (a)+(b): frame header on arbitrary bytes: no panic, and the CRC-8 is enforced
// ================================================================================================

/// `frame_header(check_crc)` on N arbitrary bytes.  Never a panic; an accepted header starts with
/// the sync code, consumed 6..=N bytes, denotes a block size in 1..=65536 (`FrameHeader::block_size`
/// is what `frame` calls next), a sample-rate code other than 0b1111 and non-reserved channel bits;
/// and, with `check_crc`, its last consumed byte IS the RFC 9639 CRC-8 (bitwise reference
/// implementation) of all consumed bytes before it: a header whose stored CRC-8 does not match is
/// never accepted.
fn c16_frame_header_body<const N: usize>(check_crc: bool) {
    let data: [u8; N] = kani::any();
    let r = frame_header::<ByteErr>(check_crc)(&data[..]);
    let mut ok = false;
    let mut used = 0;
    if let Ok((rest, h)) = r {
        ok = true;
        used = N - rest.len();
        assert!(6 <= used && used <= N);
        assert!(data[0] == 0xFF && (data[1] & 0xFE) == 0xF8);
        if check_crc {
            assert!(data[used - 1] == spec_crc8(&data[0..used - 1]));
        }
        let bs = h.block_size();
        assert!(1 <= bs && bs <= 65536);
        assert!(spec_blocksize(data[2] >> 4, (bs - 1) as u32) == Some(bs as u32));
        assert!(h.sample_rate_spec().tag() == (data[2] & 0x0F) && (data[2] & 0x0F) != 15);
        assert!(h.channel_assignment().channels() >= 1 && h.channel_assignment().channels() <= 8);
        assert!((data[3] >> 4) <= 10 && (data[3] & 1) == 0);
        assert!(h.is_variable_blocking() == ((data[1] & 1) == 1));
    }
    kani::cover!(ok && used == 6);
    kani::cover!(ok && used == N);
    kani::cover!(ok && (data[2] >> 4) == 6 && data[5] == 255); // 8-bit block size 256
    kani::cover!(!ok && data[0] == 0xFF && (data[2] & 0x0F) == 15);
    kani::cover!(!ok);
}

//@ unit props=C16 tier=quick kind=bounded timeout=900 funcs="parser::frame_header; parser::utf8_code; parser::block_size_code; parser::sample_rate_code; FrameHeader::block_size" bound="8 arbitrary input bytes (headers of 6..=8 bytes can be accepted; longer ones end in Incomplete)" note="CRC-8 enforced: accepted => last byte == bitwise RFC CRC-8 of the bytes before it"
#[kani::proof]
#[kani::unwind(10)]
fn c16_frame_header_crc8_enforced() {
    c16_frame_header_body::<8>(true);
}

//@ unit props=C16 tier=quick kind=bounded timeout=900 funcs="parser::frame_header; parser::utf8_code; parser::block_size_code; parser::sample_rate_code; FrameHeader::block_size" bound="8 arbitrary input bytes, CRC check disabled"
#[kani::proof]
#[kani::unwind(10)]
fn c16_frame_header_nocrc_no_panic() {
    c16_frame_header_body::<8>(false);
}

// ================================================================================================
// C16 (a): metadata
// ================================================================================================

/// `stream_info` on 34 arbitrary bytes (the exact STREAMINFO length): never a panic; an accepted
/// block describes a stream this crate supports (1..=8 channels, a documented sample width, rate
/// <= 96 kHz) and stores the fields at their RFC 9639 section 8.2 positions.
//@ unit props=C16,C15 tier=quick kind=complete timeout=900 funcs="parser::stream_info; StreamInfo::new; StreamInfo::set_block_sizes; StreamInfo::set_frame_sizes" note="complete: STREAMINFO is exactly 34 bytes; shorter inputs end in Incomplete (unit c16_stream_info_short)"
#[kani::proof]
#[kani::unwind(18)]
#[kani::stub(std::fmt::format, stub_format)]
fn c16_stream_info_no_panic() {
    let data: [u8; 34] = kani::any();
    let r = stream_info::<ByteErr>(&data[..]);
    let mut ok = false;
    if let Ok((rest, info)) = r {
        ok = true;
        assert!(rest.len() == 0);
        assert!(info.min_block_size() == (((data[0] as usize) << 8) | data[1] as usize));
        assert!(info.max_block_size() == (((data[2] as usize) << 8) | data[3] as usize));
        assert!(info.channels() == (((data[12] >> 1) & 7) as usize) + 1);
        assert!(info.bits_per_sample() == ((((data[12] & 1) << 4) | (data[13] >> 4)) as usize) + 1);
        assert!(info.sample_rate() <= 96_000);
        let b = info.bits_per_sample();
        assert!(8 <= b && b <= 25 && (b % 4 == 0 || b % 4 == 1));
        assert!(info.md5_digest()[0] == data[18] && info.md5_digest()[15] == data[33]);
    }
    kani::cover!(ok);
    kani::cover!(!ok);
}

/// Every proper prefix of a STREAMINFO block is Incomplete/Error, never a panic.
//@ unit props=C16 tier=quick kind=bounded timeout=900 funcs="parser::stream_info" bound="prefixes of 0, 3, 9, 17, 18 and 33 bytes (one inside each field group)"
#[kani::proof]
#[kani::unwind(18)]
#[kani::stub(std::fmt::format, stub_format)]
fn c16_stream_info_short() {
    let data: [u8; 33] = kani::any();
    let lens = [0usize, 3, 9, 17, 18, 33];
    let mut k = 0;
    while k < lens.len() {
        let r = stream_info::<ByteErr>(&data[0..lens[k]]);
        assert!(r.is_err());
        k += 1;
    }
}

/// `metadata_block` on 4 header bytes + 4 payload bytes, all arbitrary, for block types other than
/// STREAMINFO (type 0 goes through `stream_info`, units above): never a panic; the invalid type 127
/// is an error; an accepted block consumed exactly 4 + length bytes.
//@ unit props=C16 tier=quick kind=bounded timeout=900 funcs="parser::metadata_block; MetadataBlockData::new_unknown" bound="8 arbitrary input bytes, block type != 0 (payload lengths 0..=4 can be accepted)"
#[kani::proof]
#[kani::unwind(7)]
#[kani::stub(std::fmt::format, stub_format)]
fn c16_metadata_block_no_panic() {
    let data: [u8; 8] = kani::any();
    kani::assume(data[0] & 0x7F != 0);
    let r = metadata_block::<ByteErr>(&data[..]);
    let mut ok = false;
    if let Ok((rest, b)) = r {
        ok = true;
        let len = ((data[1] as usize) << 16) | ((data[2] as usize) << 8) | data[3] as usize;
        assert!(len <= 4 && rest.len() == 4 - len);
        assert!(b.is_last == (data[0] >= 0x80));
        assert!(b.data.typetag() == (data[0] & 0x7F) && b.data.typetag() != 127);
    }
    kani::cover!(ok && data[3] == 4);
    kani::cover!(!ok && data[0] & 0x7F == 127);
}

// ================================================================================================
// C15: leaf inverses, complete over their code spaces
// ================================================================================================

const UTF8_LO: [u64; 8] = [0, 0, 1 << 7, 1 << 11, 1 << 16, 1 << 21, 1 << 26, 1 << 31];
const UTF8_HI: [u64; 8] = [0, 1 << 7, 1 << 11, 1 << 16, 1 << 21, 1 << 26, 1 << 31, 1 << 36];

/// For every value whose code has L bytes: `utf8_code(encode_to_utf8like(v)) == v`, all L bytes
/// consumed; with trailing bytes present exactly L bytes are consumed.
fn c15_utf8_body<const L: usize>() {
    let v: u64 = kani::any();
    kani::assume(UTF8_LO[L] <= v && v < UTF8_HI[L]);
    let code = encode_to_utf8like(v);
    assert!(code.is_ok());
    let code = code.unwrap();
    assert!(code.len() == L);
    let mut buf = [0u8; 8];
    let mut i = 0;
    while i < L {
        buf[i] = code[i];
        i += 1;
    }
    buf[L] = kani::any(); // whatever follows the code
    match utf8_code::<ByteErr>(&buf[0..L]) {
        Ok((rest, x)) => assert!(x == v && rest.len() == 0),
        Err(_) => assert!(false),
    }
    match utf8_code::<ByteErr>(&buf[0..L + 1]) {
        Ok((rest, x)) => assert!(x == v && rest.len() == 1),
        Err(_) => assert!(false),
    }
    kani::cover!(v == UTF8_HI[L] - 1);
    kani::cover!(v == UTF8_LO[L]);
}

//@ unit name=c15_utf8_roundtrip_len1 props=C15 tier=quick kind=complete timeout=300 funcs="parser::utf8_code; encode_to_utf8like"
//@ unit name=c15_utf8_roundtrip_len2 props=C15 tier=quick kind=complete timeout=300 funcs="parser::utf8_code; encode_to_utf8like"
//@ unit name=c15_utf8_roundtrip_len3 props=C15 tier=quick kind=complete timeout=300 funcs="parser::utf8_code; encode_to_utf8like"
//@ unit name=c15_utf8_roundtrip_len4 props=C15 tier=quick kind=complete timeout=300 funcs="parser::utf8_code; encode_to_utf8like"
//@ unit name=c15_utf8_roundtrip_len5 props=C15 tier=quick kind=complete timeout=300 funcs="parser::utf8_code; encode_to_utf8like"
//@ unit name=c15_utf8_roundtrip_len6 props=C15 tier=quick kind=complete timeout=300 funcs="parser::utf8_code; encode_to_utf8like"
//@ unit name=c15_utf8_roundtrip_len7 props=C15 tier=quick kind=complete timeout=300 funcs="parser::utf8_code; encode_to_utf8like"
macro_rules! c15_utf8_harness {
    ($name:ident, $l:expr) => {
        #[kani::proof]
        #[kani::unwind(9)]
        #[kani::stub(std::fmt::format, stub_format)]
        fn $name() {
            c15_utf8_body::<$l>();
        }
    };
}
c15_utf8_harness!(c15_utf8_roundtrip_len1, 1);
c15_utf8_harness!(c15_utf8_roundtrip_len2, 2);
c15_utf8_harness!(c15_utf8_roundtrip_len3, 3);
c15_utf8_harness!(c15_utf8_roundtrip_len4, 4);
c15_utf8_harness!(c15_utf8_roundtrip_len5, 5);
c15_utf8_harness!(c15_utf8_roundtrip_len6, 6);
c15_utf8_harness!(c15_utf8_roundtrip_len7, 7);

/// Serialises the extra bits of a spec into a byte buffer through the abstract sink.
fn extra_bytes_of(s: &SpecSink) -> ([u8; 2], usize) {
    ([s.id.byte(0), s.id.byte(1)], s.id.len / 8)
}

/// For EVERY `BlockSizeSpec` other than `Reserved` (variant concrete per step, payload symbolic):
/// `block_size_code(spec.tag())` applied to the extra bits the writer emits returns exactly `spec`
/// and consumes exactly those bytes.  Together with datatype::verif::c02_block_size_code_all
/// (`from_size` is total on 1..=65535) the parser inverts the writer for every block size.
//@ unit props=C15 tier=quick kind=complete timeout=300 funcs="parser::block_size_code; BlockSizeSpec::tag; BlockSizeSpec::write_extra_bits"
#[kani::proof]
#[kani::unwind(7)]
fn c15_block_size_code_inverts_writer() {
    let x8: u8 = kani::any();
    let x16: u16 = kani::any();
    let k576: u8 = kani::any();
    kani::assume(k576 <= 3);
    let k256: u8 = kani::any();
    kani::assume(k256 <= 7);
    let specs = [
        component::BlockSizeSpec::S192,
        component::BlockSizeSpec::Pow2Mul576(k576),
        component::BlockSizeSpec::ExtraByte(x8),
        component::BlockSizeSpec::ExtraTwoBytes(x16),
        component::BlockSizeSpec::Pow2Mul256(k256),
    ];
    let mut i = 0;
    while i < specs.len() {
        let spec = specs[i];
        let mut s = SpecSink::new();
        assert!(spec.write_extra_bits(&mut s).is_ok());
        let (buf, n) = extra_bytes_of(&s);
        match block_size_code::<ByteErr>(spec.tag())(&buf[0..n]) {
            Ok((rest, back)) => assert!(back == spec && rest.len() == 0),
            Err(_) => assert!(false),
        }
        i += 1;
    }
    // and through `from_size`, for every block size the encoder can emit
    let bs: u16 = kani::any();
    kani::assume(bs >= 1);
    let spec = component::BlockSizeSpec::from_size(bs);
    let mut s = SpecSink::new();
    assert!(spec.write_extra_bits(&mut s).is_ok());
    let (buf, n) = extra_bytes_of(&s);
    let r = block_size_code::<ByteErr>(spec.tag())(&buf[0..n]);
    match r {
        Ok((rest, back)) => assert!(back == spec && rest.len() == 0),
        Err(_) => assert!(false),
    }
    kani::cover!(bs == 256);
    kani::cover!(bs == 65535);
    kani::cover!(bs == 4608 && x8 == 255);
}

/// For EVERY `SampleRateSpec`: `sample_rate_code(spec.tag())` applied to the writer's extra bits
/// returns exactly `spec`, consuming exactly those bytes; and `from_tag_and_data` inverts
/// `tag()` + payload directly.
//@ unit props=C15 tier=quick kind=complete timeout=300 funcs="parser::sample_rate_code; SampleRateSpec::from_tag_and_data; SampleRateSpec::tag; SampleRateSpec::write_extra_bits"
#[kani::proof]
#[kani::unwind(17)]
fn c15_sample_rate_code_inverts_writer() {
    let x8: u8 = kani::any();
    let x16: u16 = kani::any();
    let y16: u16 = kani::any();
    use component::SampleRateSpec as R;
    let specs = [
        R::Unspecified,
        R::R88_2kHz,
        R::R176_4kHz,
        R::R192kHz,
        R::R8kHz,
        R::R16kHz,
        R::R22_05kHz,
        R::R24kHz,
        R::R32kHz,
        R::R44_1kHz,
        R::R48kHz,
        R::R96kHz,
        R::KHz(x8),
        R::Hz(x16),
        R::DaHz(y16),
    ];
    let mut i = 0;
    while i < specs.len() {
        let spec = specs[i];
        assert!(spec.tag() as usize == i);
        let mut s = SpecSink::new();
        assert!(spec.write_extra_bits(&mut s).is_ok());
        let (buf, n) = extra_bytes_of(&s);
        match sample_rate_code::<ByteErr>(spec.tag())(&buf[0..n]) {
            Ok((rest, back)) => assert!(back == spec && rest.len() == 0),
            Err(_) => assert!(false),
        }
        let payload = match spec {
            R::KHz(v) => Some(v as usize),
            R::Hz(v) | R::DaHz(v) => Some(v as usize),
            _ => None,
        };
        assert!(R::from_tag_and_data(spec.tag(), payload) == Some(spec));
        i += 1;
    }
    assert!(R::from_tag_and_data(15, None) == None);
    assert!(R::from_tag_and_data(12, None) == None);
}

/// `unary_code` on one arbitrary byte at every bit offset: the result is the number of zero bits
/// before the first one bit, the input is advanced just past that one bit; if no one bit is left
/// the result is Incomplete.  Never a panic (C16), and the exact inverse of the writer's `q` zeros
/// followed by a one (C15).  This is the callee contract `contract_unary_code` refines.
//@ unit props=C15,C16 tier=quick kind=bounded timeout=600 funcs="parser::unary_code" bound="1 input byte (quotients 0..=7), every bit offset"
#[kani::proof]
#[kani::unwind(11)]
fn c15_unary_code_one_byte() {
    let data: [u8; 1] = kani::any();
    let off: usize = kani::any();
    kani::assume(off <= 7);
    let window = ((data[0] as u32) << off) & 0xFF; // the bits from `off` on, left-aligned in 8 bits
    match unary_code::<BitErr>((&data[..], off)) {
        Ok(((rest, roff), q)) => {
            assert!(window != 0);
            assert!(q as u32 == (window as u8).leading_zeros());
            let end = off + q + 1;
            assert!(rest.len() == 1 - end / 8 && roff == end % 8);
        }
        Err(nom::Err::Incomplete(_)) => assert!(window == 0),
        Err(_) => assert!(false),
    }
    kani::cover!(window == 0);
    kani::cover!(window == 1 && off == 0);
}

// ================================================================================================
// C15: small components: parse(write(c)) == c, consuming exactly count_bits() bits
// ================================================================================================

fn ideal_same(a: &Ideal, b: &Ideal) {
    assert!(a.len == b.len);
    let mut i = 0;
    while i < IDEAL_WORDS {
        assert!(a.w[i] == b.w[i]);
        i += 1;
    }
}

fn consumed_bits(total_bytes: usize, rest: BitInput<'_>) -> usize {
    (total_bytes - rest.0.len()) * 8 + rest.1
}

/// For EVERY constant subframe (any block size, any documented width 8..=25, any in-range value):
/// the parser applied to the written bits (followed by arbitrary padding bits) returns the same
/// component, consumes exactly `count_bits()` bits, and the result re-serialises to the same bits.
//@ unit props=C15,C08 tier=quick kind=complete timeout=600 funcs="parser::constant; Constant::write; Constant::count_bits"
#[kani::proof]
#[kani::unwind(9)]
fn c15_constant_roundtrip() {
    let bits: usize = kani::any();
    kani::assume(8 <= bits && bits <= 25);
    let v: i32 = kani::any();
    kani::assume(spec_fits(v as i64, bits));
    let bs: usize = kani::any();
    kani::assume(1 <= bs && bs <= 65535);
    let c = component::Constant::from_parts(bs, v, bits as u8);
    let mut s = SpecSink::new();
    assert!(c.write(&mut s).is_ok());
    assert!(s.id.len == c.count_bits() && s.id.len == 8 + bits);
    let pad: u8 = kani::any(); // the bits of the next subframe / the frame padding
    let mut id = s.id;
    id.push_lsbs(pad as u64, 7);
    let mut buf = [0u8; 5];
    let mut i = 0;
    while i < 5 {
        buf[i] = id.byte(i);
        i += 1;
    }
    let r = constant::<BitErr>(bs, bits)((&buf[..], 0));
    match r {
        Ok((rest, back)) => {
            assert!(consumed_bits(5, rest) == c.count_bits());
            assert!(back.dc_offset() == v && back.block_size() == bs);
            assert!(back.bits_per_sample() == bits);
            let mut s2 = SpecSink::new();
            assert!(back.write(&mut s2).is_ok());
            ideal_same(&s.id, &s2.id);
        }
        Err(_) => assert!(false),
    }
    kani::cover!(bits == 25 && v == -(1 << 24));
    kani::cover!(bits == 8 && v == 127);
}

/// The same for a verbatim subframe of 2 samples.
//@ unit props=C15,C08 tier=quick kind=bounded timeout=600 funcs="parser::verbatim; parser::raw_samples; Verbatim::write; Verbatim::count_bits" bound="block size 2; every width 8..=25, every in-range sample value"
#[kani::proof]
#[kani::unwind(11)]
fn c15_verbatim_roundtrip() {
    let bits: usize = kani::any();
    kani::assume(8 <= bits && bits <= 25);
    let v: [i32; 2] = kani::any();
    kani::assume(spec_fits(v[0] as i64, bits) && spec_fits(v[1] as i64, bits));
    let c = component::Verbatim::from_samples(&v, bits as u8);
    let mut s = SpecSink::new();
    assert!(c.write(&mut s).is_ok());
    assert!(s.id.len == c.count_bits() && s.id.len == 8 + 2 * bits);
    let mut buf = [0u8; 8];
    let mut i = 0;
    while i < 8 {
        buf[i] = s.id.byte(i);
        i += 1;
    }
    let r = verbatim::<BitErr>(2, bits)((&buf[..], 0));
    match r {
        Ok((rest, back)) => {
            assert!(consumed_bits(8, rest) == c.count_bits());
            assert!(back.samples().len() == 2);
            assert!(back.samples()[0] == v[0] && back.samples()[1] == v[1]);
            assert!(back.bits_per_sample() == bits);
            let mut s2 = SpecSink::new();
            assert!(back.write(&mut s2).is_ok());
            ideal_same(&s.id, &s2.id);
        }
        Err(_) => assert!(false),
    }
    kani::cover!(bits == 25 && v[1] == -(1 << 24));
}

/// Callee contracts for `encode_to_utf8like` / `utf8like_bytesize` on the 1-byte class (values
/// below 128): the closed-form RFC code with a CONCRETE length (bitrepr::verif::c02_utf8_len1
/// proves the real functions equal to it on this class; symbolic lengths are intractable).
fn contract_utf8_1byte(val: u64) -> Result<heapless::Vec<u8, 7>, crate::error::RangeError> {
    kani::assume(val < 128);
    let mut ret = heapless::Vec::new();
    ret.push(val as u8).unwrap();
    Ok(ret)
}
const fn contract_bytesize_1byte(_val: usize) -> usize {
    1
}

/// Frame header: parse(write(h)) == h, all 7 written bytes consumed (CRC-8 checked), for the shape
/// "fixed block size, 1-byte frame number, 8-bit block-size field, table sample rate".
//@ unit props=C15 tier=quick kind=bounded timeout=900 funcs="parser::frame_header; FrameHeader::write" stubs="encode_to_utf8like -> contract_utf8_1byte; utf8like_bytesize -> contract_bytesize_1byte (both proved by bitrepr::verif::c02_utf8_len1)" bound="shape: fixed blocking, frame number < 128, BlockSizeSpec::ExtraByte(any), SampleRateSpec::R44_1kHz, 2 independent channels; sample size 8/12/16/20/24"
#[kani::proof]
#[kani::unwind(10)]
#[kani::stub(std::fmt::format, stub_format)]
#[kani::stub(crate::component::bitrepr::encode_to_utf8like, contract_utf8_1byte)]
#[kani::stub(crate::component::bitrepr::utf8like_bytesize, contract_bytesize_1byte)]
fn c15_frame_header_roundtrip() {
    let x: u8 = kani::any();
    let num: u32 = kani::any();
    kani::assume(num < 128);
    let bits: u8 = kani::any();
    kani::assume(bits == 8 || bits == 12 || bits == 16 || bits == 20 || bits == 24);
    let sss = component::SampleSizeSpec::from_bits(bits).unwrap();
    let mut h = component::FrameHeader::from_specs(
        component::BlockSizeSpec::ExtraByte(x),
        component::ChannelAssignment::Independent(2),
        sss,
        component::SampleRateSpec::R44_1kHz,
    );
    h.set_frame_offset(component::FrameOffset::Frame(num));
    let mut s = SpecSink::new();
    assert!(h.write(&mut s).is_ok());
    assert!(s.id.len == 56 && h.count_bits() == 56);
    let mut buf = [0u8; 7];
    let mut i = 0;
    while i < 7 {
        buf[i] = s.id.byte(i);
        i += 1;
    }
    let r = frame_header::<ByteErr>(true)(&buf[..]);
    match r {
        Ok((rest, back)) => {
            assert!(rest.len() == 0);
            assert!(back.block_size_spec() == component::BlockSizeSpec::ExtraByte(x));
            assert!(*back.sample_rate_spec() == component::SampleRateSpec::R44_1kHz);
            assert!(*back.sample_size_spec() == sss);
            assert!(*back.channel_assignment() == component::ChannelAssignment::Independent(2));
            assert!(!back.is_variable_blocking() && back.frame_number() == num);
        }
        Err(_) => assert!(false),
    }
    kani::cover!(x == 255 && num == 127 && bits == 24);
}

// ================================================================================================
// NOT COVERED by Kani units (measured, see the agent report of 2026-09-29)
// ================================================================================================
// `residual`, and therefore `fixed_lpc`, `lpc`, `subframe`, `frame` and `stream`, on arbitrary bytes:
//   * CBMC does not constant-propagate through nom's closure/tuple plumbing: EVERY `bit_take` loop
//     is unwound to the harness bound (~0.3 s of symex per iteration), nothing is pruned, so the
//     cost is the PRODUCT of the nested loop bounds (partitions x samples x unary x take);
//   * `residual` allocates `Vec::with_capacity(1 << partition_order)` with a symbolic order
//     (README pitfall 1) and does 64-bit `/` and `*` on symbolic sizes: 1 input byte / unwind 3
//     already gives 2.1 M variables (90 s); 2 input bytes / unwind 4 runs out of memory, even with
//     `unary_code`, `find_max`, `wrapping_sum` replaced by contracts;
//   * functions returning `impl FnMut` (`frame_header`, `subframe`, `residual`, ..) cannot be
//     stubbed ("Expected return type {closure@..}"), so `frame` cannot be verified modulo callee
//     contracts either; `unary_code` on 2 bytes (unwind 19) exceeds 300 s.
// The panics behind these parsers (LPC order 25..=32, STREAMINFO 25 bits + side channel, 8-bit
// block-size field 255 reached from `frame`) were confirmed by concrete execution instead; the
// patch /verif/attic/patches/c16_parser_no_panic.patch turns them into nom errors.
