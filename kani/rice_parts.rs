// Harnesses for src/rice.rs (child module `rice::verif_parts`): the helpers between the cost tables
// and the order search - `eval_partitions` and the thread-local wrapper - which the Verus unit
// prc_find takes as callee contracts.

static mut MIN_CALLS: usize = 0;
static mut MIN_P: [usize; 4] = [0; 4];
static mut MIN_BITS: [usize; 4] = [0; 4];
static mut MIN_MAXP: [usize; 4] = [0; 4];
static mut MIN_TAG: [u32; 4] = [0; 4];

/// contract of `PrcBitTable::minimizer` (proved by c13_minimizer_argmin): SOME (parameter, cost)
/// pair with parameter <= max_p, recorded per call together with the table it was asked about.
fn contract_minimizer(t: &PrcBitTable, max_p: usize) -> (usize, usize) {
    let p: usize = kani::any();
    let bits: usize = kani::any();
    kani::assume(p <= max_p && bits < (1usize << 28));
    unsafe {
        let k = MIN_CALLS;
        if k < 4 {
            MIN_P[k] = p;
            MIN_BITS[k] = bits;
            MIN_MAXP[k] = max_p;
            MIN_TAG[k] = t.p_to_bits[0];
        }
        MIN_CALLS = k + 1;
    }
    (p, bits)
}

fn tagged_table(tag: u32) -> PrcBitTable {
    let mut a = [0u32; 16];
    a[0] = tag;
    PrcBitTable {
        p_to_bits: simd::u32x16::from_array(a),
    }
}

/// `eval_partitions(tables, ps, max_p)`: every table is asked exactly once, in order, with the
/// caller's `max_p`; `ps[i]` receives table i's minimiser; the result is the sum of the minima
/// (what happens to entries of `ps` beyond the tables is not part of the contract).
//@ unit props=C13 tier=quick kind=bounded timeout=600 funcs="rice::eval_partitions" stubs="PrcBitTable::minimizer -> some (parameter <= max_p, cost), recorded (c13_minimizer_argmin)" bound="0..=3 tables, 4 parameter slots (the loop body is the same for every table)"
#[kani::proof]
#[kani::unwind(6)]
#[kani::stub(PrcBitTable::minimizer, contract_minimizer)]
fn c13_eval_partitions() {
    let n: usize = kani::any();
    kani::assume(n <= 3);
    let max_p: usize = kani::any();
    kani::assume(max_p <= 14);
    let all = [tagged_table(10), tagged_table(11), tagged_table(12)];
    let stale: [usize; 4] = kani::any();
    let mut ps = [stale[0], stale[1], stale[2], stale[3]];
    unsafe {
        MIN_CALLS = 0;
    }
    let sum = eval_partitions(&all[0..n], &mut ps, max_p);
    let (calls, p, bits, mp, tag) = unsafe { (MIN_CALLS, MIN_P, MIN_BITS, MIN_MAXP, MIN_TAG) };
    assert!(calls == n);
    let mut want = 0usize;
    let mut i = 0;
    while i < 4 {
        if i < n {
            assert!(tag[i] == 10 + i as u32);
            assert!(mp[i] == max_p);
            assert!(ps[i] == p[i]);
            want += bits[i];
        }
        i += 1;
    }
    assert!(sum == want);
    kani::cover!(n == 0);
    kani::cover!(n == 3 && sum > 0);
}

static mut FIND_ARGS: (usize, usize, usize, i32) = (0, 0, 0, 0);

fn contract_finder_find(
    _this: &mut PrcParameterFinder,
    signal: &[i32],
    warmup_length: usize,
    max_p: usize,
) -> PrcParameter {
    unsafe {
        FIND_ARGS = (signal.len(), warmup_length, max_p, if signal.is_empty() { 0 } else { signal[0] });
    }
    let order: usize = kani::any();
    let bits: usize = kani::any();
    PrcParameter::new(order, vec![7u8], bits)
}

/// `find_partitioned_rice_parameter(signal, warm-up, max_p)` is `PrcParameterFinder::find` with
/// exactly these arguments on the thread's finder; its result is returned unchanged.
//@ unit props=C13 tier=quick kind=complete timeout=300 funcs="rice::find_partitioned_rice_parameter" stubs="PrcParameterFinder::find -> some parameter set, recording its arguments (Verus prc_find)"
#[kani::proof]
#[kani::unwind(4)]
#[kani::stub(PrcParameterFinder::find, contract_finder_find)]
fn c13_find_wrapper() {
    let s: [i32; 2] = kani::any();
    let w: usize = kani::any();
    let mp: usize = kani::any();
    let r = find_partitioned_rice_parameter(&s, w, mp);
    let a = unsafe { FIND_ARGS };
    assert!(a.0 == 2 && a.1 == w && a.2 == mp && a.3 == s[0]);
    assert!(r.ps.len() == 1 && r.ps[0] == 7);
    kani::cover!(r.order == 3 && r.code_bits == 99);
}
