//@ unit props=C15,C16 tier=quick kind=unbounded timeout=120 funcs="parser::unary_code" stubs="nom::multi::many0_count(tag(0, 1)) -> the number of leading zero bits, consumed; nom::bits::streaming::tag(1, 1) -> consumes one set bit or fails (A-nom)" note="the two curried nom calls `p(args)(input)` are spelled as calls of the contract functions; the body is otherwise the text of /repo"
// C15 / C16: the unary recogniser is exactly "q zero bits, then a one": the callee contract that units
// parser_residual and parser_residual_inverse assume of `parser::unary_code`, derived here from the
// meaning of the two nom combinators it is made of.  (Any rewrite of this function - e.g. a word-wise
// scan - no longer matches the extraction and is reported as undecided, not as a pass; the Kani unit
// c15_unary_code_one_byte runs the compiled function on one byte.)
use vstd::prelude::*;
verus! {

pub open spec fn zeros(n: nat) -> Seq<bool> {
    Seq::new(n, |i: int| false)
}

#[derive(Clone, Copy)]
pub struct BitInput<'a> {
    pub bytes: &'a [u8],
    pub offset: usize,
}

pub uninterp spec fn bits_of(i: BitInput) -> Seq<bool>;

pub struct NomErr {
    pub dummy: u8,
}

/// `nom::multi::many0_count(bit_tag(0, 1usize))`: consumes the maximal run of zero bits and returns its
/// length (never fails; stops at a one or at the end of the input)
#[verifier::external_body]
pub fn many0_count_zero_bits<'a>(input: BitInput<'a>) -> (r: Result<(BitInput<'a>, usize), NomErr>)
    ensures
        r is Ok ==> bits_of(input) == zeros(r->Ok_0.1 as nat) + bits_of(r->Ok_0.0),
{
    unimplemented!()
}

/// `bit_tag(1, 1usize)`: consumes one bit if it is set
#[verifier::external_body]
pub fn bit_tag_one<'a>(input: BitInput<'a>) -> (r: Result<(BitInput<'a>, u8), NomErr>)
    ensures
        r is Ok ==> bits_of(input) == seq![true] + bits_of(r->Ok_0.0),
{
    unimplemented!()
}

//@extract file=src/component/parser.rs fn="fn unary_code"
//@subst `fn unary_code<'a, E>(input: BitInput<'a>) -> IResult<BitInput<'a>, usize, E>\nwhere\n    E: ParseError<BitInput<'a>>,\n{` => `fn unary_code<'a>(input: BitInput<'a>) -> (res: Result<(BitInput<'a>, usize), NomErr>)\n{`
//@subst `nom::multi::many0_count(bit_tag(0, 1usize))(remaining_input)?` => `many0_count_zero_bits(remaining_input)?`
//@subst `bit_tag(1, 1usize)(remaining_input)?` => `bit_tag_one(remaining_input)?`
//@sig
//|     ensures
//|         res is Ok ==> bits_of(input) == zeros(res->Ok_0.1 as nat) + seq![true] + bits_of(res->Ok_0.0),
//@end

} // verus!
fn main() {}
