//@ unit props=C02,C08,C10,C12,C18 tier=quick kind=unbounded timeout=240 funcs="<FrameHeader as BitRepr>::write; <FrameHeader as BitRepr>::count_bits" stubs="BitSink / ByteSink operations -> ideal bit string contracts [C11 Kani units]; encode_to_utf8like / utf8like_bytesize -> the RFC coded number and its byte count [Kani c02_utf8_len1..7, complete]; BlockSizeSpec / SampleRateSpec::{tag, write_extra_bits, count_extra_bits} -> RFC codes [Kani c02_block_size_code_all, c02_sample_rate_code_all, complete]; SampleSizeSpec::into_tag [c02_sample_size_code_all]; ChannelAssignment::write -> its 4-bit code [c02_channel_assignment_write]; HEADER_CRC.checksum -> crc8 [c02_crc8_matches_rfc]" note="`reuse!(HEADER_CRC_BUFFER, |header_buffer| BODY)` is inlined with the scratch sink as an extra &mut parameter holding ARBITRARY contents (also proves independence of the scratch sink's history: C10, and of an earlier failed call: C12); `&v` (heapless::Vec deref) spelled `v.as_slice()`"
// Frame header assembly for EVERY header shape (any coded-number length, any block-size / sample-rate
// extra field, any channel assignment), against an ABSTRACT fallible caller sink:
//   C02  header = 1111111111111000|v ++ bs:4 ++ sr:4 ++ channel:4 ++ ss:3 ++ 0 ++ coded number ++
//        block-size extra ++ sample-rate extra ++ CRC-8 of all these bytes     (RFC 9639 9.1);
//   C08  count_bits() == number of bits written;
//   C10  whatever the scratch sink held before (another header, a header whose write failed);
//   C12  a sink error is returned as Err, and what the sink accepted is a prefix of the right bits.
use vstd::prelude::*;
verus! {

global size_of usize == 8;

pub assume_specification[ <u16 as core::convert::From<bool>>::from ](b: bool) -> (r: u16)
    ensures
        r == (if b { 1u16 } else { 0u16 }),
;

pub open spec fn zeros(n: nat) -> Seq<bool> {
    Seq::new(n, |i: int| false)
}

pub open spec fn pad8(len: nat) -> nat {
    ((8 - len % 8) % 8) as nat
}

pub open spec fn is_prefix(a: Seq<bool>, b: Seq<bool>) -> bool {
    a.len() <= b.len() && b.subrange(0, a.len() as int) == a
}

pub proof fn lemma_prefix_refl(a: Seq<bool>)
    ensures
        is_prefix(a, a),
{
    assert(a.subrange(0, a.len() as int) =~= a);
}

pub proof fn lemma_prefix_append(a: Seq<bool>, b: Seq<bool>)
    ensures
        is_prefix(a, a + b),
{
    assert((a + b).subrange(0, a.len() as int) =~= a);
}

pub proof fn lemma_prefix_trans(a: Seq<bool>, b: Seq<bool>, c: Seq<bool>)
    requires
        is_prefix(a, b),
        is_prefix(b, c),
    ensures
        is_prefix(a, c),
{
    assert(c.subrange(0, a.len() as int) =~= c.subrange(0, b.len() as int).subrange(0, a.len() as int));
}

/// the `n` low bits of v, MSB first
pub uninterp spec fn lsbs_bits(v: int, n: nat) -> Seq<bool>;
/// MSB-first bits of a byte string / big-endian bytes of a byte-aligned bit string
pub uninterp spec fn bytes_bits(b: Seq<u8>) -> Seq<bool>;
pub uninterp spec fn bits_bytes(b: Seq<bool>) -> Seq<u8>;
pub uninterp spec fn crc8(b: Seq<u8>) -> u8;

#[verifier::external_body]
pub proof fn axiom_lens(v: int, n: nat, b: Seq<u8>)
    ensures
        lsbs_bits(v, n).len() == n,
        bytes_bits(b).len() == 8 * b.len(),
{
}

#[verifier::external_body]
pub proof fn axiom_bits_bytes_roundtrip(b: Seq<bool>)
    requires
        b.len() % 8 == 0,
    ensures
        bytes_bits(bits_bytes(b)) == b,
        bits_bytes(b).len() * 8 == b.len(),
{
}

pub struct RangeError {
    pub dummy: u8,
}

#[derive(Debug)]
pub struct Infallible {
    pub never: u8,
}

pub enum OutputError<S: BitSink> {
    Range(RangeError),
    Sink(S::Error),
}

impl<S: BitSink> OutputError<S> {
    pub fn from_sink(e: S::Error) -> (r: Self)
        ensures
            r is Sink,
    {
        OutputError::Sink(e)
    }

    #[verifier::external_body]
    pub fn ignore_sink_error(err: OutputError<ByteSink>) -> (r: Self)
        ensures
            r is Range,
    {
        unimplemented!()
    }
}

impl<S: BitSink> From<RangeError> for OutputError<S> {
    #[verifier::external_body]
    fn from(e: RangeError) -> (r: Self) {
        OutputError::Range(e)
    }
}

pub trait UBits: Copy {
    spec fn as_int(self) -> int;
}

impl UBits for u8 {
    open spec fn as_int(self) -> int {
        self as int
    }
}

impl UBits for u16 {
    open spec fn as_int(self) -> int {
        self as int
    }
}

/// the caller's sink: append-only, exact on Ok, a prefix on Err (C11)
pub trait BitSink: Sized {
    type Error: std::fmt::Debug;

    spec fn bits(&self) -> Seq<bool>;

    fn write_bytes_aligned(&mut self, bytes: &[u8]) -> (r: Result<usize, Self::Error>)
        ensures
            is_prefix(old(self).bits(), final(self).bits()),
            r is Ok ==> final(self).bits() == old(self).bits() + zeros(pad8(old(self).bits().len())) + bytes_bits(bytes@),
            is_prefix(final(self).bits(), old(self).bits() + zeros(pad8(old(self).bits().len())) + bytes_bits(bytes@)),
    ;

    /// `write::<u8>`
    fn write(&mut self, val: u8) -> (r: Result<(), Self::Error>)
        ensures
            is_prefix(old(self).bits(), final(self).bits()),
            r is Ok ==> final(self).bits() == old(self).bits() + lsbs_bits(val as int, 8),
            is_prefix(final(self).bits(), old(self).bits() + lsbs_bits(val as int, 8)),
    ;
}

/// `ByteSink` = `MemSink<u8>`: the crate's own infallible byte sink (the header scratch sink)
pub struct ByteSink {
    pub ghost_bits: Ghost<Seq<bool>>,
}

impl BitSink for ByteSink {
    type Error = Infallible;

    open spec fn bits(&self) -> Seq<bool> {
        self.ghost_bits@
    }

    #[verifier::external_body]
    fn write_bytes_aligned(&mut self, bytes: &[u8]) -> (r: Result<usize, Infallible>)
        ensures
            r is Ok,
    {
        unimplemented!()
    }

    #[verifier::external_body]
    fn write(&mut self, val: u8) -> (r: Result<(), Infallible>)
        ensures
            r is Ok,
    {
        unimplemented!()
    }
}

impl ByteSink {
    #[verifier::external_body]
    pub fn clear(&mut self)
        ensures
            final(self).bits().len() == 0,
    {
        unimplemented!()
    }

    #[verifier::external_body]
    pub fn reserve(&mut self, additional_in_bits: usize)
        ensures
            final(self).bits() == old(self).bits(),
    {
        unimplemented!()
    }

    #[verifier::external_body]
    pub fn write_lsbs<T: UBits>(&mut self, val: T, n: usize) -> (r: Result<(), Infallible>)
        requires
            n <= 16,
        ensures
            r is Ok,
            final(self).bits() == old(self).bits() + lsbs_bits(val.as_int(), n as nat),
    {
        unimplemented!()
    }

    /// C11 unit s8_with_capacity_into_inner / s8_*: the storage of a byte-aligned sink is its bytes
    #[verifier::external_body]
    pub fn as_slice(&self) -> (r: &[u8])
        ensures
            self.bits().len() % 8 == 0 ==> r@ == bits_bytes(self.bits()),
    {
        unimplemented!()
    }
}

pub struct HeaplessBytes {
    pub data: Vec<u8>,
}

impl HeaplessBytes {
    pub fn as_slice(&self) -> (r: &[u8])
        ensures
            r@ == self.data@,
    {
        self.data.as_slice()
    }
}

/// the RFC 9639 9.1.5 coded number (Kani units c02_utf8_len1..7: canonical, shortest, 1..=7 bytes)
pub uninterp spec fn utf8_code(v: u64) -> Seq<u8>;

#[verifier::external_body]
pub fn encode_to_utf8like(val: u64) -> (r: Result<HeaplessBytes, RangeError>)
    ensures
        val < 0x10_0000_0000 ==> r is Ok,
        r is Ok ==> r->Ok_0.data@ == utf8_code(val) && 1 <= utf8_code(val).len() <= 7,
{
    unimplemented!()
}

#[verifier::external_body]
pub fn utf8like_bytesize(val: usize) -> (r: usize)
    ensures
        val < 0x10_0000_0000 ==> r == utf8_code(val as u64).len(),
        1 <= r <= 7,
{
    unimplemented!()
}

#[derive(Clone, Copy)]
pub struct BlockSizeSpec {
    pub code: u8,
}

#[derive(Clone, Copy)]
pub struct SampleRateSpec {
    pub code: u8,
}

#[derive(Clone, Copy)]
pub struct SampleSizeSpec {
    pub code: u8,
}

pub struct ChannelAssignment {
    pub code: u8,
}

impl BlockSizeSpec {
    pub uninterp spec fn spec_tag(&self) -> u8;
    pub uninterp spec fn spec_extra(&self) -> Seq<bool>;

    #[verifier::external_body]
    pub fn tag(self) -> (r: u8)
        ensures
            r == self.spec_tag(),
            1 <= r <= 15,
    {
        unimplemented!()
    }

    #[verifier::external_body]
    pub fn count_extra_bits(self) -> (r: usize)
        ensures
            r == self.spec_extra().len(),
            r == 0 || r == 8 || r == 16,
    {
        unimplemented!()
    }

    #[verifier::external_body]
    pub fn write_extra_bits(self, dest: &mut ByteSink) -> (r: Result<(), Infallible>)
        ensures
            r is Ok,
            final(dest).bits() == old(dest).bits() + self.spec_extra(),
            self.spec_extra().len() == 0 || self.spec_extra().len() == 8 || self.spec_extra().len() == 16,
    {
        unimplemented!()
    }
}

impl SampleRateSpec {
    pub uninterp spec fn spec_tag(&self) -> u8;
    pub uninterp spec fn spec_extra(&self) -> Seq<bool>;

    #[verifier::external_body]
    pub fn tag(self) -> (r: u8)
        ensures
            r == self.spec_tag(),
            r <= 14,
    {
        unimplemented!()
    }

    #[verifier::external_body]
    pub fn count_extra_bits(self) -> (r: usize)
        ensures
            r == self.spec_extra().len(),
            r == 0 || r == 8 || r == 16,
    {
        unimplemented!()
    }

    #[verifier::external_body]
    pub fn write_extra_bits(self, dest: &mut ByteSink) -> (r: Result<(), Infallible>)
        ensures
            r is Ok,
            final(dest).bits() == old(dest).bits() + self.spec_extra(),
            self.spec_extra().len() == 0 || self.spec_extra().len() == 8 || self.spec_extra().len() == 16,
    {
        unimplemented!()
    }
}

impl SampleSizeSpec {
    pub uninterp spec fn spec_tag(&self) -> u8;

    #[verifier::external_body]
    pub fn into_tag(self) -> (r: u8)
        ensures
            r == self.spec_tag(),
            r <= 7,
    {
        unimplemented!()
    }
}

impl ChannelAssignment {
    pub uninterp spec fn spec_code(&self) -> int;

    /// callee contract (Kani c02_channel_assignment_write): four bits, or a range error (more than 8
    /// independent channels) that leaves the sink untouched
    #[verifier::external_body]
    pub fn write(&self, dest: &mut ByteSink) -> (r: Result<(), OutputError<ByteSink>>)
        ensures
            r is Ok ==> final(dest).bits() == old(dest).bits() + lsbs_bits(self.spec_code(), 4),
            r is Err ==> r->Err_0 is Range,
    {
        unimplemented!()
    }
}

pub struct HeaderCrc {
    pub dummy: u8,
}

impl HeaderCrc {
    #[verifier::external_body]
    pub fn checksum(&self, bytes: &[u8]) -> (r: u8)
        ensures
            r == crc8(bytes@),
    {
        unimplemented!()
    }
}

pub struct FrameHeader {
    pub variable_block_size: bool,
    pub block_size_spec: BlockSizeSpec,
    pub channel_assignment: ChannelAssignment,
    pub sample_size_spec: SampleSizeSpec,
    pub sample_rate_spec: SampleRateSpec,
    pub number: u64,
}

/// header bytes before the CRC (RFC 9639 9.1.1 - 9.1.7)
pub open spec fn header_body_bits(h: &FrameHeader) -> Seq<bool> {
    lsbs_bits(0xFFF8 + (if h.variable_block_size { 1int } else { 0int }), 16) + lsbs_bits(
        (((h.block_size_spec.spec_tag() << 4) | h.sample_rate_spec.spec_tag()) as int),
        8,
    ) + lsbs_bits(h.channel_assignment.spec_code(), 4) + lsbs_bits((h.sample_size_spec.spec_tag() << 1) as int, 4)
        + bytes_bits(utf8_code(h.number)) + h.block_size_spec.spec_extra() + h.sample_rate_spec.spec_extra()
}

pub open spec fn header_bits(h: &FrameHeader) -> Seq<bool> {
    header_body_bits(h) + lsbs_bits(crc8(bits_bytes(header_body_bits(h))) as int, 8)
}

impl FrameHeader {
    pub open spec fn well_formed(&self) -> bool {
        &&& self.number < 0x10_0000_0000
        &&& (!self.variable_block_size ==> self.number < 0x8000_0000)
    }

    pub fn is_variable_blocking(&self) -> (r: bool)
        ensures
            r == self.variable_block_size,
    {
        self.variable_block_size
    }

    pub fn block_size_spec(&self) -> (r: BlockSizeSpec)
        ensures
            r == self.block_size_spec,
    {
        self.block_size_spec
    }

    pub fn sample_rate_spec(&self) -> (r: &SampleRateSpec)
        ensures
            *r == self.sample_rate_spec,
    {
        &self.sample_rate_spec
    }

    pub fn sample_size_spec(&self) -> (r: &SampleSizeSpec)
        ensures
            *r == self.sample_size_spec,
    {
        &self.sample_size_spec
    }

    pub fn channel_assignment(&self) -> (r: &ChannelAssignment)
        ensures
            *r == self.channel_assignment,
    {
        &self.channel_assignment
    }

    /// FrameOffset::StartSample(n)
    pub fn start_sample_number(&self) -> (r: u64)
        requires
            self.variable_block_size,
        ensures
            r == self.number,
    {
        self.number
    }

    /// FrameOffset::Frame(n)
    pub fn frame_number(&self) -> (r: u32)
        requires
            !self.variable_block_size,
            self.number < 0x8000_0000,
        ensures
            r as u64 == self.number,
    {
        self.number as u32
    }

//@extract file=src/component/bitrepr.rs impl="impl BitRepr for FrameHeader {" fn="fn count_bits"
//@subst `fn count_bits(&self) -> usize {` => `fn count_bits(&self) -> (ret_bits: usize) {`
//@sig
//|     requires
//|         self.well_formed(),
//|     ensures
//|         ret_bits == header_bits(self).len(),
//@before `let mut ret = 40;`
//|     proof {
//|         lemma_header_len(self);
//|     }
//@end

//@extract file=src/component/bitrepr.rs impl="impl BitRepr for FrameHeader {" fn="fn write"
//@subst `fn write<S: BitSink>(&self, dest: &mut S) -> Result<(), OutputError<S>> {` => `fn write<S: BitSink>(&self, dest: &mut S, header_buffer: &mut ByteSink, HEADER_CRC: &HeaderCrc) -> (res: Result<(), OutputError<S>>) {`
//@subst `    reuse!(HEADER_CRC_BUFFER, |header_buffer: &mut ByteSink| {\n` => `    {\n`
//@subst `\n    })\n` => `\n    }\n`
//@subst `header_buffer.write_bytes_aligned(&v).unwrap();` => `header_buffer.write_bytes_aligned(v.as_slice()).unwrap();` x2
//@sig
//|     requires
//|         self.well_formed(),
//|     ensures
//|         is_prefix(old(dest).bits(), final(dest).bits()),
//|         is_prefix(final(dest).bits(), old(dest).bits() + zeros(pad8(old(dest).bits().len())) + header_bits(self)),
//|         res is Ok ==> final(dest).bits() == old(dest).bits() + zeros(pad8(old(dest).bits().len())) + header_bits(self),
//@bodystart
//|         let ghost d0 = dest.bits();
//|         let ghost padded = d0 + zeros(pad8(d0.len()));
//|         proof {
//|             lemma_prefix_refl(d0);
//|             lemma_prefix_append(d0, zeros(pad8(d0.len())));
//|             lemma_prefix_append(padded, header_bits(self));
//|             lemma_prefix_trans(d0, padded, padded + header_bits(self));
//|             lemma_header_len(self);
//|         }
//@before `if self.is_variable_blocking() {`
//|         let ghost b4 = header_buffer.bits();
//|         proof {
//|             let w0 = lsbs_bits(0xFFF8 + (if self.variable_block_size { 1int } else { 0int }), 16);
//|             let w1 = lsbs_bits((((self.block_size_spec.spec_tag() << 4) | self.sample_rate_spec.spec_tag()) as int), 8);
//|             let w2 = lsbs_bits(self.channel_assignment.spec_code(), 4);
//|             let w3 = lsbs_bits((self.sample_size_spec.spec_tag() << 1) as int, 4);
//|             axiom_lens(0xFFF8 + (if self.variable_block_size { 1int } else { 0int }), 16, utf8_code(self.number));
//|             axiom_lens((((self.block_size_spec.spec_tag() << 4) | self.sample_rate_spec.spec_tag()) as int), 8, utf8_code(self.number));
//|             axiom_lens(self.channel_assignment.spec_code(), 4, utf8_code(self.number));
//|             axiom_lens((self.sample_size_spec.spec_tag() << 1) as int, 4, utf8_code(self.number));
//|             assert(b4 =~= w0 + w1 + w2 + w3);
//|             assert(b4.len() == 32);
//|             assert(pad8(32) == 0);
//|             assert(zeros(0) =~= Seq::<bool>::empty());
//|         }
//@before `self.block_size_spec()\n`
//|         proof {
//|             assert(header_buffer.bits() =~= b4 + bytes_bits(utf8_code(self.number)));
//|         }
//@before `dest.write_bytes_aligned(header_buffer.as_slice())`
//|             let ghost hb = header_body_bits(self);
//|             let ghost crcbits = lsbs_bits(crc8(bits_bytes(hb)) as int, 8);
//|             proof {
//|                 assert(pad8(32) == 0);
//|                 assert(header_buffer.bits() =~= hb);
//|                 axiom_bits_bytes_roundtrip(hb);
//|                 lemma_prefix_append(padded + hb, crcbits);
//|                 assert((padded + hb) + crcbits =~= padded + header_bits(self));
//|                 assert forall|x: Seq<bool>| is_prefix(x, padded + hb) implies is_prefix(x, padded + header_bits(self)) by {
//|                     lemma_prefix_trans(x, padded + hb, (padded + hb) + crcbits);
//|                 }
//|             }
//@before `dest.write(HEADER_CRC.checksum(header_buffer.as_slice()))`
//|             proof {
//|                 assert(dest.bits() == padded + hb);
//|                 lemma_prefix_append(d0, zeros(pad8(d0.len())) + hb);
//|                 assert(d0 + (zeros(pad8(d0.len())) + hb) =~= padded + hb);
//|                 assert forall|x: Seq<bool>| is_prefix(padded + hb, x) implies is_prefix(d0, x) by {
//|                     lemma_prefix_trans(d0, padded + hb, x);
//|                 }
//|                 lemma_prefix_refl(padded + header_bits(self));
//|             }
//@end

}

/// the header is a whole number of bytes: 32 + 8 * |number| + extras
pub proof fn lemma_header_len(h: &FrameHeader)
    requires
        h.well_formed(),
    ensures
        header_body_bits(h).len() == 32 + 8 * utf8_code(h.number).len() + h.block_size_spec.spec_extra().len()
            + h.sample_rate_spec.spec_extra().len(),
        header_bits(h).len() == header_body_bits(h).len() + 8,
{
    axiom_lens(0xFFF8 + (if h.variable_block_size { 1int } else { 0int }), 16, utf8_code(h.number));
    axiom_lens((((h.block_size_spec.spec_tag() << 4) | h.sample_rate_spec.spec_tag()) as int), 8, utf8_code(h.number));
    axiom_lens(h.channel_assignment.spec_code(), 4, utf8_code(h.number));
    axiom_lens((h.sample_size_spec.spec_tag() << 1) as int, 4, utf8_code(h.number));
    axiom_lens(crc8(bits_bytes(header_body_bits(h))) as int, 8, utf8_code(h.number));
}

} // verus!
fn main() {}
