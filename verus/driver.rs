//@ unit props=C02,C03,C04,C17 tier=quick kind=unbounded timeout=180 funcs="coding::encode_with_fixed_block_size (single-thread path)" stubs="Source::read_samples -> delivers min(block, remaining) samples into both the frame buffer and the context [MemSource: Kani unit source::verif::c03_memsource_read; foreign sources: trait documentation, assumption A-src]; encode_fixed_size_frame -> Ok frame with the given number and the filled block size [Kani unit coding::verif::c17_frame_number_and_sample_range]; Stream::add_frame / StreamInfo::update_frame_info -> min/max/total step [Kani unit datatype::verif::c04_update_frame_info]; StreamInfo::set_block_sizes, set_md5_digest, set_total_samples, Stream::new, FrameBuf::with_size, Context::new/md5_digest/total_samples/current_frame_number [Kani/Verus units named in DESIGN.md 6 C03]" note="closure passed to unwrap_or_else gets an `ensures` annotation (ghost); the #[cfg(feature = \"par\")] dispatch block is dropped (single-thread path only)"
// The single-thread stream driver, for ANY number of frames (loop invariant over a ghost frame
// list; termination by the source's remaining length):
//   C02  frame i carries number i; every frame except the last holds exactly `block_size` samples;
//   C03  STREAMINFO total_samples == inter-channel samples consumed (or the source's hint),
//        md5 == digest of the context that saw every delivered sample, format copied from source;
//   C04  max_block_size == block_size; 16 <= min_block_size <= size of every non-final frame;
//        min/max frame size == min/max over the emitted frames.
use vstd::prelude::*;
verus! {

// ---- ghost model of the environment ------------------------------------------------------------
#[derive(Debug)]
pub struct VerifyError { pub dummy: u8 }
#[derive(Debug)]
pub struct SourceError { pub dummy: u8 }
pub enum EncodeError {
    Source(SourceError),
    Config(VerifyError),
}
impl From<SourceError> for EncodeError {
    #[verifier::external_body]
    fn from(e: SourceError) -> (r: Self) { EncodeError::Source(e) }
}
impl From<VerifyError> for EncodeError {
    #[verifier::external_body]
    fn from(e: VerifyError) -> (r: Self) { EncodeError::Config(e) }
}

pub struct Encoder { pub multithread: bool }
pub struct Verified<T> { pub v: T }

/// what the driver can observe of one encoded frame
pub struct Frame {
    pub number: usize,
    pub block_size: usize,
    pub bytes: usize,
}

pub struct StreamInfo {
    pub min_block_size: usize,
    pub max_block_size: usize,
    pub min_frame_size: usize,
    pub max_frame_size: usize,
    pub sample_rate: usize,
    pub channels: usize,
    pub bits_per_sample: usize,
    pub total_samples: usize,
    pub md5: Seq<u8>,
}

pub struct Stream {
    pub info: StreamInfo,
    pub frames: Ghost<Seq<Frame>>,
}

pub open spec fn min_nat(a: int, b: int) -> int { if a <= b { a } else { b } }
pub open spec fn max_nat(a: int, b: int) -> int { if a >= b { a } else { b } }

impl StreamInfo {
    #[verifier::external_body]
    pub fn set_block_sizes(&mut self, min_value: usize, max_value: usize) -> (r: Result<(), VerifyError>)
        ensures
            (min_value <= max_value <= 32767) ==> r is Ok,
            r is Ok ==> final(self).min_block_size == min_value && final(self).max_block_size == max_value,
            final(self).min_frame_size == old(self).min_frame_size,
            final(self).max_frame_size == old(self).max_frame_size,
            final(self).sample_rate == old(self).sample_rate,
            final(self).channels == old(self).channels,
            final(self).bits_per_sample == old(self).bits_per_sample,
            final(self).total_samples == old(self).total_samples,
            final(self).md5 == old(self).md5,
    { unimplemented!() }

    #[verifier::external_body]
    pub fn set_md5_digest(&mut self, digest: &[u8; 16])
        ensures
            final(self).md5 == digest@,
            final(self).min_block_size == old(self).min_block_size,
            final(self).max_block_size == old(self).max_block_size,
            final(self).min_frame_size == old(self).min_frame_size,
            final(self).max_frame_size == old(self).max_frame_size,
            final(self).sample_rate == old(self).sample_rate,
            final(self).channels == old(self).channels,
            final(self).bits_per_sample == old(self).bits_per_sample,
            final(self).total_samples == old(self).total_samples,
    { unimplemented!() }

    #[verifier::external_body]
    pub fn set_total_samples(&mut self, n: usize)
        ensures
            final(self).total_samples == n,
            final(self).md5 == old(self).md5,
            final(self).min_block_size == old(self).min_block_size,
            final(self).max_block_size == old(self).max_block_size,
            final(self).min_frame_size == old(self).min_frame_size,
            final(self).max_frame_size == old(self).max_frame_size,
            final(self).sample_rate == old(self).sample_rate,
            final(self).channels == old(self).channels,
            final(self).bits_per_sample == old(self).bits_per_sample,
    { unimplemented!() }
}

impl Stream {
    #[verifier::external_body]
    pub fn new(sample_rate: usize, channels: usize, bits_per_sample: usize) -> (r: Result<Self, VerifyError>)
        ensures
            r is Ok ==> {
                &&& r->Ok_0.frames@.len() == 0
                &&& r->Ok_0.info.sample_rate == sample_rate
                &&& r->Ok_0.info.channels == channels
                &&& r->Ok_0.info.bits_per_sample == bits_per_sample
                &&& 1 <= channels <= 8
                // C17: the only place where the declared width and rate are validated (Kani c17_stream_info_new)
                &&& 8 <= bits_per_sample <= 25
                &&& sample_rate <= 96_000
                &&& r->Ok_0.info.min_frame_size == u32::MAX
                &&& r->Ok_0.info.max_frame_size == 0
                &&& r->Ok_0.info.total_samples == 0
            },
    { unimplemented!() }

    #[verifier::external_body]
    pub fn stream_info(&self) -> (r: &StreamInfo)
        ensures *r == self.info,
    { unimplemented!() }

    #[verifier::external_body]
    pub fn stream_info_mut(&mut self) -> (r: &mut StreamInfo)
        ensures
            *r == old(self).info,
            final(self).info == *final(r),
            final(self).frames == old(self).frames,
    { unimplemented!() }

    /// `Stream::add_frame` = `StreamInfo::update_frame_info` + push
    #[verifier::external_body]
    pub fn add_frame(&mut self, frame: Frame)
        requires
            frame.block_size <= 65535,
        ensures
            final(self).frames@ == old(self).frames@.push(frame),
            final(self).info.min_block_size == min_nat(old(self).info.min_block_size as int, frame.block_size as int),
            final(self).info.max_block_size == max_nat(old(self).info.max_block_size as int, frame.block_size as int),
            final(self).info.min_frame_size == min_nat(old(self).info.min_frame_size as int, frame.bytes as int),
            final(self).info.max_frame_size == max_nat(old(self).info.max_frame_size as int, frame.bytes as int),
            final(self).info.sample_rate == old(self).info.sample_rate,
            final(self).info.channels == old(self).info.channels,
            final(self).info.bits_per_sample == old(self).info.bits_per_sample,
            final(self).info.md5 == old(self).info.md5,
    { unimplemented!() }
}

pub struct FrameBuf {
    pub size: usize,
    pub filled: usize,
}
impl FrameBuf {
    #[verifier::external_body]
    pub fn with_size(channels: usize, size: usize) -> (r: Result<Self, VerifyError>)
        ensures
            r is Ok <==> (1 <= channels <= 8 && 32 <= size <= 32767),
            r is Ok ==> r->Ok_0.size == size && r->Ok_0.filled == 0,
    { unimplemented!() }
}

pub struct Context {
    pub sample_count: usize,
    pub frame_count: usize,
    pub fed: Ghost<Seq<u8>>,
}
pub uninterp spec fn md5_of(bytes: Seq<u8>) -> Seq<u8>;
impl Context {
    #[verifier::external_body]
    pub fn new(bits_per_sample: usize, channels: usize) -> (r: Self)
        // `Context::new` PANICS for widths above 32 bits (its assert; Verus unit context_fill): the
        // driver must have rejected the width before it gets here (C17)
        requires bits_per_sample <= 32,
        ensures r.sample_count == 0 && r.frame_count == 0 && r.fed@.len() == 0,
    { unimplemented!() }
    #[verifier::external_body]
    pub fn current_frame_number(&self) -> (r: Option<usize>)
        ensures
            self.frame_count == 0 ==> r is None,
            self.frame_count > 0 ==> r == Some((self.frame_count - 1) as usize),
    { unimplemented!() }
    #[verifier::external_body]
    pub fn md5_digest(&self) -> (r: [u8; 16])
        ensures r@ == md5_of(self.fed@),
    { unimplemented!() }
    #[verifier::external_body]
    pub fn total_samples(&self) -> (r: usize)
        ensures r == self.sample_count,
    { unimplemented!() }
}

/// The `Source` trait with the contract its documentation (and, for `MemSource`, a Kani unit) gives:
/// a read delivers min(block_size, remaining) inter-channel samples into BOTH halves of the
/// destination; 0 means end of input.
pub trait Source: Sized {
    spec fn remaining(&self) -> nat;
    /// every byte (MD5 input format) the source delivers from its beginning to its end
    spec fn all_bytes(&self) -> Seq<u8>;
    /// how many of them have been delivered so far
    spec fn consumed_len(&self) -> nat;
    spec fn spec_channels(&self) -> usize;
    spec fn spec_bits_per_sample(&self) -> usize;
    spec fn spec_sample_rate(&self) -> usize;
    spec fn spec_len_hint(&self) -> Option<usize>;

    fn channels(&self) -> (r: usize)
        ensures r == self.spec_channels();
    fn bits_per_sample(&self) -> (r: usize)
        ensures r == self.spec_bits_per_sample();
    fn sample_rate(&self) -> (r: usize)
        ensures r == self.spec_sample_rate();
    fn len_hint(&self) -> (r: Option<usize>)
        ensures r == self.spec_len_hint();

    fn read_samples(&mut self, block_size: usize, dest: &mut (FrameBuf, Context)) -> (r: Result<usize, SourceError>)
        requires
            old(dest).0.size == block_size,
            old(dest).1.sample_count + old(self).remaining() <= usize::MAX,
            old(dest).1.frame_count + old(self).remaining() <= usize::MAX,
        ensures
            final(self).spec_channels() == old(self).spec_channels(),
            final(self).spec_bits_per_sample() == old(self).spec_bits_per_sample(),
            final(self).spec_sample_rate() == old(self).spec_sample_rate(),
            final(self).spec_len_hint() == old(self).spec_len_hint(),
            final(dest).0.size == old(dest).0.size,
            final(self).all_bytes() == old(self).all_bytes(),
            r is Ok ==> {
                &&& old(self).consumed_len() <= final(self).consumed_len() <= final(self).all_bytes().len()
                &&& final(dest).1.fed@ == old(dest).1.fed@ + final(self).all_bytes().subrange(
                    old(self).consumed_len() as int, final(self).consumed_len() as int)
                &&& (final(self).remaining() == 0 ==> final(self).consumed_len() == final(self).all_bytes().len())
                &&& r->Ok_0 as int == min_nat(block_size as int, old(self).remaining() as int)
                &&& final(self).remaining() == old(self).remaining() - r->Ok_0
                &&& final(dest).0.filled == r->Ok_0
                &&& final(dest).1.sample_count == old(dest).1.sample_count + r->Ok_0
                &&& final(dest).1.frame_count == old(dest).1.frame_count + (if r->Ok_0 > 0 { 1nat } else { 0nat })
            },
        ;
}

/// callee contract of the frame-level entry point (Kani: number and block size; error otherwise)
#[verifier::external_body]
pub fn encode_fixed_size_frame(
    config: &Verified<Encoder>,
    framebuf: &FrameBuf,
    frame_number: usize,
    stream_info: &StreamInfo,
) -> (r: Result<Frame, EncodeError>)
    ensures
        r is Ok ==> r->Ok_0.number == frame_number && r->Ok_0.block_size == framebuf.filled,
{ unimplemented!() }

// ---- the property, stated over the ghost frame list -----------------------------------------
pub open spec fn frames_ok(frames: Seq<Frame>, block_size: int) -> bool {
    &&& forall|i: int| 0 <= i < frames.len() ==> (#[trigger] frames[i]).number == i
    &&& forall|i: int| 0 <= i < frames.len() - 1 ==> (#[trigger] frames[i]).block_size == block_size
    &&& forall|i: int| 0 <= i < frames.len() ==> 1 <= (#[trigger] frames[i]).block_size <= block_size
}

pub open spec fn sum_blocks(frames: Seq<Frame>) -> int
    decreases frames.len(),
{
    if frames.len() == 0 { 0 } else { sum_blocks(frames.drop_last()) + frames.last().block_size }
}

//@extract file=src/coding.rs fn="pub fn encode_with_fixed_block_size"
//@subst `config: &Verified<config::Encoder>,` => `config: &Verified<Encoder>,`
//@subst `src.len_hint().unwrap_or_else(|| context.total_samples())` => `src.len_hint().unwrap_or_else(|| -> (tot: usize) ensures tot == context.sample_count { context.total_samples() })`
//@subst `) -> Result<Stream, EncodeError> {` => `) -> (res: Result<Stream, EncodeError>) {`
//@subst `    #[cfg(feature = "par")]\n    {\n        if config.multithread {\n            return par::encode_with_fixed_block_size(config, src, block_size);\n        }\n    }\n` => ``
//@sig
//|     requires
//|         src.remaining() <= usize::MAX / 2,
//|         src.consumed_len() == 0,
//|         src.remaining() == 0 ==> src.all_bytes().len() == 0,
//|     ensures
//|         // C03: the MD5 field is the digest of everything the source delivered
//|         res is Ok ==> res->Ok_0.info.md5 == md5_of(src.all_bytes()),
//|         // C02: numbering and full blocks
//|         res is Ok ==> frames_ok(res->Ok_0.frames@, block_size as int),
//|         // C03: format copied, totals, digest
//|         res is Ok ==> res->Ok_0.info.sample_rate == src.spec_sample_rate()
//|             && res->Ok_0.info.channels == src.spec_channels()
//|             && res->Ok_0.info.bits_per_sample == src.spec_bits_per_sample(),
//|         res is Ok && src.spec_len_hint() is None ==> res->Ok_0.info.total_samples == src.remaining(),
//|         res is Ok && src.spec_len_hint() is Some ==> res->Ok_0.info.total_samples == src.spec_len_hint()->Some_0,
//|         res is Ok ==> sum_blocks(res->Ok_0.frames@) == src.remaining(),
//|         // C04: block-size bounds (RFC 9639 8.2: the final short block is excluded; < 16 invalid)
//|         res is Ok && res->Ok_0.frames@.len() > 0 ==> res->Ok_0.info.max_block_size == block_size,
//|         res is Ok && res->Ok_0.frames@.len() > 0 ==> 16 <= res->Ok_0.info.min_block_size,
//|         res is Ok ==> (forall|i: int| 0 <= i < res->Ok_0.frames@.len() - 1 ==> res->Ok_0.info.min_block_size <= (#[trigger] res->Ok_0.frames@[i]).block_size),
//|         // C04: frame-size bounds
//|         res is Ok ==> (forall|i: int| 0 <= i < res->Ok_0.frames@.len() ==> res->Ok_0.info.min_frame_size <= (#[trigger] res->Ok_0.frames@[i]).bytes <= res->Ok_0.info.max_frame_size),
//@loop 1
//|         invariant
//|             32 <= block_size <= 32767,
//|             framebuf_and_context.0.size == block_size,
//|             framebuf_and_context.1.frame_count == stream.frames@.len(),
//|             framebuf_and_context.1.sample_count == sum_blocks(stream.frames@),
//|             src.remaining() + sum_blocks(stream.frames@) == src0.remaining(),
//|             src.all_bytes() == src0.all_bytes(),
//|             src.consumed_len() <= src.all_bytes().len(),
//|             framebuf_and_context.1.fed@ =~= src.all_bytes().subrange(0, src.consumed_len() as int),
//|             src.remaining() == 0 ==> src.consumed_len() == src.all_bytes().len(),
//|             src0.remaining() <= usize::MAX / 2,
//|             stream.frames@.len() <= sum_blocks(stream.frames@),
//|             src.spec_channels() == src0.spec_channels(),
//|             src.spec_bits_per_sample() == src0.spec_bits_per_sample(),
//|             src.spec_sample_rate() == src0.spec_sample_rate(),
//|             src.spec_len_hint() == src0.spec_len_hint(),
//|             stream.info.sample_rate == src0.spec_sample_rate(),
//|             stream.info.channels == src0.spec_channels(),
//|             stream.info.bits_per_sample == src0.spec_bits_per_sample(),
//|             frames_ok(stream.frames@, block_size as int),
//|             // a short frame can only be the one that exhausted the source
//|             forall|i: int| 0 <= i < stream.frames@.len() ==> (#[trigger] stream.frames@[i]).block_size == block_size
//|                 || (i == stream.frames@.len() - 1 && src.remaining() == 0),
//|             stream.info.max_block_size == block_size,
//|             stream.info.min_block_size <= block_size,
//|             forall|i: int| 0 <= i < stream.frames@.len() ==> stream.info.min_block_size <= (#[trigger] stream.frames@[i]).block_size,
//|             (forall|i: int| 0 <= i < stream.frames@.len() ==> (#[trigger] stream.frames@[i]).block_size == block_size)
//|                 ==> stream.info.min_block_size == block_size,
//|             forall|i: int| 0 <= i < stream.frames@.len() ==> stream.info.min_frame_size <= (#[trigger] stream.frames@[i]).bytes <= stream.info.max_frame_size,
//|         ensures
//|             src.remaining() == 0,
//|             framebuf_and_context.1.fed@ =~= src0.all_bytes(),
//|         decreases src.remaining(),
//@before `let frame = encode_fixed_size_frame(`
//|         let ghost f0 = stream.frames@;
//@after `stream.add_frame(frame);`
//|         proof {
//|             assert(stream.frames@.drop_last() =~= f0);
//|         }
//@before `let mut stream = Stream::new(`
//|     let ghost src0 = src;
//@end

} // verus!
fn main() {}
