//@ unit props=C16,C15 tier=quick kind=unbounded timeout=240 funcs="parser::frame" stubs="parser::frame_header(true) -> a header and the rest of the input, or an error [Kani c16_frame_header_crc8_enforced, c15_frame_header_roundtrip]; bits(many_m_n(channels, channels, subframe..)) -> `channels` subframes and the rest of the input, or an error (nom: a parser returns a SUFFIX of its input) [sub-parsers: Kani c16_* / Verus parser_residual]; nom verify(be_u16, pred) -> the next two bytes as a big-endian u16 if pred holds, else an error; nom Offset::offset -> distance between a slice and a suffix of it; FRAME_CRC.checksum -> crc16 [Kani c02_crc16_matches_rfc]" note="the closure `move |input| {..}` that `frame(stream_info, check_crc)` returns is verified as a function of (stream_info, check_crc, input); the 17-line `bits(many_m_n(..|i| {..}))(remaining_input).map_err(convert_bits_err)?` expression is replaced by the callee contract `parse_subframes` (closures capturing `&mut ch` passed to nom combinators are outside Verus); `check_crc.then(|| { BODY })` becomes `if check_crc { Some({ BODY }) } else { None }` with BODY (the slice and the checksum call) verbatim; `verify(be_u16, |crc| test_crc16.map_or(true, |x| x == *crc))(i)` becomes `verify_be_u16(test_crc16, i)`"
// C16: the frame recogniser `parser::frame` for ANY input:
//   * no panic: the slice `input_start[..offset]` handed to the CRC is always inside the input
//     (truncated input, input that ends right after the last subframe, ...);
//   * the frame CRC-16 is ENFORCED: with check_crc, a frame is accepted only if its two footer
//     bytes are the CRC-16 of exactly the bytes from the frame's first byte up to the footer - a frame
//     altered anywhere in header or body is rejected unless the 16-bit checksum happens to agree;
//   * an accepted frame has the channel count and the sample width STREAMINFO declares.
use vstd::prelude::*;
verus! {

pub open spec fn is_suffix(s: Seq<u8>, whole: Seq<u8>) -> bool {
    s.len() <= whole.len() && whole.subrange(whole.len() - s.len(), whole.len() as int) == s
}

pub proof fn lemma_suffix_trans(a: Seq<u8>, b: Seq<u8>, c: Seq<u8>)
    requires
        is_suffix(a, b),
        is_suffix(b, c),
    ensures
        is_suffix(a, c),
{
    assert(c.subrange(c.len() - a.len(), c.len() as int) =~= c.subrange(c.len() - b.len(), c.len() as int).subrange(
        b.len() - a.len(),
        b.len() as int,
    ));
}

pub uninterp spec fn crc16(b: Seq<u8>) -> u16;

pub open spec fn be16(hi: u8, lo: u8) -> u16 {
    ((hi as u16) << 8) | (lo as u16)
}

pub struct NomErr {
    pub dummy: u8,
}

pub struct ChannelAssignment {
    pub nch: usize,
}

impl ChannelAssignment {
    pub fn channels(&self) -> (r: usize)
        ensures
            r == self.nch,
    {
        self.nch
    }
}

pub struct FrameHeader {
    pub channel_assignment: ChannelAssignment,
    pub block_size: usize,
    pub bits_per_sample: Option<usize>,
}

impl FrameHeader {
    pub fn channel_assignment(&self) -> (r: &ChannelAssignment)
        ensures
            *r == self.channel_assignment,
    {
        &self.channel_assignment
    }

    pub fn block_size(&self) -> (r: usize)
        ensures
            r == self.block_size,
    {
        self.block_size
    }

    pub fn bits_per_sample(&self) -> (r: Option<usize>)
        ensures
            r == self.bits_per_sample,
    {
        self.bits_per_sample
    }
}

pub struct SubFrame {
    pub dummy: u8,
}

pub struct Frame {
    pub header: FrameHeader,
    pub subframes: Vec<SubFrame>,
}

impl Frame {
    #[verifier::external_body]
    pub fn from_parts(header: FrameHeader, subframes: Vec<SubFrame>) -> (r: Self)
        ensures
            r.header == header,
            r.subframes@ == subframes@,
    {
        unimplemented!()
    }
}

pub struct StreamInfo {
    pub channels: usize,
    pub bits_per_sample: usize,
}

impl StreamInfo {
    pub fn channels(&self) -> (r: usize)
        ensures
            r == self.channels,
    {
        self.channels
    }

    pub fn bits_per_sample(&self) -> (r: usize)
        ensures
            r == self.bits_per_sample,
    {
        self.bits_per_sample
    }
}

/// contract assumed of `parser::frame_header(true)`: a header and the unconsumed rest (a proper
/// suffix of the input), or an error
#[verifier::external_body]
pub fn frame_header_true<'a>(input: &'a [u8]) -> (r: Result<(&'a [u8], FrameHeader), NomErr>)
    ensures
        r is Ok ==> is_suffix(r->Ok_0.0@, input@) && r->Ok_0.0@.len() < input@.len(),
{
    unimplemented!()
}

/// contract assumed of `bits(many_m_n(channels, channels, subframe..))(input).map_err(..)`:
/// exactly `channels` subframes and the unconsumed rest, or an error
#[verifier::external_body]
pub fn parse_subframes<'a>(
    channels: usize,
    block_size: usize,
    bits_per_sample: usize,
    header: &FrameHeader,
    input: &'a [u8],
) -> (r: Result<(&'a [u8], Vec<SubFrame>), NomErr>)
    ensures
        r is Ok ==> is_suffix(r->Ok_0.0@, input@) && r->Ok_0.1@.len() == channels,
{
    unimplemented!()
}

/// `nom::Offset::offset` on byte slices: how far `second` starts after `first`
#[verifier::external_body]
pub fn slice_offset(first: &[u8], second: &[u8]) -> (r: usize)
    requires
        is_suffix(second@, first@),
    ensures
        r == first@.len() - second@.len(),
{
    unimplemented!()
}

/// `nom::combinator::verify(be_u16, |crc| expected.map_or(true, |x| x == *crc))`: streaming
/// big-endian u16; Incomplete/Error when fewer than two bytes remain or the predicate fails
#[verifier::external_body]
pub fn verify_be_u16<'a>(expected: Option<u16>, input: &'a [u8]) -> (r: Result<(&'a [u8], u16), NomErr>)
    ensures
        r is Ok ==> {
            &&& input@.len() >= 2
            &&& r->Ok_0.0@ == input@.subrange(2, input@.len() as int)
            &&& r->Ok_0.1 == be16(input@[0], input@[1])
            &&& (expected is Some ==> expected->Some_0 == r->Ok_0.1)
        },
{
    unimplemented!()
}

pub struct FrameCrc {
    pub dummy: u8,
}

impl FrameCrc {
    #[verifier::external_body]
    pub fn checksum(&self, bytes: &[u8]) -> (r: u16)
        ensures
            r == crc16(bytes@),
    {
        unimplemented!()
    }
}

//@extract file=src/component/parser.rs fn="pub fn frame"
//@subst `pub fn frame<'a, E>(\n    stream_info: &component::StreamInfo,\n    check_crc: bool,\n) -> impl FnMut(&'a [u8]) -> IResult<&'a [u8], component::Frame, E>\nwhere\n    E: ParseError<&'a [u8]>,\n{` => `pub fn frame<'a>(\n    stream_info: &StreamInfo,\n    check_crc: bool,\n    input: &'a [u8],\n    FRAME_CRC: &FrameCrc,\n) -> (res: Result<(&'a [u8], Frame), NomErr>)\n{`
//@subst `    move |input| {\n` => `    {\n`
//@subst `frame_header(true)(remaining_input)?` => `frame_header_true(remaining_input)?`
//@subst `            return Err(nom::Err::Error(error_position!(\n                remaining_input,\n                nom::error::ErrorKind::TagBits\n            )));` => `            return Err(NomErr { dummy: 0 });` x2
//@subst `        let mut ch = 0;\n        let (remaining_input, subframes) = bits(many_m_n(channels, channels, |i| {\n            let subframe_bits =\n                bits_per_sample + header.channel_assignment().bits_per_sample_offset(ch);\n            if subframe_bits > MAX_BITS_PER_SAMPLE + 1 {\n                return Err(nom::Err::Error(error_position!(\n                    i,\n                    nom::error::ErrorKind::Verify\n                )));\n            }\n            let ret =\n                subframe::<(BitInput<'a>, nom::error::ErrorKind)>(block_size, subframe_bits)(i);\n            ch += 1;\n            ret\n        }))(remaining_input)\n        .map_err(convert_bits_err)?;` => `        let (remaining_input, subframes) = parse_subframes(channels, block_size, bits_per_sample, &header, remaining_input)?;`
//@subst `let test_crc16 = check_crc.then(|| {` => `let test_crc16 = if check_crc { Some({`
//@subst `            FRAME_CRC.checksum(frame_bytes)\n        });` => `            FRAME_CRC.checksum(frame_bytes)\n        }) } else { None };`
//@subst `input_start.offset(remaining_input)` => `slice_offset(input_start, remaining_input)`
//@subst `verify(be_u16, |crc| test_crc16.map_or(true, |x| x == *crc))(remaining_input)?` => `verify_be_u16(test_crc16, remaining_input)?`
//@subst `component::Frame::from_parts(header, subframes)` => `Frame::from_parts(header, subframes)`
//@sig
//|     ensures
//|         res is Ok ==> {
//|             let rest = res->Ok_0.0@;
//|             let fr = res->Ok_0.1;
//|             let n = input@.len() - rest.len();
//|             &&& is_suffix(rest, input@)
//|             &&& n >= 3
//|             // the frame occupies input[0..n]; its last two bytes are the footer
//|             &&& (check_crc ==> crc16(input@.subrange(0, n - 2)) == be16(input@[n - 2], input@[n - 1]))
//|             &&& fr.header.channel_assignment.nch == stream_info.channels
//|             &&& fr.subframes@.len() == stream_info.channels
//|             &&& (fr.header.bits_per_sample is Some ==> fr.header.bits_per_sample->Some_0 == stream_info.bits_per_sample)
//|         },
//@after `let (remaining_input, header) = frame_header_true(remaining_input)?;`
//|         let ghost r_after_header: Seq<u8> = remaining_input@;
//@after `let (remaining_input, subframes) = parse_subframes(`
//|         let ghost r_after_subframes: Seq<u8> = remaining_input@;
//|         proof {
//|             lemma_suffix_trans(r_after_subframes, r_after_header, input@);
//|         }
//@before `let frame = Frame::from_parts(header, subframes);`
//|         proof {
//|             let body_len = input@.len() - r_after_subframes.len();
//|             assert(r_after_subframes =~= input@.subrange(body_len, input@.len() as int));
//|             assert(remaining_input@.len() == r_after_subframes.len() - 2);
//|             assert(remaining_input@ =~= input@.subrange(input@.len() - remaining_input@.len(), input@.len() as int));
//|             assert(input@.subrange(0, body_len) =~= input_start@.subrange(0, body_len));
//|             assert(r_after_subframes[0] == input@[body_len]);
//|             assert(r_after_subframes[1] == input@[body_len + 1]);
//|         }
//@end

} // verus!
fn main() {}
