//@ unit props=C08,C04,C09 tier=quick kind=unbounded timeout=300 funcs="<Residual as BitRepr>::count_bits" stubs="cached sums: sum_quotients == sum of all quotients, sum_rice_params == sum of the parameters [established by Residual::from_parts: Kani c08_residual_from_parts_sums; re-checked by Residual::verify]" note="same bit-string specification as unit residual_write"
// C08 for the innermost component, ANY block size / partition order / warm-up: the closed-form
// `Residual::count_bits` equals the length of the bit string `Residual::write` emits (unit
// residual_write proves that `write` emits exactly `spec_bits`), and its arithmetic cannot overflow or
// underflow for a well-formed residual whose quotient sum fits 48 bits.
use vstd::prelude::*;
verus! {

global size_of usize == 8;

pub open spec fn zeros(n: nat) -> Seq<bool> {
    Seq::new(n, |i: int| false)
}

pub open spec fn is_prefix(a: Seq<bool>, b: Seq<bool>) -> bool {
    a.len() <= b.len() && b.subrange(0, a.len() as int) == a
}

pub proof fn lemma_prefix_refl(a: Seq<bool>)
    ensures
        is_prefix(a, a),
{
    assert(a.subrange(0, a.len() as int) =~= a);
}

pub proof fn lemma_prefix_append(a: Seq<bool>, b: Seq<bool>)
    ensures
        is_prefix(a, a + b),
{
    assert((a + b).subrange(0, a.len() as int) =~= a);
}

pub proof fn lemma_prefix_trans(a: Seq<bool>, b: Seq<bool>, c: Seq<bool>)
    requires
        is_prefix(a, b),
        is_prefix(b, c),
    ensures
        is_prefix(a, c),
{
    assert(c.subrange(0, a.len() as int) =~= c.subrange(0, b.len() as int).subrange(0, a.len() as int));
}

/// the `n` low bits of v, MSB first
pub uninterp spec fn lsbs_bits(v: int, n: nat) -> Seq<bool>;
/// the `n` most significant bits of the 32-bit word v, MSB first
pub uninterp spec fn msbs32_bits(v: u32, n: nat) -> Seq<bool>;

pub struct RangeError {
    pub dummy: u8,
}

pub enum OutputError<S: BitSink> {
    Range(RangeError),
    Sink(S::Error),
}

impl<S: BitSink> OutputError<S> {
    pub fn from_sink(e: S::Error) -> (r: Self)
        ensures
            r is Sink,
    {
        OutputError::Sink(e)
    }
}

pub trait UBits: Copy {
    spec fn as_int(self) -> int;
}

impl UBits for u8 {
    open spec fn as_int(self) -> int {
        self as int
    }
}

impl UBits for u32 {
    open spec fn as_int(self) -> int {
        self as int
    }
}

/// per-operation contracts of a user sink (C11): append-only, exact on Ok, a prefix on Err
pub trait BitSink: Sized {
    type Error: std::fmt::Debug;

    spec fn bits(&self) -> Seq<bool>;

    fn write_lsbs<T: UBits>(&mut self, val: T, n: usize) -> (r: Result<(), Self::Error>)
        requires
            n <= 32,
        ensures
            is_prefix(old(self).bits(), final(self).bits()),
            is_prefix(final(self).bits(), old(self).bits() + lsbs_bits(val.as_int(), n as nat)),
            r is Ok ==> final(self).bits() == old(self).bits() + lsbs_bits(val.as_int(), n as nat),
    ;

    fn write_zeros(&mut self, n: usize) -> (r: Result<(), Self::Error>)
        ensures
            is_prefix(old(self).bits(), final(self).bits()),
            is_prefix(final(self).bits(), old(self).bits() + zeros(n as nat)),
            r is Ok ==> final(self).bits() == old(self).bits() + zeros(n as nat),
    ;

    /// `write_msbs::<u32>`
    fn write_msbs(&mut self, val: u32, n: usize) -> (r: Result<(), Self::Error>)
        requires
            n <= 32,
        ensures
            is_prefix(old(self).bits(), final(self).bits()),
            is_prefix(final(self).bits(), old(self).bits() + msbs32_bits(val, n as nat)),
            r is Ok ==> final(self).bits() == old(self).bits() + msbs32_bits(val, n as nat),
    ;
}

/// `std::cmp::max` as imported by bitrepr.rs (`use std::cmp::max;`), at the type it is used at; the
/// body is literally the std call
#[verifier::external_body]
pub fn max(a: usize, b: usize) -> (r: usize)
    ensures
        r == (if a >= b { a } else { b }),
{
    std::cmp::max(a, b)
}

//@const file=src/component/bitrepr.rs name=RESIDUAL_WRITE_UNROLL_N

pub struct Residual {
    pub partition_order: u8,
    pub block_size: usize,
    pub warmup_length: usize,
    pub rice_params: Vec<u8>,
    pub quotients: Vec<u32>,
    pub remainders: Vec<u32>,
    pub sum_quotients: usize,
    pub sum_rice_params: usize,
}

/// the Rice code of (quotient, remainder) under parameter p as the writer emits it
pub open spec fn rice_code(q: u32, r: u32, p: u8) -> Seq<bool> {
    zeros(q as nat) + msbs32_bits((r | (1u32 << p)) << ((32 - (p + 1)) as usize), (p + 1) as nat)
}

impl Residual {
    pub open spec fn part_len(&self) -> int {
        (self.block_size >> (self.partition_order as usize)) as int
    }

    pub open spec fn nparts(&self) -> int {
        (1usize << (self.partition_order as usize)) as int
    }

    pub open spec fn max_int(a: int, b: int) -> int {
        if a >= b { a } else { b }
    }

    /// codes of samples t in [lo, hi) with parameter p
    pub open spec fn codes_from(&self, p: u8, lo: int, hi: int) -> Seq<bool>
        decreases hi - lo,
    {
        if lo >= hi {
            Seq::<bool>::empty()
        } else {
            rice_code(self.quotients@[lo], self.remainders@[lo], p) + self.codes_from(p, lo + 1, hi)
        }
    }

    /// partitions k, k+1, ..
    pub open spec fn parts_from(&self, k: int) -> Seq<bool>
        decreases self.nparts() - k,
    {
        if k >= self.nparts() || k < 0 {
            Seq::<bool>::empty()
        } else {
            lsbs_bits(self.rice_params@[k] as int, 4) + self.codes_from(
                self.rice_params@[k],
                Self::max_int(self.warmup_length as int, k * self.part_len()),
                (k + 1) * self.part_len(),
            ) + self.parts_from(k + 1)
        }
    }

    /// RFC 9639 9.2.7 with the 2-bit coding method 00 and the 4-bit order written as one 6-bit field
    pub open spec fn spec_bits(&self) -> Seq<bool> {
        lsbs_bits(self.partition_order as int, 6) + self.parts_from(0)
    }

    /// structural well-formedness (what `Residual::verify` checks: Kani units c18_residual_verify_gate_*)
    pub open spec fn well_formed(&self) -> bool {
        &&& self.partition_order <= 15
        &&& self.block_size <= 65535
        &&& self.rice_params@.len() == self.nparts()
        &&& self.quotients@.len() == self.block_size
        &&& self.remainders@.len() == self.block_size
        &&& self.nparts() * self.part_len() == self.block_size
        &&& self.warmup_length <= self.part_len()
        &&& forall|j: int| 0 <= j < self.rice_params@.len() ==> #[trigger] self.rice_params@[j] <= 14
    }

    pub fn partition_order(&self) -> (r: usize)
        ensures
            r == self.partition_order as usize,
    {
        self.partition_order as usize
    }

    pub fn block_size(&self) -> (r: usize)
        ensures
            r == self.block_size,
    {
        self.block_size
    }

    pub fn warmup_length(&self) -> (r: usize)
        ensures
            r == self.warmup_length,
    {
        self.warmup_length
    }

    pub fn rice_params(&self) -> (r: &[u8])
        ensures
            r@ == self.rice_params@,
    {
        self.rice_params.as_slice()
    }

    pub fn quotients(&self) -> (r: &[u32])
        ensures
            r@ == self.quotients@,
    {
        self.quotients.as_slice()
    }

    pub fn remainders(&self) -> (r: &[u32])
        ensures
            r@ == self.remainders@,
    {
        self.remainders.as_slice()
    }


    pub fn sum_quotients(&self) -> (r: usize)
        ensures
            r == self.sum_quotients,
    {
        self.sum_quotients
    }

    pub fn sum_rice_params(&self) -> (r: usize)
        ensures
            r == self.sum_rice_params,
    {
        self.sum_rice_params
    }

    /// sum of the quotients of samples lo..hi
    pub open spec fn sumq(&self, lo: int, hi: int) -> int
        decreases hi - lo,
    {
        if lo >= hi { 0 } else { self.quotients@[lo] as int + self.sumq(lo + 1, hi) }
    }

    /// sum of the parameters of partitions k..
    pub open spec fn sump(&self, k: int) -> int
        decreases self.nparts() - k,
    {
        if k >= self.nparts() || k < 0 { 0 } else { self.rice_params@[k] as int + self.sump(k + 1) }
    }

    /// the cached sums are the real sums; warm-up samples carry no code (Residual::verify)
    pub open spec fn sums_ok(&self) -> bool {
        &&& self.sum_quotients as int == self.sumq(0, self.block_size as int)
        &&& self.sum_rice_params as int == self.sump(0)
        &&& self.sum_quotients <= 0xFFFF_FFFF_FFFF
        &&& forall|t: int| 0 <= t < self.warmup_length ==> #[trigger] self.quotients@[t] == 0
    }

    pub proof fn lemma_sumq_split(&self, a: int, b: int, c: int)
        requires
            a <= b <= c,
        ensures
            self.sumq(a, c) == self.sumq(a, b) + self.sumq(b, c),
        decreases b - a,
    {
        if a < b {
            self.lemma_sumq_split(a + 1, b, c);
        }
    }

    pub proof fn lemma_sumq_zero(&self, a: int, b: int)
        requires
            0 <= a <= b <= self.quotients@.len(),
            forall|t: int| a <= t < b ==> #[trigger] self.quotients@[t] == 0,
        ensures
            self.sumq(a, b) == 0,
        decreases b - a,
    {
        if a < b {
            self.lemma_sumq_zero(a + 1, b);
        }
    }

    pub proof fn lemma_sump_bounds(&self, k: int)
        requires
            self.well_formed(),
            0 <= k <= self.nparts(),
        ensures
            0 <= self.sump(k) <= 14 * (self.nparts() - k),
            k < self.nparts() ==> self.sump(k) >= self.rice_params@[k] as int,
        decreases self.nparts() - k,
    {
        if k < self.nparts() {
            self.lemma_sump_bounds(k + 1);
        }
    }

    pub proof fn lemma_codes_len(&self, p: u8, lo: int, hi: int)
        requires
            0 <= lo <= hi <= self.quotients@.len(),
            self.remainders@.len() == self.quotients@.len(),
            p <= 14,
        ensures
            self.codes_from(p, lo, hi).len() == self.sumq(lo, hi) + (hi - lo) * (p + 1),
        decreases hi - lo,
    {
        if lo < hi {
            self.lemma_codes_len(p, lo + 1, hi);
            axiom_code_lens((self.remainders@[lo] | (1u32 << p)) << ((32 - (p + 1)) as usize), (p + 1) as nat, 0, 0);
            assert((hi - lo) * (p + 1) == (hi - (lo + 1)) * (p + 1) + (p + 1)) by (nonlinear_arith);
        } else {
            assert((hi - lo) * (p + 1) == 0) by (nonlinear_arith)
                requires hi - lo == 0;
        }
    }

    /// partitions k.. for k >= 1 (none of them is shortened by the warm-up)
    pub proof fn lemma_parts_len(&self, k: int)
        requires
            self.well_formed(),
            1 <= k <= self.nparts(),
        ensures
            self.parts_from(k).len() == 4 * (self.nparts() - k) + self.sumq(k * self.part_len(), self.block_size as int)
                + self.part_len() * (self.sump(k) + (self.nparts() - k)),
        decreases self.nparts() - k,
    {
        let n = self.nparts();
        let l = self.part_len();
        if k < n {
            self.lemma_parts_len(k + 1);
            let pk = self.rice_params@[k];
            assert(k * l >= l) by (nonlinear_arith)
                requires k >= 1, l >= 0;
            assert((k + 1) * l == k * l + l) by (nonlinear_arith);
            assert((k + 1) * l <= n * l) by (nonlinear_arith)
                requires k + 1 <= n, l >= 0;
            assert(Self::max_int(self.warmup_length as int, k * l) == k * l);
            self.lemma_codes_len(pk, k * l, (k + 1) * l);
            axiom_code_lens(0, 0, pk as int, 4);
            self.lemma_sumq_split(k * l, (k + 1) * l, self.block_size as int);
            assert(((k + 1) * l - k * l) * (pk + 1) == l * (pk + 1)) by (nonlinear_arith)
                requires (k + 1) * l == k * l + l;
            assert(l * (pk + 1) + l * (self.sump(k + 1) + (n - (k + 1))) == l * (self.sump(k) + (n - k))) by (nonlinear_arith)
                requires self.sump(k) == pk as int + self.sump(k + 1);
        } else {
            assert(k * l == self.block_size as int);
            assert(l * (self.sump(k) + (n - k)) == 0) by (nonlinear_arith)
                requires self.sump(k) == 0, n - k == 0;
        }
    }

    pub proof fn lemma_spec_len(&self)
        requires
            self.well_formed(),
            self.sums_ok(),
        ensures
            self.nparts() >= 1,
            self.spec_bits().len() == 6 + 4 * self.nparts() + self.sum_quotients as int + self.block_size as int
                - self.warmup_length as int + self.sum_rice_params as int * self.part_len() - self.warmup_length as int
                * (self.rice_params@[0] as int),
            self.sum_rice_params as int * self.part_len() >= self.warmup_length as int * (self.rice_params@[0] as int),
            self.sum_rice_params <= 14 * 32768,
            self.nparts() <= 32768,
    {
        let n = self.nparts();
        let l = self.part_len();
        let w = self.warmup_length as int;
        let p0 = self.rice_params@[0];
        lemma_order_facts(self.partition_order, self.block_size);
        self.lemma_parts_len(1);
        self.lemma_sump_bounds(0);
        self.lemma_sump_bounds(1);
        axiom_code_lens(0, 0, self.partition_order as int, 6);
        axiom_code_lens(0, 0, p0 as int, 4);
        assert(1 * l == l) by (nonlinear_arith);
        assert(l <= n * l) by (nonlinear_arith)
            requires n >= 1, l >= 0;
        assert(Self::max_int(w, 0 * l) == w) by (nonlinear_arith)
            requires w >= 0;
        assert((0 + 1) * l == l) by (nonlinear_arith);
        self.lemma_codes_len(p0, w, l);
        self.lemma_sumq_split(0, w, self.block_size as int);
        self.lemma_sumq_split(w, l, self.block_size as int);
        self.lemma_sumq_zero(0, w);
        assert(self.parts_from(0) == lsbs_bits(p0 as int, 4) + self.codes_from(p0, Self::max_int(w, 0 * l), (0 + 1) * l) + self.parts_from(1));
        assert((l - w) * (p0 + 1) + l * (self.sump(1) + (n - 1)) == l * self.sump(0) + l * n - w * p0 - w) by (nonlinear_arith)
            requires self.sump(0) == p0 as int + self.sump(1);
        assert(l * n == self.block_size as int) by (nonlinear_arith)
            requires n * l == self.block_size as int;
        assert(self.sump(0) * l == l * self.sump(0)) by (nonlinear_arith);
        assert(self.sump(0) * l >= w * (p0 as int)) by (nonlinear_arith)
            requires self.sump(0) >= p0 as int, l >= w, w >= 0, p0 >= 0;
    }

//@extract file=src/component/bitrepr.rs impl="impl BitRepr for Residual {" fn="fn count_bits"
//@subst `fn count_bits(&self) -> usize {` => `fn count_bits(&self) -> (nbits: usize) {`
//@sig
//|     requires
//|         self.well_formed(),
//|         self.sums_ok(),
//|     ensures
//|         nbits == self.spec_bits().len(),
//@bodystart
//|     proof {
//|         self.lemma_spec_len();
//|         lemma_order_facts(self.partition_order, self.block_size);
//|         let bsz = self.block_size;
//|         let ord = self.partition_order as usize;
//|         assert(ord <= 15 ==> (bsz >> ord) <= bsz) by (bit_vector);
//|         assert(self.part_len() <= 65535);
//|         assert(self.warmup_length <= 65535);
//|         assert(self.sum_rice_params as int * self.part_len() <= 14 * 32768 * 65535) by (nonlinear_arith)
//|             requires self.sum_rice_params <= 14 * 32768, 0 <= self.part_len() <= 65535;
//|         assert(self.warmup_length as int * (self.rice_params@[0] as int) <= 65535 * 14) by (nonlinear_arith)
//|             requires self.warmup_length <= 65535, self.rice_params@[0] <= 14;
//|         assert(self.nparts() * 4 <= 32768 * 4);
//|     }
//@end

}

#[verifier::external_body]
pub proof fn axiom_code_lens(w: u32, n: nat, v: int, m: nat)
    ensures
        msbs32_bits(w, n).len() == n,
        lsbs_bits(v, m).len() == m,
{
}

pub proof fn lemma_order_facts(order: u8, n: usize)
    requires
        order <= 15,
    ensures
        (order as usize) < 64,
        (1usize << (order as usize)) >= 1,
        (1usize << (order as usize)) <= 32768,
{
    let o = order as usize;
    assert(o <= 15 ==> (1usize << o) >= 1 && (1usize << o) <= 32768) by (bit_vector);
}

pub proof fn lemma_shift_facts(p: u8)
    requires
        p <= 14,
    ensures
        p < 32,
        p + 1 <= 32,
        32 - (p + 1) < 32,
{
}

} // verus!
fn main() {}
