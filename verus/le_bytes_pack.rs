//@ unit props=C14,C03 tier=quick kind=unbounded timeout=120 funcs="arrayutils::i32s_to_le_bytes" note="i32::to_le_bytes through an external_body wrapper whose spec is proved by Kani unit arrayutils::verif::le_bytes_spec"
// C14 / C03 (multi-thread hashing path): `i32s_to_le_bytes` for ANY number of samples and 1..=4 bytes
// per sample: byte j of sample k lands at dest[k * bps + j] and is byte j of the little-endian
// two's-complement representation; EVERY sample is serialised (no tail is skipped) and nothing
// beyond the serialised bytes is touched.
use vstd::prelude::*;
verus! {

pub open spec fn le_bytes(v: i32) -> Seq<u8> {
    seq![
        (v as u32 & 0xff) as u8,
        ((v as u32 >> 8) & 0xff) as u8,
        ((v as u32 >> 16) & 0xff) as u8,
        ((v as u32 >> 24) & 0xff) as u8,
    ]
}

/// position of byte j of sample k
pub open spec fn at(k: int, j: int, b: int) -> int {
    k * b + j
}

pub proof fn lemma_at_lt(k: int, j: int, kk: int, b: int)
    requires
        0 <= k < kk,
        0 <= j < b,
    ensures
        at(k, j, b) < kk * b,
        at(k, j, b) >= 0,
{
    assert(k * b + b <= kk * b) by (nonlinear_arith)
        requires
            k + 1 <= kk,
            b >= 0,
    ;
    assert(k * b >= 0) by (nonlinear_arith)
        requires
            k >= 0,
            b >= 0,
    ;
}

#[verifier::external_body]
pub fn i32_to_le_bytes(v: i32) -> (r: [u8; 4])
    ensures
        r@ == le_bytes(v),
{
    v.to_le_bytes()
}

//@extract file=src/arrayutils.rs fn="pub fn i32s_to_le_bytes"
//@subst `v.to_le_bytes()` => `i32_to_le_bytes(*v)`
//@subst `for v in ints {` => `for v in it: ints {`
//@sig
//|     requires
//|         1 <= bytes_per_sample <= 4,
//|         old(dest)@.len() >= ints@.len() * bytes_per_sample,
//|     ensures
//|         final(dest)@.len() == old(dest)@.len(),
//|         forall|k: int, j: int| 0 <= k < ints@.len() && 0 <= j < bytes_per_sample ==> final(dest)@[#[trigger] at(k, j, bytes_per_sample as int)] == le_bytes(ints@[k])[j],
//|         forall|i: int| ints@.len() * bytes_per_sample <= i < old(dest)@.len() ==> #[trigger] final(dest)@[i] == old(dest)@[i],
//@loop 1
//|         invariant
//|             1 <= bytes_per_sample <= 4,
//|             dest@.len() == old(dest)@.len(),
//|             dest@.len() >= ints@.len() * bytes_per_sample,
//|             it.index@ <= ints@.len(),
//|             n == it.index@ * bytes_per_sample,
//|             forall|k: int, j: int| 0 <= k < it.index@ && 0 <= j < bytes_per_sample ==> dest@[#[trigger] at(k, j, bytes_per_sample as int)] == le_bytes(ints@[k])[j],
//|             forall|i: int| n <= i < dest@.len() ==> #[trigger] dest@[i] == old(dest)@[i],
//@loopbody 1
//|         let ghost kk = it.index@;
//|         proof {
//|             assert((kk + 1) * bytes_per_sample == kk * bytes_per_sample + bytes_per_sample) by (nonlinear_arith);
//|             assert((kk + 1) * bytes_per_sample <= ints@.len() * bytes_per_sample) by (nonlinear_arith)
//|                 requires kk + 1 <= ints@.len(), bytes_per_sample >= 0;
//|         }
//@loop 2
//|             invariant
//|                 1 <= bytes_per_sample <= 4,
//|                 dest@.len() == old(dest)@.len(),
//|                 kk < ints@.len(),
//|                 *v == ints@[kk],
//|                 (kk + 1) * bytes_per_sample <= dest@.len(),
//|                 (kk + 1) * bytes_per_sample == kk * bytes_per_sample + bytes_per_sample,
//|                 n == kk * bytes_per_sample + offset,
//|                 forall|k: int, j: int| 0 <= k < kk && 0 <= j < bytes_per_sample ==> dest@[#[trigger] at(k, j, bytes_per_sample as int)] == le_bytes(ints@[k])[j],
//|                 forall|j: int| 0 <= j < offset ==> dest@[#[trigger] at(kk, j, bytes_per_sample as int)] == le_bytes(ints@[kk])[j],
//|                 forall|i: int| n <= i < dest@.len() ==> #[trigger] dest@[i] == old(dest)@[i],
//@loopbody 2
//|             proof {
//|                 assert forall|k: int, j: int| 0 <= k < kk && 0 <= j < bytes_per_sample implies #[trigger] at(k, j, bytes_per_sample as int) < n by {
//|                     lemma_at_lt(k, j, kk, bytes_per_sample as int);
//|                 }
//|                 assert(at(kk, offset as int, bytes_per_sample as int) == n);
//|             }
//@end

} // verus!
fn main() {}
