//@ unit props=C02,C08,C12,C01 tier=quick kind=unbounded timeout=300 funcs="<Residual as BitRepr>::write" stubs="BitSink::{write_lsbs, write_zeros, write_msbs} -> append-only ideal bit string contracts [C11 Kani units]; try_repeat! -> its loop semantics [Kani unit c08_try_repeat_semantics]; Residual accessors -> the fields" note="`try_repeat!(i to N; while C => { B })` is replaced by `{ let mut i = 0; while i < N && C { B; i += 1; } }` and the two `?` of its closure body + the trailing `.map_err(F)?` by `match .. Err(e) => return Err(F(e))` (closures passed to generic helpers are outside Verus; the macro itself is checked against this loop semantics by Kani); constant RESIDUAL_WRITE_UNROLL_N copied from the source"
// The innermost writer, for ANY block size, partition order and warm-up, against an ABSTRACT
// fallible sink:
//   C02/C01  RESIDUAL = 00 ++ order:4 ++ for each partition p: parameter:4 ++ for each coded sample t of
//            the partition (the first partition is shortened by the warm-up): q[t] zeros ++ the p+1
//            leading bits of ((r[t] | 2^p) << (31 - p))   -- i.e. a one and the p remainder bits
//            (RFC 9639 9.2.7; that word identity is Kani unit c01_rice_code_word);
//   C12      a sink error is returned as Err and the sink content stays a prefix of the correct bits;
//   C08      (see unit residual_count) the length of these bits is count_bits().
use vstd::prelude::*;
verus! {

pub open spec fn zeros(n: nat) -> Seq<bool> {
    Seq::new(n, |i: int| false)
}

pub open spec fn is_prefix(a: Seq<bool>, b: Seq<bool>) -> bool {
    a.len() <= b.len() && b.subrange(0, a.len() as int) == a
}

pub proof fn lemma_prefix_refl(a: Seq<bool>)
    ensures
        is_prefix(a, a),
{
    assert(a.subrange(0, a.len() as int) =~= a);
}

pub proof fn lemma_prefix_append(a: Seq<bool>, b: Seq<bool>)
    ensures
        is_prefix(a, a + b),
{
    assert((a + b).subrange(0, a.len() as int) =~= a);
}

pub proof fn lemma_prefix_trans(a: Seq<bool>, b: Seq<bool>, c: Seq<bool>)
    requires
        is_prefix(a, b),
        is_prefix(b, c),
    ensures
        is_prefix(a, c),
{
    assert(c.subrange(0, a.len() as int) =~= c.subrange(0, b.len() as int).subrange(0, a.len() as int));
}

/// the `n` low bits of v, MSB first
pub uninterp spec fn lsbs_bits(v: int, n: nat) -> Seq<bool>;
/// the `n` most significant bits of the 32-bit word v, MSB first
pub uninterp spec fn msbs32_bits(v: u32, n: nat) -> Seq<bool>;

pub struct RangeError {
    pub dummy: u8,
}

pub enum OutputError<S: BitSink> {
    Range(RangeError),
    Sink(S::Error),
}

impl<S: BitSink> OutputError<S> {
    pub fn from_sink(e: S::Error) -> (r: Self)
        ensures
            r is Sink,
    {
        OutputError::Sink(e)
    }
}

pub trait UBits: Copy {
    spec fn as_int(self) -> int;
}

impl UBits for u8 {
    open spec fn as_int(self) -> int {
        self as int
    }
}

impl UBits for u32 {
    open spec fn as_int(self) -> int {
        self as int
    }
}

/// per-operation contracts of a user sink (C11): append-only, exact on Ok, a prefix on Err
pub trait BitSink: Sized {
    type Error: std::fmt::Debug;

    spec fn bits(&self) -> Seq<bool>;

    fn write_lsbs<T: UBits>(&mut self, val: T, n: usize) -> (r: Result<(), Self::Error>)
        requires
            n <= 32,
        ensures
            is_prefix(old(self).bits(), final(self).bits()),
            is_prefix(final(self).bits(), old(self).bits() + lsbs_bits(val.as_int(), n as nat)),
            r is Ok ==> final(self).bits() == old(self).bits() + lsbs_bits(val.as_int(), n as nat),
    ;

    fn write_zeros(&mut self, n: usize) -> (r: Result<(), Self::Error>)
        ensures
            is_prefix(old(self).bits(), final(self).bits()),
            is_prefix(final(self).bits(), old(self).bits() + zeros(n as nat)),
            r is Ok ==> final(self).bits() == old(self).bits() + zeros(n as nat),
    ;

    /// `write_msbs::<u32>`
    fn write_msbs(&mut self, val: u32, n: usize) -> (r: Result<(), Self::Error>)
        requires
            n <= 32,
        ensures
            is_prefix(old(self).bits(), final(self).bits()),
            is_prefix(final(self).bits(), old(self).bits() + msbs32_bits(val, n as nat)),
            r is Ok ==> final(self).bits() == old(self).bits() + msbs32_bits(val, n as nat),
    ;
}

/// `std::cmp::max` as imported by bitrepr.rs (`use std::cmp::max;`), at the type it is used at; the
/// body is literally the std call
#[verifier::external_body]
pub fn max(a: usize, b: usize) -> (r: usize)
    ensures
        r == (if a >= b { a } else { b }),
{
    std::cmp::max(a, b)
}

//@const file=src/component/bitrepr.rs name=RESIDUAL_WRITE_UNROLL_N

pub struct Residual {
    pub partition_order: u8,
    pub block_size: usize,
    pub warmup_length: usize,
    pub rice_params: Vec<u8>,
    pub quotients: Vec<u32>,
    pub remainders: Vec<u32>,
}

/// the Rice code of (quotient, remainder) under parameter p as the writer emits it
pub open spec fn rice_code(q: u32, r: u32, p: u8) -> Seq<bool> {
    zeros(q as nat) + msbs32_bits((r | (1u32 << p)) << ((32 - (p + 1)) as usize), (p + 1) as nat)
}

impl Residual {
    pub open spec fn part_len(&self) -> int {
        (self.block_size >> (self.partition_order as usize)) as int
    }

    pub open spec fn nparts(&self) -> int {
        (1usize << (self.partition_order as usize)) as int
    }

    pub open spec fn max_int(a: int, b: int) -> int {
        if a >= b { a } else { b }
    }

    /// codes of samples t in [lo, hi) with parameter p
    pub open spec fn codes_from(&self, p: u8, lo: int, hi: int) -> Seq<bool>
        decreases hi - lo,
    {
        if lo >= hi {
            Seq::<bool>::empty()
        } else {
            rice_code(self.quotients@[lo], self.remainders@[lo], p) + self.codes_from(p, lo + 1, hi)
        }
    }

    /// partitions k, k+1, ..
    pub open spec fn parts_from(&self, k: int) -> Seq<bool>
        decreases self.nparts() - k,
    {
        if k >= self.nparts() || k < 0 {
            Seq::<bool>::empty()
        } else {
            lsbs_bits(self.rice_params@[k] as int, 4) + self.codes_from(
                self.rice_params@[k],
                Self::max_int(self.warmup_length as int, k * self.part_len()),
                (k + 1) * self.part_len(),
            ) + self.parts_from(k + 1)
        }
    }

    /// RFC 9639 9.2.7 with the 2-bit coding method 00 and the 4-bit order written as one 6-bit field
    pub open spec fn spec_bits(&self) -> Seq<bool> {
        lsbs_bits(self.partition_order as int, 6) + self.parts_from(0)
    }

    /// structural well-formedness (what `Residual::verify` checks: Kani units c18_residual_verify_gate_*)
    pub open spec fn well_formed(&self) -> bool {
        &&& self.partition_order <= 15
        &&& self.block_size <= 65535
        &&& self.rice_params@.len() == self.nparts()
        &&& self.quotients@.len() == self.block_size
        &&& self.remainders@.len() == self.block_size
        &&& self.nparts() * self.part_len() == self.block_size
        &&& self.warmup_length <= self.part_len()
        &&& forall|j: int| 0 <= j < self.rice_params@.len() ==> #[trigger] self.rice_params@[j] <= 14
    }

    pub fn partition_order(&self) -> (r: usize)
        ensures
            r == self.partition_order as usize,
    {
        self.partition_order as usize
    }

    pub fn block_size(&self) -> (r: usize)
        ensures
            r == self.block_size,
    {
        self.block_size
    }

    pub fn warmup_length(&self) -> (r: usize)
        ensures
            r == self.warmup_length,
    {
        self.warmup_length
    }

    pub fn rice_params(&self) -> (r: &[u8])
        ensures
            r@ == self.rice_params@,
    {
        self.rice_params.as_slice()
    }

    pub fn quotients(&self) -> (r: &[u32])
        ensures
            r@ == self.quotients@,
    {
        self.quotients.as_slice()
    }

    pub fn remainders(&self) -> (r: &[u32])
        ensures
            r@ == self.remainders@,
    {
        self.remainders.as_slice()
    }

//@extract file=src/component/bitrepr.rs impl="impl BitRepr for Residual {" fn="fn write"
//@subst `fn write<S: BitSink>(&self, dest: &mut S) -> Result<(), OutputError<S>> {` => `fn write<S: BitSink>(&self, dest: &mut S) -> (res: Result<(), OutputError<S>>) {`
//@subst `try_repeat!(\n                offset to RESIDUAL_WRITE_UNROLL_N;\n                while ` => `{ let mut offset: usize = 0;\n                while offset < RESIDUAL_WRITE_UNROLL_N && `
//@subst ` => {\n` => ` {\n`
//@subst `dest.write_zeros(q)?;` => `match dest.write_zeros(q) { Ok(_) => {}, Err(e) => { return Err(OutputError::<S>::from_sink(e)); } }`
//@subst `dest.write_msbs(r_plus_startbit, rice_p_plus_1)?;` => `match dest.write_msbs(r_plus_startbit, rice_p_plus_1) { Ok(_) => {}, Err(e) => { return Err(OutputError::<S>::from_sink(e)); } }`
//@subst `Ok::<(), S::Error>(())\n                }\n            )\n            .map_err(OutputError::<S>::from_sink)?;` => `offset += 1;\n                } }`
//@sig
//|     requires
//|         self.well_formed(),
//|     ensures
//|         is_prefix(old(dest).bits(), final(dest).bits()),
//|         is_prefix(final(dest).bits(), old(dest).bits() + self.spec_bits()),
//|         res is Ok ==> final(dest).bits() == old(dest).bits() + self.spec_bits(),
//@before `dest.write_lsbs(self.partition_order() as u32, 6)`
//|     let ghost d0 = dest.bits();
//|     let ghost hdr = lsbs_bits(self.partition_order as int, 6);
//|     proof {
//|         lemma_prefix_refl(d0);
//|         lemma_prefix_via(d0, d0);
//|         lemma_prefix_append(d0, hdr);
//|         lemma_order_facts(self.partition_order, self.block_size);
//|         assert forall|x: Seq<bool>| is_prefix(x, d0 + hdr) implies is_prefix(x, d0 + self.spec_bits()) by {
//|             assert(d0 + self.spec_bits() =~= (d0 + hdr) + self.parts_from(0));
//|             lemma_prefix_append(d0 + hdr, self.parts_from(0));
//|             lemma_prefix_trans(x, d0 + hdr, (d0 + hdr) + self.parts_from(0));
//|         }
//|     }
//@loop 1
//|         invariant
//|             self.well_formed(),
//|             nparts == self.nparts(),
//|             part_len == self.part_len(),
//|             0 <= p <= nparts,
//|             offset == p * part_len,
//|             d0 == old(dest).bits(),
//|             is_prefix(d0, dest.bits()),
//|             dest.bits() + self.parts_from(p as int) == d0 + self.spec_bits(),
//|         decreases nparts - p,
//@loopbody 1
//|             let ghost b0 = dest.bits();
//|             let ghost pk = self.rice_params@[p as int];
//|             let ghost lo = Self::max_int(self.warmup_length as int, p * self.part_len());
//|             let ghost hi = (p + 1) * self.part_len();
//|             let ghost tailp = self.parts_from(p + 1);
//|             let ghost pb = lsbs_bits(pk as int, 4);
//|             proof {
//|                 assert((p + 1) * part_len == p * part_len + part_len) by (nonlinear_arith);
//|                 assert((p + 1) * part_len <= nparts * part_len) by (nonlinear_arith)
//|                     requires p + 1 <= nparts, part_len >= 0;
//|                 assert(self.parts_from(p as int) == pb + self.codes_from(pk, lo, hi) + tailp);
//|                 assert(b0 + (pb + (self.codes_from(pk, lo, hi) + tailp)) =~= b0 + ((pb + self.codes_from(pk, lo, hi)) + tailp));
//|                 lemma_state(b0, pb, self.codes_from(pk, lo, hi) + tailp, d0 + self.spec_bits());
//|                 lemma_prefix_via(d0, b0);
//|                 lemma_prefix_append(b0, pb);
//|                 lemma_shift_facts(pk);
//|                 assert(self.warmup_length <= part_len);
//|                 assert(lo <= hi);
//|             }
//@loop 2
//|             invariant
//|                 self.well_formed(),
//|                 nparts == self.nparts(),
//|                 part_len == self.part_len(),
//|                 0 <= p < nparts,
//|                 rice_p == pk,
//|                 pk == self.rice_params@[p as int],
//|                 pk <= 14,
//|                 startbit == (1u32 << pk),
//|                 rice_p_plus_1 == pk + 1,
//|                 end == hi,
//|                 hi == (p + 1) * part_len,
//|                 hi <= self.block_size,
//|                 lo <= t0,
//|                 0 <= lo,
//|                 tailp == self.parts_from(p + 1),
//|                 d0 == old(dest).bits(),
//|                 is_prefix(d0, dest.bits()),
//|                 dest.bits() + (self.codes_from(pk, if t0 < hi { t0 as int } else { hi }, hi) + tailp) == d0 + self.spec_bits(),
//|                 t0 <= hi + 4,
//|             decreases hi + 4 - t0,
//@loop 3
//|                     invariant
//|                         self.well_formed(),
//|                         0 <= p < self.nparts(),
//|                         pk == self.rice_params@[p as int],
//|                         pk <= 14,
//|                         startbit == (1u32 << pk),
//|                         rice_p_plus_1 == pk + 1,
//|                         end == hi,
//|                         hi <= self.block_size,
//|                         0 <= lo <= t0 < hi,
//|                         offset <= RESIDUAL_WRITE_UNROLL_N,
//|                         t0 + offset <= hi,
//|                         tailp == self.parts_from(p + 1),
//|                         d0 == old(dest).bits(),
//|                         is_prefix(d0, dest.bits()),
//|                         dest.bits() + (self.codes_from(pk, t0 + offset, hi) + tailp) == d0 + self.spec_bits(),
//|                     decreases RESIDUAL_WRITE_UNROLL_N - offset,
//@loopbody 3
//|                         let ghost b1 = dest.bits();
//|                         let ghost tt = (t0 + offset) as int;
//|                         let ghost zq = zeros(self.quotients@[tt] as nat);
//|                         let ghost wd = msbs32_bits((self.remainders@[tt] | (1u32 << pk)) << ((32 - (pk + 1)) as usize), (pk + 1) as nat);
//|                         let ghost rest = self.codes_from(pk, tt + 1, hi) + tailp;
//|                         proof {
//|                             assert(self.codes_from(pk, tt, hi) == rice_code(self.quotients@[tt], self.remainders@[tt], pk) + self.codes_from(pk, tt + 1, hi));
//|                             assert(self.codes_from(pk, tt, hi) + tailp =~= zq + (wd + rest));
//|                             assert(b1 + (zq + (wd + rest)) =~= b1 + (self.codes_from(pk, tt, hi) + tailp));
//|                             lemma_state(b1, zq, wd + rest, d0 + self.spec_bits());
//|                             lemma_state(b1 + zq, wd, rest, d0 + self.spec_bits());
//|                             lemma_prefix_via(d0, b1);
//|                             lemma_prefix_append(b1, zq);
//|                             lemma_prefix_via(d0, b1 + zq);
//|                             lemma_prefix_append(b1 + zq, wd);
//|                         }
//@afterloop 2
//|             proof {
//|                 assert(self.codes_from(pk, hi, hi) =~= Seq::<bool>::empty());
//|                 assert(Seq::<bool>::empty() + tailp =~= tailp);
//|             }
//@afterloop 1
//|     proof {
//|         assert(self.parts_from(nparts as int) =~= Seq::<bool>::empty());
//|         assert(dest.bits() + Seq::<bool>::empty() =~= dest.bits());
//|         lemma_prefix_refl(d0 + self.spec_bits());
//|     }
//@end

}

/// If  b ++ x ++ rest == total  then: whatever is a prefix of b ++ x is a prefix of total, and b
/// is a prefix of anything b ++ x is a prefix of  (the two facts every append step needs).
pub proof fn lemma_state(b: Seq<bool>, x: Seq<bool>, rest: Seq<bool>, total: Seq<bool>)
    requires
        b + (x + rest) == total,
    ensures
        (b + x) + rest == total,
        forall|y: Seq<bool>| is_prefix(y, b + x) ==> is_prefix(y, total),
        forall|y: Seq<bool>| is_prefix(b + x, y) ==> is_prefix(b, y),
{
    assert((b + x) + rest =~= b + (x + rest));
    lemma_prefix_append(b + x, rest);
    lemma_prefix_append(b, x);
    assert forall|y: Seq<bool>| is_prefix(y, b + x) implies is_prefix(y, total) by {
        lemma_prefix_trans(y, b + x, (b + x) + rest);
    }
    assert forall|y: Seq<bool>| is_prefix(b + x, y) implies is_prefix(b, y) by {
        lemma_prefix_trans(b, b + x, y);
    }
}

/// transitivity packaged for "everything that extends b extends d0"
pub proof fn lemma_prefix_via(d0: Seq<bool>, b: Seq<bool>)
    requires
        is_prefix(d0, b),
    ensures
        forall|y: Seq<bool>| is_prefix(b, y) ==> is_prefix(d0, y),
{
    assert forall|y: Seq<bool>| is_prefix(b, y) implies is_prefix(d0, y) by {
        lemma_prefix_trans(d0, b, y);
    }
}

pub proof fn lemma_order_facts(order: u8, n: usize)
    requires
        order <= 15,
    ensures
        (order as usize) < 64,
        (1usize << (order as usize)) >= 1,
        (1usize << (order as usize)) <= 32768,
{
    let o = order as usize;
    assert(o <= 15 ==> (1usize << o) >= 1 && (1usize << o) <= 32768) by (bit_vector);
}

pub proof fn lemma_shift_facts(p: u8)
    requires
        p <= 14,
    ensures
        p < 32,
        p + 1 <= 32,
        32 - (p + 1) < 32,
{
}

} // verus!
fn main() {}
