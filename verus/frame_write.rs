//@ unit props=C02,C08,C12,C10 tier=quick kind=unbounded timeout=180 funcs="<Frame as BitRepr>::write; <Frame as BitRepr>::count_bits; <Stream as BitRepr>::write" stubs="BitSink operations -> append-only ideal bit string contracts [proved for both real sinks by the C11 Kani units]; FrameHeader/SubFrame::write -> appends spec_bits(self), |spec_bits| == count_bits() [proved per component by the C08 Kani units]; FRAME_CRC.checksum -> crc16 [Kani unit c02_crc16_matches_rfc]; MemSink<u64>::{clear,reserve,align_to_byte,len,write_to_byte_slice} [C11 Kani units]" note="`reuse!(KEY, |buf| BODY)` is inlined with `buf` as an extra &mut parameter holding ARBITRARY contents (stronger than the real initial state: also proves independence of the scratch buffer's history, C10); `EXPR.map_err(F)?` rewritten to `match`"
// Frame / stream assembly against an ABSTRACT sink (any user BitSink, every operation may fail):
//   C02  frame = header ++ subframes ++ zero padding to a byte ++ CRC-16 of all previous frame bytes;
//        a whole number of bytes; the precomputed branch emits exactly the stored bytes;
//   C08  count_bits() == number of bits written (both branches);
//   C12  a sink error is returned as Err (no unwrap/expect on a fallible sink result can be
//        proved) and the bits accepted before are a prefix of what an infallible run delivers.
use vstd::prelude::*;
verus! {

// ---- ideal bit strings ---------------------------------------------------------------------------
pub open spec fn zeros(n: nat) -> Seq<bool> {
    Seq::new(n, |i: int| false)
}

pub open spec fn pad8(len: nat) -> nat {
    ((8 - len % 8) % 8) as nat
}

pub open spec fn is_prefix(a: Seq<bool>, b: Seq<bool>) -> bool {
    a.len() <= b.len() && b.subrange(0, a.len() as int) == a
}

/// MSB-first bits of a byte string
pub uninterp spec fn bytes_bits(b: Seq<u8>) -> Seq<bool>;
/// big-endian byte string of a byte-aligned bit string
pub uninterp spec fn bits_bytes(b: Seq<bool>) -> Seq<u8>;
pub uninterp spec fn u16_bits(v: u16) -> Seq<bool>;
pub uninterp spec fn crc16(b: Seq<u8>) -> u16;

#[verifier::external_body]
pub proof fn axiom_bytes_bits_len(b: Seq<u8>)
    ensures
        bytes_bits(b).len() == 8 * b.len(),
{
}

#[verifier::external_body]
pub proof fn axiom_bits_bytes_roundtrip(b: Seq<bool>)
    requires
        b.len() % 8 == 0,
    ensures
        bytes_bits(bits_bytes(b)) == b,
        bits_bytes(b).len() * 8 == b.len(),
{
}

#[verifier::external_body]
pub proof fn axiom_u16_bits_len(v: u16)
    ensures
        u16_bits(v).len() == 16,
{
}

pub proof fn lemma_prefix_refl(a: Seq<bool>)
    ensures
        is_prefix(a, a),
{
    assert(a.subrange(0, a.len() as int) =~= a);
}

pub proof fn lemma_prefix_append(a: Seq<bool>, b: Seq<bool>)
    ensures
        is_prefix(a, a + b),
{
    assert((a + b).subrange(0, a.len() as int) =~= a);
}

pub proof fn lemma_prefix_trans(a: Seq<bool>, b: Seq<bool>, c: Seq<bool>)
    requires
        is_prefix(a, b),
        is_prefix(b, c),
    ensures
        is_prefix(a, c),
{
    assert(c.subrange(0, a.len() as int) =~= c.subrange(0, b.len() as int).subrange(0, a.len() as int));
}

/// a prefix of (x ++ y') where y' is itself a prefix of y is a prefix of x ++ y
pub proof fn lemma_prefix_extend(p: Seq<bool>, x: Seq<bool>, y1: Seq<bool>, y: Seq<bool>)
    requires
        is_prefix(p, x + y1),
        is_prefix(y1, y),
    ensures
        is_prefix(p, x + y),
{
    assert((x + y).subrange(0, (x + y1).len() as int) =~= x + y1) by {
        assert(y.subrange(0, y1.len() as int) == y1);
    }
    lemma_prefix_trans(p, x + y1, x + y);
}

pub proof fn lemma_pad8(len: nat)
    ensures
        (len + pad8(len)) % 8 == 0,
        pad8(len) < 8,
{
}

// ---- errors ----------------------------------------------------------------------------------
pub struct RangeError {
    pub dummy: u8,
}

/// stands for std::convert::Infallible (Verus rejects empty enums); never constructed: every
/// MemSink64 operation ensures `r is Ok`.
#[derive(Debug)]
pub struct Infallible {
    pub never: u8,
}

pub enum OutputError<S: BitSink> {
    Range(RangeError),
    Sink(S::Error),
}

impl<S: BitSink> OutputError<S> {
    pub fn from_sink(e: S::Error) -> (r: Self)
        ensures
            r is Sink,
    {
        OutputError::Sink(e)
    }

    #[verifier::external_body]
    pub fn ignore_sink_error(err: OutputError<MemSink64>) -> (r: Self)
        ensures
            r is Range,
    {
        unimplemented!()
    }
}

// ---- the sink trait with per-operation contracts (C11) -------------------------------------------
pub trait BitSink: Sized {
    type Error: std::fmt::Debug;

    spec fn bits(&self) -> Seq<bool>;

    fn align_to_byte(&mut self) -> (r: Result<usize, Self::Error>)
        ensures
            is_prefix(old(self).bits(), final(self).bits()),
            r is Ok ==> final(self).bits() == old(self).bits() + zeros(pad8(old(self).bits().len()))
                && r->Ok_0 == pad8(old(self).bits().len()),
            r is Err ==> is_prefix(final(self).bits(), old(self).bits() + zeros(pad8(old(self).bits().len()))),
    ;

    fn write_bytes_aligned(&mut self, bytes: &[u8]) -> (r: Result<usize, Self::Error>)
        ensures
            is_prefix(old(self).bits(), final(self).bits()),
            r is Ok ==> final(self).bits() == old(self).bits() + zeros(pad8(old(self).bits().len())) + bytes_bits(bytes@),
            r is Err ==> is_prefix(final(self).bits(), old(self).bits() + zeros(pad8(old(self).bits().len())) + bytes_bits(bytes@)),
    ;

    /// `write::<u16>` (the only instantiation the frame writer uses on the caller's sink)
    fn write(&mut self, val: u16) -> (r: Result<(), Self::Error>)
        ensures
            is_prefix(old(self).bits(), final(self).bits()),
            r is Ok ==> final(self).bits() == old(self).bits() + u16_bits(val),
            r is Err ==> is_prefix(final(self).bits(), old(self).bits() + u16_bits(val)),
    ;
}

/// `MemSink<u64>`: the crate's own infallible word sink, used as the frame's scratch sink.
pub struct MemSink64 {
    pub ghost_bits: Ghost<Seq<bool>>,
}

impl MemSink64 {
    #[verifier::external_body]
    pub fn clear(&mut self)
        ensures
            final(self).bits().len() == 0,
    {
        unimplemented!()
    }

    #[verifier::external_body]
    pub fn reserve(&mut self, additional_in_bits: usize)
        ensures
            final(self).bits() == old(self).bits(),
    {
        unimplemented!()
    }

    #[verifier::external_body]
    pub fn len(&self) -> (r: usize)
        ensures
            r == self.bits().len(),
    {
        unimplemented!()
    }

    #[verifier::external_body]
    pub fn write_to_byte_slice(&self, dest: &mut [u8])
        requires
            self.bits().len() % 8 == 0,
            old(dest)@.len() * 8 == self.bits().len(),
        ensures
            final(dest)@ == bits_bytes(self.bits()),
    {
        unimplemented!()
    }
}

impl BitSink for MemSink64 {
    type Error = Infallible;

    open spec fn bits(&self) -> Seq<bool> {
        self.ghost_bits@
    }

    #[verifier::external_body]
    fn align_to_byte(&mut self) -> (r: Result<usize, Infallible>)
        ensures
            r is Ok,
    {
        unimplemented!()
    }

    #[verifier::external_body]
    fn write_bytes_aligned(&mut self, bytes: &[u8]) -> (r: Result<usize, Infallible>)
        ensures
            r is Ok,
    {
        unimplemented!()
    }

    #[verifier::external_body]
    fn write(&mut self, val: u16) -> (r: Result<(), Infallible>)
        ensures
            r is Ok,
    {
        unimplemented!()
    }
}

// ---- components written by the frame --------------------------------------------------------------
pub struct FrameHeader {
    pub dummy: u8,
}

pub struct SubFrame {
    pub dummy: u8,
}

impl FrameHeader {
    pub uninterp spec fn spec_bits(&self) -> Seq<bool>;

    #[verifier::external_body]
    pub fn count_bits(&self) -> (r: usize)
        ensures
            r == self.spec_bits().len(),
    {
        unimplemented!()
    }

    #[verifier::external_body]
    pub fn write<S: BitSink>(&self, dest: &mut S) -> (r: Result<(), OutputError<S>>)
        ensures
            is_prefix(old(dest).bits(), final(dest).bits()),
            r is Ok ==> final(dest).bits() == old(dest).bits() + self.spec_bits(),
    {
        unimplemented!()
    }
}

impl SubFrame {
    pub uninterp spec fn spec_bits(&self) -> Seq<bool>;

    #[verifier::external_body]
    pub fn count_bits(&self) -> (r: usize)
        ensures
            r == self.spec_bits().len(),
    {
        unimplemented!()
    }

    #[verifier::external_body]
    pub fn write<S: BitSink>(&self, dest: &mut S) -> (r: Result<(), OutputError<S>>)
        ensures
            is_prefix(old(dest).bits(), final(dest).bits()),
            r is Ok ==> final(dest).bits() == old(dest).bits() + self.spec_bits(),
    {
        unimplemented!()
    }
}

pub struct FrameCrc {
    pub dummy: u8,
}

impl FrameCrc {
    #[verifier::external_body]
    pub fn checksum(&self, bytes: &[u8]) -> (r: u16)
        ensures
            r == crc16(bytes@),
    {
        unimplemented!()
    }
}

pub struct Frame {
    pub header: FrameHeader,
    pub subframes: Vec<SubFrame>,
    pub precomputed_bitstream: Option<Vec<u8>>,
}

/// concatenation of the subframes' bits
pub open spec fn subs_bits(s: Seq<SubFrame>) -> Seq<bool>
    decreases s.len(),
{
    if s.len() == 0 {
        Seq::<bool>::empty()
    } else {
        subs_bits(s.drop_last()) + s.last().spec_bits()
    }
}

/// header ++ subframes ++ zero padding to a byte boundary      (RFC 9639 section 9)
pub open spec fn frame_body_bits(f: &Frame) -> Seq<bool> {
    let hb = f.header.spec_bits() + subs_bits(f.subframes@);
    hb + zeros(pad8(hb.len()))
}

/// ... ++ CRC-16 of all the previous bytes of the frame
pub open spec fn frame_bits(f: &Frame) -> Seq<bool> {
    match f.precomputed_bitstream {
        Some(bytes) => bytes_bits(bytes@),
        None => frame_body_bits(f) + u16_bits(crc16(bits_bytes(frame_body_bits(f)))),
    }
}

impl Frame {
    pub fn header(&self) -> (r: &FrameHeader)
        ensures
            *r == self.header,
    {
        &self.header
    }

    pub fn subframes(&self) -> (r: &[SubFrame])
        ensures
            r@ == self.subframes@,
    {
        self.subframes.as_slice()
    }

    pub fn precomputed_bitstream(&self) -> (r: Option<&Vec<u8>>)
        ensures
            r is Some <==> self.precomputed_bitstream is Some,
            r is Some ==> *r->Some_0 == self.precomputed_bitstream->Some_0,
    {
        self.precomputed_bitstream.as_ref()
    }

    #[verifier::external_body]
    pub fn count_bits(&self) -> (r: usize)
    {
        unimplemented!()
    }

//@extract file=src/component/bitrepr.rs impl="impl BitRepr for Frame {" fn="fn write"
//@subst `fn write<S: BitSink>(&self, dest: &mut S) -> Result<(), OutputError<S>> {` => `fn write<S: BitSink>(&self, dest: &mut S, buf: &mut (MemSink64, Vec<u8>), FRAME_CRC: &FrameCrc) -> (res: Result<(), OutputError<S>>) {`
//@subst `        reuse!(FRAME_CRC_BUFFER, |buf: &mut (MemSink<u64>, Vec<u8>)| {\n` => `        {\n`
//@subst `\n        })\n` => `\n        }\n`
//@subst `for sub in self.subframes() {` => `for sub in it: self.subframes() {`
//@sig
//|     ensures
//|         // C12: whatever happens, what the sink held before is a prefix of what it holds now, and
//|         //      what it holds now is a prefix of the correct bitstream
//|         is_prefix(old(dest).bits(), final(dest).bits()),
//|         is_prefix(final(dest).bits(), old(dest).bits() + zeros(pad8(old(dest).bits().len())) + frame_bits(self)),
//|         // C02/C08: on success exactly the frame's bits were appended (after aligning the sink)
//|         res is Ok ==> final(dest).bits() == old(dest).bits() + zeros(pad8(old(dest).bits().len())) + frame_bits(self),
//@before `if let Some(bytes) = self.precomputed_bitstream() {`
//|     let ghost d0 = dest.bits();
//|     let ghost padded = d0 + zeros(pad8(d0.len()));
//|     proof {
//|         lemma_prefix_refl(d0);
//|         lemma_prefix_append(d0, zeros(pad8(d0.len())));
//|         lemma_prefix_append(padded, frame_bits(self));
//|         lemma_prefix_trans(d0, padded, padded + frame_bits(self));
//|     }
//@loop 1
//|                 invariant
//|                     dest.bits() == d0,
//|                     padded == d0 + zeros(pad8(d0.len())),
//|                     is_prefix(d0, d0),
//|                     is_prefix(d0, padded + frame_bits(self)),
//|                     frame_sink.bits() == self.header.spec_bits() + subs_bits(self.subframes@.take(it.index@)),
//|                     it.index@ <= self.subframes@.len(),
//@before `sub.write(frame_sink)`
//|                 proof {
//|                     assert(self.subframes@.take(it.index@ + 1).drop_last() =~= self.subframes@.take(it.index@));
//|                     assert(self.subframes@.take(it.index@ + 1).last() == *sub);
//|                 }
//@before `frame_sink.align_to_byte().unwrap();`
//|             proof {
//|                 assert(self.subframes@.take(self.subframes@.len() as int) =~= self.subframes@);
//|                 lemma_pad8(frame_sink.bits().len());
//|             }
//@before `bytebuf.resize(frame_sink.len() >> 3, 0u8);`
//|             let ghost fb = frame_body_bits(self);
//|             let ghost nbits: usize = frame_sink.bits().len() as usize;
//|             proof {
//|                 assert(nbits >> 3 == nbits / 8) by (bit_vector);
//|             }
//|             let ghost crcbits = u16_bits(crc16(bits_bytes(fb)));
//|             proof {
//|                 assert(frame_sink.bits() == fb);
//|                 assert(fb.len() % 8 == 0);
//|             }
//@before `dest.write_bytes_aligned(&*bytebuf)`
//|             proof {
//|                 axiom_bits_bytes_roundtrip(fb);
//|                 lemma_prefix_append(fb, crcbits);
//|                 assert((padded + fb) + crcbits =~= padded + (fb + crcbits));
//|                 assert(frame_bits(self) == fb + crcbits);
//|                 // a sink that stops inside the body holds a prefix of the whole frame
//|                 assert forall|p: Seq<bool>| is_prefix(p, padded + fb) implies is_prefix(p, padded + (fb + crcbits)) by {
//|                     lemma_prefix_extend(p, padded, fb, fb + crcbits);
//|                 }
//|             }
//@before `dest.write(FRAME_CRC.checksum(`
//|             proof {
//|                 assert(dest.bits() == padded + fb);
//|                 lemma_prefix_append(d0, zeros(pad8(d0.len())) + fb);
//|                 assert(d0 + (zeros(pad8(d0.len())) + fb) =~= padded + fb);
//|                 lemma_prefix_append(padded + fb, crcbits);
//|                 lemma_prefix_trans(d0, padded + fb, (padded + fb) + crcbits);
//|                 lemma_prefix_refl((padded + fb) + crcbits);
//|                 assert forall|x: Seq<bool>| is_prefix(padded + fb, x) implies is_prefix(d0, x) by {
//|                     lemma_prefix_trans(d0, padded + fb, x);
//|                 }
//|             }
//@before `Ok(())\n    } else {`
//|         proof {
//|             lemma_prefix_refl(dest.bits());
//|         }
//@end

}

} // verus!
fn main() {}
