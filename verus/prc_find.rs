//@ unit props=C13 tier=quick kind=unbounded timeout=240 funcs="rice::PrcParameterFinder::find" stubs="finest_partition_order -> Kani contract c02_finest_partition_order_contract; PrcBitTable::from_errors -> cost table of the partition [Kani c13_from_errors_*]; eval_partitions -> sum of per-table minima and their parameters [PrcBitTable::minimizer: Kani c13_minimizer_argmin]; merge_partitions -> pairwise merge, halves the count [PrcBitTable::merge: Kani c13_merge_exact_or_saturated]" note="the zig-zag folding statement `unaligned_map_and_update(..closures..)` and the final `iter().map().collect()` are replaced by external_body wrappers whose bodies are literally those statements (closures passed to generic helpers are outside Verus); `1 << (order as i32)` related to 2^order by bit_vector case analysis"
// C13, the search itself, for ANY number of partitions: `find` evaluates EVERY partition order from
// the finest admissible one down to 0 (no order is skipped or pruned), returns the cheapest
// (ties: the finer one), `code_bits` is exactly that order's cost and the parameters are that
// order's per-partition minimisers.
use vstd::prelude::*;
verus! {

pub open spec fn pow2(p: nat) -> nat
    decreases p,
{
    if p == 0 { 1 } else { 2 * pow2((p - 1) as nat) }
}

/// abstract cost table (16 lanes in the code); only its minimiser matters here
pub struct PrcBitTable {
    pub dummy: u8,
}

impl PrcBitTable {
    /// (argmin parameter, minimum cost) over parameters <= max_p
    pub uninterp spec fn spec_min_p(&self, max_p: usize) -> usize;
    pub uninterp spec fn spec_min_bits(&self, max_p: usize) -> nat;
    /// the table of the union of two neighbouring partitions
    pub uninterp spec fn spec_merge(&self, other: &PrcBitTable) -> PrcBitTable;

    #[verifier::external_body]
    pub fn from_errors(errors: &[u32], offset: usize) -> (r: Self)
        ensures
            r == spec_table_of(errors@),
    {
        unimplemented!()
    }
}

pub uninterp spec fn spec_table_of(errors: Seq<u32>) -> PrcBitTable;

/// cost of coding with one parameter per table: sum of the tables' minima
pub open spec fn level_cost(tables: Seq<PrcBitTable>, max_p: usize) -> nat
    decreases tables.len(),
{
    if tables.len() == 0 { 0 } else { level_cost(tables.drop_last(), max_p) + tables.last().spec_min_bits(max_p) }
}

/// the next coarser level: neighbouring tables merged pairwise
pub open spec fn merge_level(tables: Seq<PrcBitTable>) -> Seq<PrcBitTable> {
    Seq::new((tables.len() / 2) as nat, |i: int| tables[2 * i].spec_merge(&tables[2 * i + 1]))
}

/// the tables `k` levels above the finest ones
pub open spec fn level(finest: Seq<PrcBitTable>, k: nat) -> Seq<PrcBitTable>
    decreases k,
{
    if k == 0 { finest } else { merge_level(level(finest, (k - 1) as nat)) }
}

#[verifier::external_body]
pub fn eval_partitions(tables: &[PrcBitTable], ps: &mut Vec<usize>, max_p: usize) -> (r: usize)
    requires
        old(ps)@.len() >= tables@.len(),
    ensures
        r == level_cost(tables@, max_p),
        final(ps)@.len() == old(ps)@.len(),
        forall|i: int| 0 <= i < tables@.len() ==> #[trigger] final(ps)@[i] == tables@[i].spec_min_p(max_p),
{
    unimplemented!()
}

/// `merge_partitions(&mut tables[0..n])`: the first n/2 entries become the pairwise merges
#[verifier::external_body]
pub fn merge_partitions_prefix(tables: &mut Vec<PrcBitTable>, n: usize) -> (r: usize)
    requires
        n <= old(tables)@.len(),
    ensures
        r == n / 2,
        final(tables)@.len() == old(tables)@.len(),
        final(tables)@.subrange(0, r as int) == merge_level(old(tables)@.subrange(0, n as int)),
{
    unimplemented!()
}

/// the finest admissible partition order (largest o with 2^o | size and size/2^o >= min part)
pub uninterp spec fn spec_finest_order(size: nat, min_part_size: nat) -> nat;

/// zig-zag folding of the residual (rice::encode_signbit per sample)
pub uninterp spec fn spec_fold(s: Seq<i32>) -> Seq<u32>;

pub open spec fn max_nat(a: nat, b: nat) -> nat {
    if a >= b { a } else { b }
}

/// cost tables of the `nparts` finest partitions (the first one shortened by the warm-up)
pub open spec fn finest_tables(errs: Seq<u32>, warmup: nat, nparts: nat) -> Seq<PrcBitTable> {
    let part = errs.len() / nparts;
    Seq::new(nparts, |i: int| spec_table_of(errs.subrange(max_nat((i * part) as nat, warmup) as int, (i + 1) * part)))
}

#[verifier::external_body]
pub fn finest_partition_order(size: usize, min_part_size: usize) -> (o: usize)
    ensures
        o == spec_finest_order(size as nat, min_part_size as nat),
        o <= 15,
        o == 0 || size as nat / pow2(o as nat) >= min_part_size,
{
    unimplemented!()
}

#[verifier::external_body]
pub fn max_usize(a: usize, b: usize) -> (r: usize)
    ensures
        r == (if a >= b { a } else { b }),
{
    std::cmp::max(a, b)
}

/// body: `unaligned_map_and_update::<u32, 64, _, _, _>(signal, errors, |p, x| *p = encode_signbit(x), |pv, v| *pv = encode_signbit_simd(v))`
#[verifier::external_body]
pub fn fold_signbits(signal: &[i32], errors: &mut Vec<u32>)
    requires
        old(errors)@.len() == signal@.len(),
    ensures
        final(errors)@.len() == old(errors)@.len(),
        final(errors)@ == spec_fold(signal@),
{
    unimplemented!()
}

/// body: `min_ps.iter().map(|x| *x as u8).collect()`
#[verifier::external_body]
pub fn to_u8_vec(v: &Vec<usize>) -> (r: Vec<u8>)
    ensures
        r@.len() == v@.len(),
        forall|i: int| 0 <= i < v@.len() ==> #[trigger] r@[i] as usize == v@[i] % 256,
{
    unimplemented!()
}

pub struct PrcParameter {
    pub order: usize,
    pub ps: Vec<u8>,
    pub code_bits: usize,
}

impl PrcParameter {
    pub fn new(order: usize, ps: Vec<u8>, code_bits: usize) -> (r: Self)
        ensures
            r.order == order,
            r.ps == ps,
            r.code_bits == code_bits,
    {
        Self { order, ps, code_bits }
    }
}

pub struct PrcParameterFinder {
    pub errors: Vec<u32>,
    pub tables: Vec<PrcBitTable>,
    pub ps: Vec<usize>,
    pub min_ps: Vec<usize>,
}

pub const MIN_RICE_PARTITION_SIZE: usize = 64;

proof fn lemma_shl_pow2(o: usize)
    requires
        o <= 15,
    ensures
        (1usize << (o as i32)) == pow2(o as nat),
{
    reveal_with_fuel(pow2, 17);
    assert((1usize << 0i32) == 1) by (bit_vector);
    assert((1usize << 1i32) == 2) by (bit_vector);
    assert((1usize << 2i32) == 4) by (bit_vector);
    assert((1usize << 3i32) == 8) by (bit_vector);
    assert((1usize << 4i32) == 16) by (bit_vector);
    assert((1usize << 5i32) == 32) by (bit_vector);
    assert((1usize << 6i32) == 64) by (bit_vector);
    assert((1usize << 7i32) == 128) by (bit_vector);
    assert((1usize << 8i32) == 256) by (bit_vector);
    assert((1usize << 9i32) == 512) by (bit_vector);
    assert((1usize << 10i32) == 1024) by (bit_vector);
    assert((1usize << 11i32) == 2048) by (bit_vector);
    assert((1usize << 12i32) == 4096) by (bit_vector);
    assert((1usize << 13i32) == 8192) by (bit_vector);
    assert((1usize << 14i32) == 16384) by (bit_vector);
    assert((1usize << 15i32) == 32768) by (bit_vector);
}

pub proof fn lemma_pow2_pos(k: nat)
    ensures
        pow2(k) >= 1,
    decreases k,
{
    if k > 0 {
        lemma_pow2_pos((k - 1) as nat);
    }
}

pub proof fn lemma_pow2_bound(k: nat)
    requires
        k <= 15,
    ensures
        1 <= pow2(k) <= 32768,
{
    reveal_with_fuel(pow2, 17);
}

/// partition p of n/parts samples lies inside the block
pub proof fn lemma_part_bounds(n: int, parts: int, p: int)
    requires
        0 <= n,
        1 <= parts,
        0 <= p < parts,
    ensures
        0 <= p * (n / parts) <= (p + 1) * (n / parts) <= n,
        (p + 1) * (n / parts) >= n / parts,
{
    let q = n / parts;
    assert(q >= 0);
    assert(q * parts <= n) by {
        vstd::arithmetic::div_mod::lemma_fundamental_div_mod(n, parts);
        vstd::arithmetic::div_mod::lemma_mod_bound(n, parts);
    }
    assert((p + 1) * q <= parts * q) by (nonlinear_arith)
        requires p + 1 <= parts, q >= 0;
    assert(p * q <= (p + 1) * q) by (nonlinear_arith)
        requires q >= 0;
    assert(0 <= p * q) by (nonlinear_arith)
        requires p >= 0, q >= 0;
    assert(parts * q == q * parts) by (nonlinear_arith);
    assert((p + 1) * q >= q) by (nonlinear_arith)
        requires p >= 0, q >= 0;
}

impl PrcParameterFinder {

//@extract file=src/rice.rs impl="impl PrcParameterFinder {" fn="pub fn find"
//@subst `-> PrcParameter {` => `-> (res: PrcParameter) {`
//@subst `std::cmp::max(MIN_RICE_PARTITION_SIZE, warmup_length)` => `max_usize(MIN_RICE_PARTITION_SIZE, warmup_length)`
//@subst `std::cmp::max(p * part_size, warmup_length)` => `max_usize(p * part_size, warmup_length)`
//@subst `    unaligned_map_and_update::<u32, 64, _, _, _>(\n        signal,\n        &mut self.errors,\n        #[inline]\n        |p, x| {\n            *p = encode_signbit(x);\n        },\n        #[inline]\n        |pv, v| {\n            *pv = encode_signbit_simd(v);\n        },\n    );` => `    fold_signbits(signal, &mut self.errors);`
//@subst `nparts = merge_partitions(&mut self.tables[0..nparts]);` => `nparts = merge_partitions_prefix(&mut self.tables, nparts);`
//@subst `self.min_ps.iter().map(|x| *x as u8).collect(),` => `to_u8_vec(&self.min_ps),`
//@sig
//|     requires
//|         signal@.len() <= 65535,
//|         warmup_length <= signal@.len(),
//|     ensures
//|         // the search space: orders 0..=finest over the cost tables of the finest partitions of
//|         // the folded residual; EVERY order is evaluated and the cheapest (finest on ties) wins
//|         ({
//|             let o0 = spec_finest_order(signal@.len(), max_nat(64, warmup_length as nat));
//|             let finest = finest_tables(spec_fold(signal@), warmup_length as nat, pow2(o0));
//|             &&& o0 <= 15
//|             &&& res.order <= o0
//|             &&& res.code_bits == level_cost(level(finest, (o0 - res.order) as nat), max_p)
//|             &&& (forall|l: nat| l <= o0 ==> res.code_bits <= #[trigger] level_cost(level(finest, (o0 - l) as nat), max_p))
//|             &&& (forall|l: nat| res.order < l <= o0 ==> res.code_bits < #[trigger] level_cost(level(finest, (o0 - l) as nat), max_p))
//|             &&& res.ps@.len() == pow2(res.order as nat)
//|             &&& level(finest, (o0 - res.order) as nat).len() == pow2(res.order as nat)
//|             &&& (forall|i: int| 0 <= i < res.ps@.len() ==> #[trigger] res.ps@[i] as usize
//|                     == level(finest, (o0 - res.order) as nat)[i].spec_min_p(max_p) % 256)
//|         }),
//@after `let mut nparts = 1 << (partition_order as i32);`
//|     let ghost o0: nat = partition_order as nat;
//|     proof {
//|         lemma_shl_pow2(partition_order);
//|         lemma_pow2_bound(o0);
//|     }
//@before `let part_size = signal.len() / nparts;`
//|     proof {
//|         assert(nparts == pow2(o0));
//|     }
//@loop 1
//|         invariant
//|             nparts == pow2(o0),
//|             1 <= nparts <= 32768,
//|             part_size == signal@.len() / nparts as nat,
//|             self.errors@.len() == signal@.len(),
//|             signal@.len() <= 65535,
//|             warmup_length <= signal@.len(),
//|             o0 == 0 || part_size >= warmup_length,
//|             self.tables@.len() == p,
//|             self.min_ps@.len() == nparts,
//|             self.errors@ == spec_fold(signal@),
//|             forall|i: int| 0 <= i < p ==> #[trigger] self.tables@[i]
//|                 == finest_tables(spec_fold(signal@), warmup_length as nat, nparts as nat)[i],
//@before `let start = max_usize(p * part_size, warmup_length);`
//|         proof {
//|             lemma_part_bounds(signal@.len() as int, nparts as int, p as int);
//|         }
//@before `let table = PrcBitTable::from_errors(&self.errors[start..end], 4);`
//|         proof {
//|             assert(end <= self.errors@.len());
//|             assert(o0 == 0 ==> nparts == 1);
//|             assert(part_size <= end);
//|             assert(signal@.len() as int / 1 == signal@.len() as int) by (nonlinear_arith);
//|             assert(o0 == 0 ==> part_size == signal@.len());
//|             assert(o0 != 0 ==> part_size >= warmup_length);
//|             assert(warmup_length <= end);
//|             assert(start <= end);
//|         }
//@before `let mut min_bits = eval_partitions(&self.tables, &mut self.min_ps, max_p);`
//|     let ghost finest = finest_tables(spec_fold(signal@), warmup_length as nat, pow2(o0));
//|     proof {
//|         assert(self.tables@ =~= finest);
//|         assert(level(finest, 0) == finest);
//|         assert(self.tables@.subrange(0, nparts as int) =~= self.tables@);
//|     }
//@loop 2
//|         invariant
//|             o0 <= 15,
//|             partition_order <= o0,
//|             nparts == pow2(partition_order as nat),
//|             nparts <= self.tables@.len(),
//|             self.tables@.len() == pow2(o0),
//|             self.tables@.subrange(0, nparts as int) == level(finest, (o0 - partition_order) as nat),
//|             partition_order <= min_order <= o0,
//|             min_bits == level_cost(level(finest, (o0 - min_order) as nat), max_p),
//|             forall|l: nat| partition_order <= l <= o0 ==> min_bits <= #[trigger] level_cost(level(finest, (o0 - l) as nat), max_p),
//|             forall|l: nat| min_order < l <= o0 ==> min_bits < #[trigger] level_cost(level(finest, (o0 - l) as nat), max_p),
//|             o0 == spec_finest_order(signal@.len(), max_nat(64, warmup_length as nat)),
//|             finest == finest_tables(spec_fold(signal@), warmup_length as nat, pow2(o0)),
//|             self.min_ps@.len() == pow2(min_order as nat),
//|             level(finest, (o0 - min_order) as nat).len() == pow2(min_order as nat),
//|             forall|i: int| 0 <= i < self.min_ps@.len() ==> #[trigger] self.min_ps@[i]
//|                 == level(finest, (o0 - min_order) as nat)[i].spec_min_p(max_p),
//|         decreases nparts,
//@before `nparts = merge_partitions_prefix(&mut self.tables, nparts);`
//|         let ghost cur = self.tables@.subrange(0, nparts as int);
//|         proof {
//|             assert(partition_order >= 1) by {
//|                 if partition_order == 0 {
//|                     assert(pow2(0) == 1);
//|                 }
//|             }
//|             assert(pow2(partition_order as nat) == 2 * pow2((partition_order - 1) as nat));
//|         }
//@after `partition_order -= 1;`
//|         proof {
//|             assert(level(finest, (o0 - partition_order) as nat) == merge_level(level(finest, (o0 - partition_order - 1) as nat)));
//|             assert(self.tables@.subrange(0, nparts as int) == level(finest, (o0 - partition_order) as nat));
//|             assert(merge_level(cur).len() == nparts);
//|         }
//@before `self.min_ps.truncate(1usize << min_order);`
//|     proof {
//|         assert(partition_order == 0) by {
//|             if partition_order > 0 {
//|                 assert(pow2(partition_order as nat) == 2 * pow2((partition_order - 1) as nat));
//|                 lemma_pow2_pos((partition_order - 1) as nat);
//|             }
//|         }
//|         lemma_shl_pow2(min_order);
//|     }
//@end

}

} // verus!
fn main() {}
