//@ unit props=C13 tier=quick kind=unbounded timeout=120 funcs="rice::merge_partitions" stubs="PrcBitTable::merge(_, _, 4) -> the table of the union of two neighbouring partitions [Kani c13_merge_exact_or_saturated]" note="constant MAX_RICE_PARTITIONS restated from src/constant.rs (only bounds the assert)"
// C13: `merge_partitions` for ANY number of tables: entry i of the result is the merge of entries
// 2i and 2i+1 of the input (header offset 4), the returned count is half the input count, and no
// entry is read after it has been overwritten.  This is the callee contract `merge_partitions_prefix`
// that unit prc_find assumes.
use vstd::prelude::*;
verus! {

pub struct PrcBitTable {
    pub dummy: u8,
}

impl PrcBitTable {
    pub uninterp spec fn spec_merge(&self, other: &PrcBitTable) -> PrcBitTable;

    /// callee contract (Kani unit rice::verif::c13_merge_exact_or_saturated, offset = one 4-bit
    /// parameter field saved per merge)
    #[verifier::external_body]
    pub fn merge(&self, other: &Self, offset: usize) -> (r: Self)
        requires
            offset == 4,
        ensures
            r == self.spec_merge(other),
            // the merge is a lane-wise clamped sum: symmetric (same Kani unit)
            self.spec_merge(other) == other.spec_merge(self),
    {
        unimplemented!()
    }
}

pub const MAX_RICE_PARTITIONS: usize = 32768;

pub open spec fn merge_level(tables: Seq<PrcBitTable>) -> Seq<PrcBitTable> {
    Seq::new((tables.len() / 2) as nat, |i: int| tables[2 * i].spec_merge(&tables[2 * i + 1]))
}

//@extract file=src/rice.rs fn="fn merge_partitions"
//@subst `-> usize {` => `-> (r: usize) {`
//@sig
//|     requires
//|         old(tables)@.len() < MAX_RICE_PARTITIONS,
//|     ensures
//|         r == old(tables)@.len() / 2,
//|         final(tables)@.len() == old(tables)@.len(),
//|         final(tables)@.subrange(0, r as int) == merge_level(old(tables)@),
//|         forall|j: int| r <= j < old(tables)@.len() ==> #[trigger] final(tables)@[j] == old(tables)@[j],
//@loop 1
//|         invariant
//|             merged_len == old(tables)@.len() / 2,
//|             old(tables)@.len() < MAX_RICE_PARTITIONS,
//|             tables@.len() == old(tables)@.len(),
//|             forall|i: int| 0 <= i < part_id ==> #[trigger] tables@[i] == old(tables)@[2 * i].spec_merge(&old(tables)@[2 * i + 1]),
//|             forall|j: int| part_id <= j < tables@.len() ==> #[trigger] tables@[j] == old(tables)@[j],
//@before `    merged_len\n}`
//|     proof {
//|         assert(tables@.subrange(0, merged_len as int) =~= merge_level(old(tables)@));
//|     }
//@end

} // verus!
fn main() {}
