//@ unit props=C02,C08,C12 tier=quick kind=unbounded timeout=240 funcs="<Constant as BitRepr>::write; <Verbatim as BitRepr>::write; <FixedLpc as BitRepr>::write; <Lpc as BitRepr>::write" stubs="BitSink::{write, write_lsbs, write_twoc} -> append-only ideal bit string contracts [C11 Kani units]; Residual::write -> appends spec_bits [Kani c08_residual_write_*]" note="`EXPR.map_err(F)?` is accepted as is; bit-level header bytes related to the RFC type codes by bit_vector lemmas"
// Subframe writers against an ABSTRACT fallible sink, for ANY block length / predictor order:
//   C02  CONSTANT = 0000000|0 ++ value;  VERBATIM = 0000001|0 ++ samples;  FIXED = 0001ooo|0 ++ warm-up
//        ++ residual;  LPC = 01ooooo|0 (ooooo = order-1) ++ warm-up ++ (precision-1):4 ++ shift:5 ++
//        coefficients ++ residual      (RFC 9639 9.2.1-9.2.6), every sample as a bps-bit two's complement;
//   C08  the number of bits is the count_bits() formula;
//   C12  a sink error is returned and the sink content stays a prefix of the correct bits.
use vstd::prelude::*;
verus! {

pub open spec fn is_prefix(a: Seq<bool>, b: Seq<bool>) -> bool {
    a.len() <= b.len() && b.subrange(0, a.len() as int) == a
}

pub proof fn lemma_prefix_refl(a: Seq<bool>)
    ensures
        is_prefix(a, a),
{
    assert(a.subrange(0, a.len() as int) =~= a);
}

pub proof fn lemma_prefix_append(a: Seq<bool>, b: Seq<bool>)
    ensures
        is_prefix(a, a + b),
{
    assert((a + b).subrange(0, a.len() as int) =~= a);
}

pub proof fn lemma_prefix_trans(a: Seq<bool>, b: Seq<bool>, c: Seq<bool>)
    requires
        is_prefix(a, b),
        is_prefix(b, c),
    ensures
        is_prefix(a, c),
{
    assert(c.subrange(0, a.len() as int) =~= c.subrange(0, b.len() as int).subrange(0, a.len() as int));
}

/// a prefix of (x ++ y') where y' is itself a prefix of y is a prefix of x ++ y
pub proof fn lemma_prefix_extend(p: Seq<bool>, x: Seq<bool>, y1: Seq<bool>, y: Seq<bool>)
    requires
        is_prefix(p, x + y1),
        is_prefix(y1, y),
    ensures
        is_prefix(p, x + y),
{
    assert((x + y).subrange(0, (x + y1).len() as int) =~= x + y1) by {
        assert(y.subrange(0, y1.len() as int) == y1);
    }
    lemma_prefix_trans(p, x + y1, x + y);
}


/// MSB-first bits of a byte
pub uninterp spec fn byte_bits(v: u8) -> Seq<bool>;
/// the `n` low bits of v, MSB first
pub uninterp spec fn lsbs_bits(v: int, n: nat) -> Seq<bool>;
/// two's complement of v in `n` bits, MSB first
pub uninterp spec fn twoc_bits(v: int, n: nat) -> Seq<bool>;

#[verifier::external_body]
pub proof fn axiom_lengths(b: u8, v: int, n: nat)
    ensures
        byte_bits(b).len() == 8,
        lsbs_bits(v, n).len() == n,
        twoc_bits(v, n).len() == n,
{
}

pub struct RangeError {
    pub dummy: u8,
}

pub enum OutputError<S: BitSink> {
    Range(RangeError),
    Sink(S::Error),
}

impl<S: BitSink> OutputError<S> {
    pub fn from_sink(e: S::Error) -> (r: Self)
        ensures
            r is Sink,
    {
        OutputError::Sink(e)
    }
}

pub trait SignedBits: Copy {
    spec fn as_int(self) -> int;
}

impl SignedBits for i32 {
    open spec fn as_int(self) -> int {
        self as int
    }
}

impl SignedBits for i16 {
    open spec fn as_int(self) -> int {
        self as int
    }
}

impl SignedBits for i8 {
    open spec fn as_int(self) -> int {
        self as int
    }
}

pub trait BitSink: Sized {
    type Error: std::fmt::Debug;

    spec fn bits(&self) -> Seq<bool>;

    /// `write::<u8>`
    fn write(&mut self, val: u8) -> (r: Result<(), Self::Error>)
        ensures
            is_prefix(old(self).bits(), final(self).bits()),
            is_prefix(final(self).bits(), old(self).bits() + byte_bits(val)),
            r is Ok ==> final(self).bits() == old(self).bits() + byte_bits(val),
    ;

    /// `write_lsbs::<u64>`
    fn write_lsbs(&mut self, val: u64, n: usize) -> (r: Result<(), Self::Error>)
        requires
            n <= 64,
        ensures
            is_prefix(old(self).bits(), final(self).bits()),
            is_prefix(final(self).bits(), old(self).bits() + lsbs_bits(val as int, n as nat)),
            r is Ok ==> final(self).bits() == old(self).bits() + lsbs_bits(val as int, n as nat),
    ;

    fn write_twoc<T: SignedBits>(&mut self, val: T, bits_per_sample: usize) -> (r: Result<(), Self::Error>)
        requires
            1 <= bits_per_sample <= 64,
        ensures
            is_prefix(old(self).bits(), final(self).bits()),
            is_prefix(final(self).bits(), old(self).bits() + twoc_bits(val.as_int(), bits_per_sample as nat)),
            r is Ok ==> final(self).bits() == old(self).bits() + twoc_bits(val.as_int(), bits_per_sample as nat),
    ;
}

/// concatenation of the two's-complement codes of a sample sequence
pub open spec fn samples_bits(s: Seq<i32>, bps: nat) -> Seq<bool>
    decreases s.len(),
{
    if s.len() == 0 {
        Seq::<bool>::empty()
    } else {
        samples_bits(s.drop_last(), bps) + twoc_bits(s.last() as int, bps)
    }
}

pub open spec fn coefs_bits(s: Seq<i16>, precision: nat) -> Seq<bool>
    decreases s.len(),
{
    if s.len() == 0 {
        Seq::<bool>::empty()
    } else {
        coefs_bits(s.drop_last(), precision) + twoc_bits(s.last() as int, precision)
    }
}

pub proof fn lemma_samples_bits_len(s: Seq<i32>, bps: nat)
    ensures
        samples_bits(s, bps).len() == s.len() * bps,
    decreases s.len(),
{
    if s.len() > 0 {
        lemma_samples_bits_len(s.drop_last(), bps);
        axiom_lengths(0, s.last() as int, bps);
        assert(s.len() * bps == (s.len() - 1) * bps + bps) by (nonlinear_arith);
    } else {
        assert(0 * bps == 0) by (nonlinear_arith);
    }
}

// ---- components ----------------------------------------------------------------------------------
pub struct Residual {
    pub dummy: u8,
}

impl Residual {
    pub uninterp spec fn spec_bits(&self) -> Seq<bool>;

    #[verifier::external_body]
    pub fn write<S: BitSink>(&self, dest: &mut S) -> (r: Result<(), OutputError<S>>)
        ensures
            is_prefix(old(dest).bits(), final(dest).bits()),
            is_prefix(final(dest).bits(), old(dest).bits() + self.spec_bits()),
            r is Ok ==> final(dest).bits() == old(dest).bits() + self.spec_bits(),
    {
        unimplemented!()
    }
}

pub struct Constant {
    pub block_size: usize,
    pub dc_offset: i32,
    pub bits_per_sample: u8,
}

impl Constant {
    pub fn dc_offset(&self) -> (r: i32)
        ensures
            r == self.dc_offset,
    {
        self.dc_offset
    }

    pub fn bits_per_sample(&self) -> (r: usize)
        ensures
            r == self.bits_per_sample,
    {
        self.bits_per_sample as usize
    }

//@extract file=src/component/bitrepr.rs impl="impl BitRepr for Constant {" fn="fn write"
//@subst `fn write<S: BitSink>(&self, dest: &mut S) -> Result<(), OutputError<S>> {` => `fn write<S: BitSink>(&self, dest: &mut S) -> (res: Result<(), OutputError<S>>) {`
//@sig
//|     requires
//|         1 <= self.bits_per_sample <= 64,
//|     ensures
//|         is_prefix(old(dest).bits(), final(dest).bits()),
//|         is_prefix(final(dest).bits(), old(dest).bits() + (byte_bits(0) + twoc_bits(self.dc_offset as int, self.bits_per_sample as nat))),
//|         res is Ok ==> final(dest).bits() == old(dest).bits() + (byte_bits(0) + twoc_bits(self.dc_offset as int, self.bits_per_sample as nat)),
//@before `dest.write(0u8)`
//|     let ghost d0 = dest.bits();
//|     let ghost h = byte_bits(0);
//|     let ghost body = twoc_bits(self.dc_offset as int, self.bits_per_sample as nat);
//|     proof {
//|         lemma_prefix_refl(d0);
//|         lemma_prefix_append(h, body);
//|         assert forall|x: Seq<bool>| is_prefix(x, d0 + h) implies is_prefix(x, d0 + (h + body)) by {
//|             lemma_prefix_extend(x, d0, h, h + body);
//|         }
//|         assert((d0 + h) + body =~= d0 + (h + body));
//|         lemma_prefix_append(d0, h);
//|         assert forall|x: Seq<bool>| is_prefix(d0 + h, x) implies is_prefix(d0, x) by {
//|             lemma_prefix_trans(d0, d0 + h, x);
//|         }
//|     }
//@end
}

pub struct Verbatim {
    pub data: Vec<i32>,
    pub bits_per_sample: u8,
}

pub open spec fn verbatim_bits(v: &Verbatim) -> Seq<bool> {
    byte_bits(2) + samples_bits(v.data@, v.bits_per_sample as nat)
}

impl Verbatim {
    pub fn samples(&self) -> (r: &[i32])
        ensures
            r@ == self.data@,
    {
        self.data.as_slice()
    }

    pub fn bits_per_sample(&self) -> (r: usize)
        ensures
            r == self.bits_per_sample,
    {
        self.bits_per_sample as usize
    }

//@extract file=src/component/bitrepr.rs impl="impl BitRepr for Verbatim {" fn="fn write"
//@subst `fn write<S: BitSink>(&self, dest: &mut S) -> Result<(), OutputError<S>> {` => `fn write<S: BitSink>(&self, dest: &mut S) -> (res: Result<(), OutputError<S>>) {`
//@sig
//|     requires
//|         1 <= self.bits_per_sample <= 64,
//|     ensures
//|         is_prefix(old(dest).bits(), final(dest).bits()),
//|         is_prefix(final(dest).bits(), old(dest).bits() + verbatim_bits(self)),
//|         res is Ok ==> final(dest).bits() == old(dest).bits() + verbatim_bits(self),
//|         // C08: that is 8 + n * bps bits
//|         verbatim_bits(self).len() == 8 + self.data@.len() * self.bits_per_sample,
//@before `dest.write(0x02u8)`
//|     let ghost d0 = dest.bits();
//|     let ghost h = byte_bits(2);
//|     let ghost bps = self.bits_per_sample as nat;
//|     proof {
//|         lemma_prefix_refl(d0);
//|         lemma_samples_bits_len(self.data@, bps);
//|         axiom_lengths(2, 0, 0);
//|         lemma_samples_prefix(self.data@, bps, 0);
//|         assert(self.data@.take(0) =~= Seq::<i32>::empty());
//|         assert(h + samples_bits(self.data@.take(0), bps) =~= h);
//|         lemma_prefix_app_mono(d0, h, h + samples_bits(self.data@, bps));
//|         assert forall|x: Seq<bool>| is_prefix(x, d0 + h) implies is_prefix(x, d0 + verbatim_bits(self)) by {
//|             lemma_prefix_trans(x, d0 + h, d0 + verbatim_bits(self));
//|         }
//|     }
//@loop 1
//|         invariant
//|             1 <= self.bits_per_sample <= 64,
//|             bps == self.bits_per_sample as nat,
//|             h == byte_bits(2),
//|             i <= self.data@.len(),
//|             dest.bits() == d0 + (h + samples_bits(self.data@.take(i as int), bps)),
//|             d0 == old(dest).bits(),
//|             verbatim_bits(self).len() == 8 + self.data@.len() * self.bits_per_sample,
//@before `dest.write_twoc(self.samples()[i], self.bits_per_sample())`
//|         proof {
//|             let k = i as int;
//|             assert(self.data@.take(k + 1).drop_last() =~= self.data@.take(k));
//|             assert(self.data@.take(k + 1).last() == self.data@[k]);
//|             let cur = h + samples_bits(self.data@.take(k), bps);
//|             let nxt = h + samples_bits(self.data@.take(k + 1), bps);
//|             let t = twoc_bits(self.data@[k] as int, bps);
//|             assert(nxt =~= cur + t);
//|             assert((d0 + cur) + t =~= d0 + nxt);
//|             lemma_samples_prefix(self.data@, bps, k + 1);
//|             lemma_prefix_app_mono(d0, nxt, verbatim_bits(self));
//|             lemma_prefix_append(d0, cur);
//|             assert forall|x: Seq<bool>| is_prefix(d0 + cur, x) implies is_prefix(d0, x) by {
//|                 lemma_prefix_trans(d0, d0 + cur, x);
//|             }
//|             assert forall|x: Seq<bool>| is_prefix(x, (d0 + cur) + t) implies is_prefix(x, d0 + verbatim_bits(self)) by {
//|                 lemma_prefix_trans(x, d0 + nxt, d0 + verbatim_bits(self));
//|             }
//|         }
//@before `Ok(())`
//|     proof {
//|         assert(self.data@.take(self.data@.len() as int) =~= self.data@);
//|         lemma_prefix_append(d0, verbatim_bits(self));
//|         lemma_prefix_refl(d0 + verbatim_bits(self));
//|     }
//@end
}

/// h ++ samples(take k) is a prefix of h ++ samples(all)
pub proof fn lemma_samples_prefix(s: Seq<i32>, bps: nat, k: int)
    requires
        0 <= k <= s.len(),
    ensures
        is_prefix(byte_bits(2) + samples_bits(s.take(k), bps), byte_bits(2) + samples_bits(s, bps)),
{
    lemma_samples_prefix_h(byte_bits(2), s, bps, k);
}

pub proof fn lemma_samples_prefix_h(h: Seq<bool>, s: Seq<i32>, bps: nat, k: int)
    requires
        0 <= k <= s.len(),
    ensures
        is_prefix(h + samples_bits(s.take(k), bps), h + samples_bits(s, bps)),
    decreases s.len() - k,
{
    if k == s.len() {
        assert(s.take(k) =~= s);
        lemma_prefix_refl(h + samples_bits(s, bps));
    } else {
        lemma_samples_prefix_h(h, s, bps, k + 1);
        assert(s.take(k + 1).drop_last() =~= s.take(k));
        let a = h + samples_bits(s.take(k), bps);
        let b = h + samples_bits(s.take(k + 1), bps);
        assert(b =~= a + twoc_bits(s.take(k + 1).last() as int, bps));
        lemma_prefix_append(a, twoc_bits(s.take(k + 1).last() as int, bps));
        lemma_prefix_trans(a, b, h + samples_bits(s, bps));
    }
}

/// prefix is monotone under a common left factor
pub proof fn lemma_prefix_app_mono(d: Seq<bool>, a: Seq<bool>, b: Seq<bool>)
    requires
        is_prefix(a, b),
    ensures
        is_prefix(d + a, d + b),
{
    assert((d + b).subrange(0, (d + a).len() as int) =~= d + a) by {
        assert(b.subrange(0, a.len() as int) == a);
    }
}

pub struct FixedLpc {
    pub warm_up: Vec<i32>,
    pub residual: Residual,
    pub bits_per_sample: u8,
}

/// RFC 9639 9.2.5: type byte 0b0_001ooo_0 (fixed predictor of order ooo, no wasted bits)
pub open spec fn fixed_head(order: int) -> u8 {
    (16 + 2 * order) as u8
}

pub open spec fn fixed_bits(f: &FixedLpc) -> Seq<bool> {
    byte_bits(fixed_head(f.warm_up@.len() as int)) + samples_bits(f.warm_up@, f.bits_per_sample as nat) + f.residual.spec_bits()
}

proof fn lemma_fixed_head(order: usize)
    requires
        order <= 4,
    ensures
        (0x10u8 | ((order << 1) as u8)) == fixed_head(order as int),
{
    assert((0x10u8 | ((0usize << 1) as u8)) == 16) by (bit_vector);
    assert((0x10u8 | ((1usize << 1) as u8)) == 18) by (bit_vector);
    assert((0x10u8 | ((2usize << 1) as u8)) == 20) by (bit_vector);
    assert((0x10u8 | ((3usize << 1) as u8)) == 22) by (bit_vector);
    assert((0x10u8 | ((4usize << 1) as u8)) == 24) by (bit_vector);
}

impl FixedLpc {
    pub fn order(&self) -> (r: usize)
        ensures
            r == self.warm_up@.len(),
    {
        self.warm_up.len()
    }

    pub fn warm_up(&self) -> (r: &[i32])
        ensures
            r@ == self.warm_up@,
    {
        self.warm_up.as_slice()
    }

    pub fn residual(&self) -> (r: &Residual)
        ensures
            *r == self.residual,
    {
        &self.residual
    }

    pub fn bits_per_sample(&self) -> (r: usize)
        ensures
            r == self.bits_per_sample,
    {
        self.bits_per_sample as usize
    }

//@extract file=src/component/bitrepr.rs impl="impl BitRepr for FixedLpc {" fn="fn write"
//@subst `fn write<S: BitSink>(&self, dest: &mut S) -> Result<(), OutputError<S>> {` => `fn write<S: BitSink>(&self, dest: &mut S) -> (res: Result<(), OutputError<S>>) {`
//@subst `for v in self.warm_up() {` => `for v in it: self.warm_up() {`
//@sig
//|     requires
//|         1 <= self.bits_per_sample <= 64,
//|         self.warm_up@.len() <= 4,
//|     ensures
//|         is_prefix(old(dest).bits(), final(dest).bits()),
//|         is_prefix(final(dest).bits(), old(dest).bits() + fixed_bits(self)),
//|         res is Ok ==> final(dest).bits() == old(dest).bits() + fixed_bits(self),
//@before `dest.write(head_byte)`
//|     let ghost d0 = dest.bits();
//|     let ghost h = byte_bits(fixed_head(self.warm_up@.len() as int));
//|     let ghost bps = self.bits_per_sample as nat;
//|     let ghost body = h + samples_bits(self.warm_up@, bps);
//|     proof {
//|         lemma_fixed_head(self.warm_up.len());
//|         lemma_prefix_refl(d0);
//|         lemma_samples_prefix_h(h, self.warm_up@, bps, 0);
//|         assert(self.warm_up@.take(0) =~= Seq::<i32>::empty());
//|         assert(h + samples_bits(self.warm_up@.take(0), bps) =~= h);
//|         lemma_prefix_append(body, self.residual.spec_bits());
//|         assert(fixed_bits(self) == body + self.residual.spec_bits());
//|         lemma_prefix_trans(h, body, fixed_bits(self));
//|         lemma_prefix_app_mono(d0, h, fixed_bits(self));
//|         assert forall|x: Seq<bool>| is_prefix(x, d0 + h) implies is_prefix(x, d0 + fixed_bits(self)) by {
//|             lemma_prefix_trans(x, d0 + h, d0 + fixed_bits(self));
//|         }
//|     }
//@loop 1
//|         invariant
//|             1 <= self.bits_per_sample <= 64,
//|             bps == self.bits_per_sample as nat,
//|             h == byte_bits(fixed_head(self.warm_up@.len() as int)),
//|             body == h + samples_bits(self.warm_up@, bps),
//|             fixed_bits(self) == body + self.residual.spec_bits(),
//|             it.index@ <= self.warm_up@.len(),
//|             dest.bits() == d0 + (h + samples_bits(self.warm_up@.take(it.index@), bps)),
//|             d0 == old(dest).bits(),
//@before `dest.write_twoc(*v, self.bits_per_sample())`
//|         proof {
//|             let k = it.index@;
//|             assert(self.warm_up@.take(k + 1).drop_last() =~= self.warm_up@.take(k));
//|             assert(self.warm_up@.take(k + 1).last() == *v);
//|             let cur = h + samples_bits(self.warm_up@.take(k), bps);
//|             let nxt = h + samples_bits(self.warm_up@.take(k + 1), bps);
//|             let t = twoc_bits(*v as int, bps);
//|             assert(nxt =~= cur + t);
//|             assert((d0 + cur) + t =~= d0 + nxt);
//|             lemma_samples_prefix_h(h, self.warm_up@, bps, k + 1);
//|             lemma_prefix_append(body, self.residual.spec_bits());
//|             lemma_prefix_trans(nxt, body, fixed_bits(self));
//|             lemma_prefix_app_mono(d0, nxt, fixed_bits(self));
//|             lemma_prefix_append(d0, cur);
//|             assert forall|x: Seq<bool>| is_prefix(d0 + cur, x) implies is_prefix(d0, x) by {
//|                 lemma_prefix_trans(d0, d0 + cur, x);
//|             }
//|             assert forall|x: Seq<bool>| is_prefix(x, (d0 + cur) + t) implies is_prefix(x, d0 + fixed_bits(self)) by {
//|                 lemma_prefix_trans(x, d0 + nxt, d0 + fixed_bits(self));
//|             }
//|         }
//@before `self.residual().write(dest)`
//|     proof {
//|         assert(self.warm_up@.take(self.warm_up@.len() as int) =~= self.warm_up@);
//|         assert(dest.bits() == d0 + body);
//|         assert((d0 + body) + self.residual.spec_bits() =~= d0 + fixed_bits(self));
//|         lemma_prefix_append(d0, body);
//|         assert forall|x: Seq<bool>| is_prefix(d0 + body, x) implies is_prefix(d0, x) by {
//|             lemma_prefix_trans(d0, d0 + body, x);
//|         }
//|     }
//@end
}

pub struct QuantizedParameters {
    pub coefs: Vec<i16>,
    pub shift: i8,
    pub precision: usize,
}

impl QuantizedParameters {
    pub fn precision(&self) -> (r: usize)
        ensures
            r == self.precision,
    {
        self.precision
    }

    pub fn shift(&self) -> (r: i8)
        ensures
            r == self.shift,
    {
        self.shift
    }

    /// `coefs()` returns the first `order` coefficients as a Vec
    #[verifier::external_body]
    pub fn coefs(&self) -> (r: Vec<i16>)
        ensures
            r@ == self.coefs@,
    {
        unimplemented!()
    }
}

pub struct Lpc {
    pub parameters: QuantizedParameters,
    pub warm_up: Vec<i32>,
    pub residual: Residual,
    pub bits_per_sample: u8,
}

/// RFC 9639 9.2.6: type byte 0b0_1ooooo_0 with ooooo = order - 1
pub open spec fn lpc_head(order: int) -> u8 {
    (64 + 2 * (order - 1)) as u8
}

/// the LPC subframe up to (not including) the residual
pub open spec fn lpc_prefix_bits(l: &Lpc) -> Seq<bool> {
    byte_bits(lpc_head(l.warm_up@.len() as int)) + samples_bits(l.warm_up@, l.bits_per_sample as nat)
        + lsbs_bits(l.parameters.precision as int - 1, 4) + twoc_bits(l.parameters.shift as int, 5)
        + coefs_bits(l.parameters.coefs@, l.parameters.precision as nat)
}

pub open spec fn lpc_bits(l: &Lpc) -> Seq<bool> {
    lpc_prefix_bits(l) + l.residual.spec_bits()
}

/// the component invariant a verified LPC subframe satisfies (C18: constructors / verify)
pub open spec fn lpc_wf(l: &Lpc) -> bool {
    &&& 1 <= l.bits_per_sample <= 64
    &&& 1 <= l.warm_up@.len() <= 32
    &&& l.parameters.coefs@.len() == l.warm_up@.len()
    &&& 1 <= l.parameters.precision <= 15
    &&& 0 <= l.parameters.shift
    &&& forall|j: int| 0 <= j < l.parameters.coefs@.len() ==> {
        &&& -(pow2_int((l.parameters.precision - 1) as nat)) <= #[trigger] l.parameters.coefs@[j]
        &&& l.parameters.coefs@[j] < pow2_int((l.parameters.precision - 1) as nat)
    }
}

pub open spec fn pow2_int(k: nat) -> int
    decreases k,
{
    if k == 0 { 1 } else { 2 * pow2_int((k - 1) as nat) }
}

/// whatever extends d0 ++ w also extends d0
pub proof fn lemma_ext(d0: Seq<bool>, w: Seq<bool>)
    ensures
        forall|x: Seq<bool>| is_prefix(d0 + w, x) ==> is_prefix(d0, x),
{
    lemma_prefix_append(d0, w);
    assert forall|x: Seq<bool>| is_prefix(d0 + w, x) implies is_prefix(d0, x) by {
        lemma_prefix_trans(d0, d0 + w, x);
    }
}

proof fn lemma_lpc_head(order: usize)
    requires
        1 <= order <= 32,
    ensures
        (0x40u8 | (((order - 1) as u8) << 1)) == lpc_head(order as int),
{
    let k = (order - 1) as u8;
    assert(k <= 31);
    assert((0x40u8 | (k << 1)) == 64 + 2 * k) by (bit_vector)
        requires k <= 31;
}

proof fn lemma_shl_i16(p: usize)
    requires
        1 <= p <= 15,
    ensures
        (1i16 << ((p - 1) as usize)) == pow2_int((p - 1) as nat),
        0 < (1i16 << ((p - 1) as usize)) <= 16384,
{
    reveal_with_fuel(pow2_int, 16);
    assert((1i16 << 0usize) == 1) by (bit_vector);
    assert((1i16 << 1usize) == 2) by (bit_vector);
    assert((1i16 << 2usize) == 4) by (bit_vector);
    assert((1i16 << 3usize) == 8) by (bit_vector);
    assert((1i16 << 4usize) == 16) by (bit_vector);
    assert((1i16 << 5usize) == 32) by (bit_vector);
    assert((1i16 << 6usize) == 64) by (bit_vector);
    assert((1i16 << 7usize) == 128) by (bit_vector);
    assert((1i16 << 8usize) == 256) by (bit_vector);
    assert((1i16 << 9usize) == 512) by (bit_vector);
    assert((1i16 << 10usize) == 1024) by (bit_vector);
    assert((1i16 << 11usize) == 2048) by (bit_vector);
    assert((1i16 << 12usize) == 4096) by (bit_vector);
    assert((1i16 << 13usize) == 8192) by (bit_vector);
    assert((1i16 << 14usize) == 16384) by (bit_vector);
}

impl Lpc {
    pub fn order(&self) -> (r: usize)
        ensures
            r == self.warm_up@.len(),
    {
        self.warm_up.len()
    }

    pub fn warm_up(&self) -> (r: &[i32])
        ensures
            r@ == self.warm_up@,
    {
        self.warm_up.as_slice()
    }

    pub fn parameters(&self) -> (r: &QuantizedParameters)
        ensures
            *r == self.parameters,
    {
        &self.parameters
    }

    pub fn residual(&self) -> (r: &Residual)
        ensures
            *r == self.residual,
    {
        &self.residual
    }

    pub fn bits_per_sample(&self) -> (r: usize)
        ensures
            r == self.bits_per_sample,
    {
        self.bits_per_sample as usize
    }

//@extract file=src/component/bitrepr.rs impl="impl BitRepr for Lpc {" fn="fn write"
//@subst `fn write<S: BitSink>(&self, dest: &mut S) -> Result<(), OutputError<S>> {` => `fn write<S: BitSink>(&self, dest: &mut S) -> (res: Result<(), OutputError<S>>) {`
//@subst `for ref_coef in &self.parameters().coefs() {` => `for ref_coef in it: &self.parameters().coefs() {`
//@sig
//|     requires
//|         lpc_wf(self),
//|     ensures
//|         // C12 (no panic: the writer's own assert!s hold for a well-formed component) and C02/C08
//|         res is Ok ==> final(dest).bits() == old(dest).bits() + lpc_bits(self),
//|         is_prefix(old(dest).bits(), final(dest).bits()),
//@before `dest.write(head_byte)`
//|     let ghost d0 = dest.bits();
//|     let ghost bps = self.bits_per_sample as nat;
//|     let ghost prec = self.parameters.precision as nat;
//|     let ghost h = byte_bits(lpc_head(self.warm_up@.len() as int));
//|     proof {
//|         lemma_lpc_head(self.warm_up.len());
//|         lemma_prefix_refl(d0);
//|         lemma_ext(d0, Seq::<bool>::empty());
//|         assert(d0 + Seq::<bool>::empty() =~= d0);
//|     }
//@loop 1
//|         invariant
//|             lpc_wf(self),
//|             bps == self.bits_per_sample as nat,
//|             h == byte_bits(lpc_head(self.warm_up@.len() as int)),
//|             i <= self.warm_up@.len(),
//|             dest.bits() == d0 + (h + samples_bits(self.warm_up@.take(i as int), bps)),
//|             d0 == old(dest).bits(),
//@before `dest.write_twoc(self.warm_up()[i], self.bits_per_sample())`
//|         proof {
//|             let k = i as int;
//|             assert(self.warm_up@.take(k + 1).drop_last() =~= self.warm_up@.take(k));
//|             assert(self.warm_up@.take(k + 1).last() == self.warm_up@[k]);
//|             let cur = h + samples_bits(self.warm_up@.take(k), bps);
//|             let t = twoc_bits(self.warm_up@[k] as int, bps);
//|             assert((d0 + cur) + t =~= d0 + (h + samples_bits(self.warm_up@.take(k + 1), bps)));
//|             lemma_ext(d0, cur);
//|         }
//@before `assert!((self.parameters().precision() as u8) < 16u8);`
//|     let ghost wall = h + samples_bits(self.warm_up@, bps);
//|     proof {
//|         assert(self.warm_up@.take(self.warm_up@.len() as int) =~= self.warm_up@);
//|         assert(dest.bits() == d0 + wall);
//|         lemma_ext(d0, wall);
//|     }
//@before `assert!(self.parameters().shift() >= 0);`
//|     let ghost pbits = wall + lsbs_bits(prec as int - 1, 4);
//|     proof {
//|         assert(dest.bits() =~= d0 + pbits);
//|         lemma_ext(d0, pbits);
//|     }
//@before `for ref_coef in it: &self.parameters().coefs() {`
//|     let ghost qbits = pbits + twoc_bits(self.parameters.shift as int, 5);
//|     proof {
//|         assert(dest.bits() =~= d0 + qbits);
//|         assert(self.parameters.coefs@.take(0) =~= Seq::<i16>::empty());
//|         assert(qbits + coefs_bits(self.parameters.coefs@.take(0), prec) =~= qbits);
//|     }
//@loop 2
//|         invariant
//|             lpc_wf(self),
//|             prec == self.parameters.precision as nat,
//|             it.index@ <= self.parameters.coefs@.len(),
//|             dest.bits() == d0 + (qbits + coefs_bits(self.parameters.coefs@.take(it.index@), prec)),
//|             d0 == old(dest).bits(),
//@before `debug_assert!(*ref_coef < (1 << (self.parameters().precision() - 1)));`
//|         proof {
//|             let k = it.index@;
//|             lemma_shl_i16(self.parameters.precision);
//|             assert(*ref_coef == self.parameters.coefs@[k]);
//|             assert(self.parameters.coefs@.take(k + 1).drop_last() =~= self.parameters.coefs@.take(k));
//|             assert(self.parameters.coefs@.take(k + 1).last() == *ref_coef);
//|             let cur = qbits + coefs_bits(self.parameters.coefs@.take(k), prec);
//|             let t = twoc_bits(*ref_coef as int, prec);
//|             assert((d0 + cur) + t =~= d0 + (qbits + coefs_bits(self.parameters.coefs@.take(k + 1), prec)));
//|             lemma_ext(d0, cur);
//|         }
//@before `self.residual().write(dest)`
//|     proof {
//|         assert(self.parameters.coefs@.take(self.parameters.coefs@.len() as int) =~= self.parameters.coefs@);
//|         let call = qbits + coefs_bits(self.parameters.coefs@, prec);
//|         assert(call =~= lpc_prefix_bits(self));
//|         assert((d0 + call) + self.residual.spec_bits() =~= d0 + lpc_bits(self));
//|         lemma_ext(d0, call);
//|     }
//@end
}

} // verus!
fn main() {}
