//@ unit props=C16 tier=quick kind=unbounded timeout=240 funcs="parser::residual" stubs="nom::bits::streaming::take -> an unsigned value below 2^count or an error (count <= width of the output type REQUIRED at each call site); parser::unary_code -> a count or an error; Residual::from_parts -> requires its debug assertion (one Rice parameter per partition) [totality of the rest: Kani c08_residual_from_parts_sums]" note="the closure `move |input| {..}` that `residual(block_size, warmup_length)` returns is verified as a function of (block_size, warmup_length, input): the substitution rewrites only the signature lines and the five curried nom calls `bit_take(n)(input)` into `bit_take_uN(n, input)`; three `Vec::with_capacity` lets get a type annotation; `continue;` in the inner for-loop (unsupported by Verus in for-loops) becomes an else-branch around the rest of the loop body; the body is otherwise the text of /repo"
// C16, residual recogniser, for ANY input, ANY block size and ANY warm-up length: no arithmetic
// overflow, no out-of-range shift, no division by zero, no out-of-bounds access and no violated
// callee precondition, whatever partition order, Rice parameters and codes the (possibly
// corrupted) input contains - in particular partition orders whose partitions are shorter than
// the warm-up, longer than the block, or do not divide it.  A returned residual has one Rice
// parameter per partition and equally long quotient / remainder vectors.
use vstd::prelude::*;
verus! {

pub open spec fn pow2(p: nat) -> nat
    decreases p,
{
    if p == 0 { 1 } else { 2 * pow2((p - 1) as nat) }
}

/// nom's bit-level input position (bytes, bit offset); opaque here
#[derive(Clone, Copy)]
pub struct BitInput<'a> {
    pub bytes: &'a [u8],
    pub offset: usize,
}

/// nom::Err<E> - only its existence matters
pub struct NomErr {
    pub dummy: u8,
}

/// contract assumed of `nom::bits::streaming::take::<_, u8, usize, E>(count)`
#[verifier::external_body]
pub fn bit_take_u8<'a>(count: usize, input: BitInput<'a>) -> (r: Result<(BitInput<'a>, u8), NomErr>)
    requires
        count <= 8,
    ensures
        r is Ok ==> (r->Ok_0.1 as nat) < pow2(count as nat),
{
    unimplemented!()
}

/// contract assumed of `nom::bits::streaming::take::<_, u32, usize, E>(count)`
#[verifier::external_body]
pub fn bit_take_u32<'a>(count: usize, input: BitInput<'a>) -> (r: Result<(BitInput<'a>, u32), NomErr>)
    requires
        count <= 32,
    ensures
        r is Ok ==> (r->Ok_0.1 as nat) < pow2(count as nat),
{
    unimplemented!()
}

/// contract of `parser::unary_code` (nom many0_count + tag): some count, or an error
#[verifier::external_body]
pub fn unary_code<'a>(input: BitInput<'a>) -> (r: Result<(BitInput<'a>, usize), NomErr>)
{
    unimplemented!()
}

/// the fields of `component::Residual` the recogniser determines
pub struct Residual {
    pub partition_order: u8,
    pub block_size: usize,
    pub warmup_length: usize,
    pub rice_params: Vec<u8>,
    pub quotients: Vec<u32>,
    pub remainders: Vec<u32>,
}

impl Residual {
    /// callee contract: `Residual::from_parts` REQUIRES its debug assertion
    /// `rice_params.len() == 1 << partition_order` and stores its arguments (the cached sums it
    /// adds never overflow for any vectors: Kani unit datatype::verif::c08_residual_from_parts_sums)
    #[verifier::external_body]
    pub fn from_parts(
        partition_order: u8,
        block_size: usize,
        warmup_length: usize,
        rice_params: Vec<u8>,
        quotients: Vec<u32>,
        remainders: Vec<u32>,
    ) -> (r: Self)
        requires
            partition_order < 16,
            rice_params@.len() == pow2(partition_order as nat),
        ensures
            r.partition_order == partition_order,
            r.block_size == block_size,
            r.warmup_length == warmup_length,
            r.rice_params@ == rice_params@,
            r.quotients@ == quotients@,
            r.remainders@ == remainders@,
    {
        unimplemented!()
    }
}

pub proof fn lemma_shl_pow2(o: u8)
    requires
        o < 16,
    ensures
        (1usize << (o as usize)) == pow2(o as nat),
        pow2(o as nat) >= 1,
        pow2(o as nat) <= 32768,
{
    reveal_with_fuel(pow2, 17);
    assert((1usize << 0usize) == 1) by (bit_vector);
    assert((1usize << 1usize) == 2) by (bit_vector);
    assert((1usize << 2usize) == 4) by (bit_vector);
    assert((1usize << 3usize) == 8) by (bit_vector);
    assert((1usize << 4usize) == 16) by (bit_vector);
    assert((1usize << 5usize) == 32) by (bit_vector);
    assert((1usize << 6usize) == 64) by (bit_vector);
    assert((1usize << 7usize) == 128) by (bit_vector);
    assert((1usize << 8usize) == 256) by (bit_vector);
    assert((1usize << 9usize) == 512) by (bit_vector);
    assert((1usize << 10usize) == 1024) by (bit_vector);
    assert((1usize << 11usize) == 2048) by (bit_vector);
    assert((1usize << 12usize) == 4096) by (bit_vector);
    assert((1usize << 13usize) == 8192) by (bit_vector);
    assert((1usize << 14usize) == 16384) by (bit_vector);
    assert((1usize << 15usize) == 32768) by (bit_vector);
}

pub proof fn lemma_small_pow2()
    ensures
        pow2(2) == 4,
        pow2(4) == 16,
        pow2(5) == 32,
{
    reveal_with_fuel(pow2, 6);
}

/// k * (a / k) <= a and (a/k) * (p + 1) <= a for p < k
pub proof fn lemma_part_bounds(a: int, k: int, p: int)
    requires
        a >= 0,
        k >= 1,
        0 <= p < k,
    ensures
        (a / k) * p >= 0,
        (a / k) * p <= (a / k) * (p + 1),
        (a / k) * (p + 1) <= a,
{
    let q = a / k;
    assert(q >= 0 && q * k <= a) by (nonlinear_arith)
        requires a >= 0, k >= 1, q == a / k;
    assert(q * p >= 0 && q * p <= q * (p + 1) && q * (p + 1) <= q * k) by (nonlinear_arith)
        requires q >= 0, 0 <= p, p + 1 <= k;
}

//@extract file=src/component/parser.rs fn="pub fn residual"
//@subst `pub fn residual<'a, E>(\n    block_size: usize,\n    warmup_length: usize,\n) -> impl FnMut(BitInput<'a>) -> IResult<BitInput<'a>, component::Residual, E>\nwhere\n    E: ParseError<BitInput<'a>>,\n{\n    move |input| {` => `pub fn residual<'a>(\n    block_size: usize,\n    warmup_length: usize,\n    input: BitInput<'a>,\n) -> (res: Result<(BitInput<'a>, Residual), NomErr>)\n{\n    {`
//@subst `bit_take(2usize)(remaining_input)?` => `bit_take_u8(2usize, remaining_input)?`
//@subst `bit_take(4usize)(remaining_input)?` => `bit_take_u8(4usize, remaining_input)?`
//@subst `bit_take(p_bits)(remaining_input)?` => `bit_take_u8(p_bits, remaining_input)?`
//@subst `bit_take(rice_p as usize)(remaining_input)?` => `bit_take_u32(rice_p as usize, remaining_input)?`
//@subst `return Err(nom::Err::Error(error_position!(\n                    remaining_input,\n                    nom::error::ErrorKind::TagBits\n                )));` => `return Err(NomErr { dummy: 0 });`
//@subst `component::Residual::from_parts(` => `Residual::from_parts(`
//@subst `                    continue;\n                }\n` => `                } else {\n`
//@subst `                remainders.push(r);\n            }` => `                remainders.push(r);\n            }}`
//@subst `let mut rice_params = Vec::with_capacity(partition_count);` => `let mut rice_params: Vec<u8> = Vec::with_capacity(partition_count);`
//@subst `let mut quotients = Vec::with_capacity(block_size);` => `let mut quotients: Vec<u32> = Vec::with_capacity(block_size);`
//@subst `let mut remainders = Vec::with_capacity(block_size);` => `let mut remainders: Vec<u32> = Vec::with_capacity(block_size);`
//@sig
//|     ensures
//|         res is Ok ==> {
//|             let r = res->Ok_0.1;
//|             &&& r.partition_order < 16
//|             &&& r.block_size == block_size
//|             &&& r.warmup_length == warmup_length
//|             &&& r.rice_params@.len() == pow2(r.partition_order as nat)
//|             &&& r.quotients@.len() == r.remainders@.len()
//|             &&& r.quotients@.len() == (block_size as int / pow2(r.partition_order as nat) as int) * pow2(r.partition_order as nat)
//|             &&& forall|j: int| 0 <= j < r.rice_params@.len() ==> #[trigger] r.rice_params@[j] < 32
//|         },
//@before `let partition_count = 1usize << (partition_order as usize);`
//|         proof {
//|             lemma_small_pow2();
//|             lemma_shl_pow2(partition_order);
//|         }
//@before `for part in 0..partition_count {`
//|         proof {
//|             assert(partition_len * 0 == 0) by (nonlinear_arith);
//|         }
//@loop 1
//|             invariant
//|                 partition_order < 16,
//|                 partition_count == pow2(partition_order as nat),
//|                 partition_count >= 1,
//|                 partition_len == block_size / partition_count,
//|                 p_bits == 4 || p_bits == 5,
//|                 rice_params@.len() == part,
//|                 quotients@.len() == partition_len * part,
//|                 remainders@.len() == partition_len * part,
//|                 forall|j: int| 0 <= j < rice_params@.len() ==> #[trigger] rice_params@[j] < 32,
//@before `let (i, rice_p) = bit_take`
//|             proof {
//|                 lemma_small_pow2();
//|                 lemma_part_bounds(block_size as int, partition_count as int, part as int);
//|             }
//@loop 2
//|                 invariant
//|                     rice_p < 32,
//|                     partition_len * part <= t <= partition_len * (part + 1),
//|                     quotients@.len() == t,
//|                     remainders@.len() == t,
//@end
} // verus!
fn main() {}
