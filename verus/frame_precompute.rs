//@ unit props=C08,C02 tier=quick kind=unbounded timeout=120 funcs="Frame::precompute_bitstream" stubs="<Frame as BitRepr>::write -> appends exactly frame_bits(self) to an aligned sink [Verus unit frame_write]; MemSink<u8>::{with_capacity, into_inner} -> empty sink / the big-endian bytes of the written bits [Kani units s8_with_capacity_into_inner, s8_*]; Frame::count_bits -> (only a capacity hint)" note="`MemSink::<u8>::with_capacity` spelled MemSink8 (generic instantiation)"
// C08 'before and after the frame's bitstream has been precomputed': `precompute_bitstream` stores
// EXACTLY the bytes `write` would have produced (or nothing), so that the bits a later `write`
// emits (unit frame_write, precomputed branch) are the same as before; header and subframes are
// untouched; a frame that already holds a precomputed bitstream is left alone.
use vstd::prelude::*;
verus! {

pub open spec fn zeros(n: nat) -> Seq<bool> {
    Seq::new(n, |i: int| false)
}

pub open spec fn pad8(len: nat) -> nat {
    ((8 - len % 8) % 8) as nat
}

pub uninterp spec fn bytes_bits(b: Seq<u8>) -> Seq<bool>;
pub uninterp spec fn bits_bytes(b: Seq<bool>) -> Seq<u8>;

#[verifier::external_body]
pub proof fn axiom_bits_bytes_roundtrip(b: Seq<bool>)
    requires
        b.len() % 8 == 0,
    ensures
        bytes_bits(bits_bytes(b)) == b,
{
}

pub struct FrameHeader {
    pub dummy: u8,
}

pub struct SubFrame {
    pub dummy: u8,
}

pub struct Frame {
    pub header: FrameHeader,
    pub subframes: Vec<SubFrame>,
    pub precomputed_bitstream: Option<Vec<u8>>,
}

/// the bits `write` emits when nothing is precomputed: header ++ subframes ++ padding ++ CRC-16
/// (defined and proved in unit frame_write; here only its byte alignment matters)
pub uninterp spec fn computed_bits(f: &Frame) -> Seq<bool>;

#[verifier::external_body]
pub proof fn axiom_computed_bits_aligned(f: &Frame)
    ensures
        computed_bits(f).len() % 8 == 0,
{
}

pub open spec fn frame_bits(f: &Frame) -> Seq<bool> {
    match f.precomputed_bitstream {
        Some(bytes) => bytes_bits(bytes@),
        None => computed_bits(f),
    }
}

pub struct Infallible {
    pub never: u8,
}

/// `MemSink<u8>` (ByteSink)
pub struct MemSink8 {
    pub ghost_bits: Ghost<Seq<bool>>,
}

impl MemSink8 {
    pub open spec fn bits(&self) -> Seq<bool> {
        self.ghost_bits@
    }

    #[verifier::external_body]
    pub fn with_capacity(capacity_in_bits: usize) -> (r: Self)
        ensures
            r.bits().len() == 0,
    {
        unimplemented!()
    }

    #[verifier::external_body]
    pub fn into_inner(self) -> (r: Vec<u8>)
        ensures
            self.bits().len() % 8 == 0 ==> r@ == bits_bytes(self.bits()),
    {
        unimplemented!()
    }
}

impl Frame {
    #[verifier::external_body]
    pub fn count_bits(&self) -> (r: usize)
    {
        unimplemented!()
    }

    /// callee contract: Verus unit frame_write instantiated with the byte sink
    #[verifier::external_body]
    pub fn write(&self, dest: &mut MemSink8) -> (r: Result<(), Infallible>)
        ensures
            r is Ok ==> final(dest).bits() == old(dest).bits() + zeros(pad8(old(dest).bits().len())) + frame_bits(self),
    {
        unimplemented!()
    }

//@extract file=src/component/datatype.rs impl="impl Frame {" fn="pub fn precompute_bitstream"
//@subst `MemSink::<u8>::with_capacity(` => `MemSink8::with_capacity(`
//@sig
//|     ensures
//|         final(self).header == old(self).header,
//|         final(self).subframes == old(self).subframes,
//|         frame_bits(final(self)) == frame_bits(old(self)),
//|         old(self).precomputed_bitstream is Some ==> final(self).precomputed_bitstream == old(self).precomputed_bitstream,
//@before `let mut dest = `
//|         proof {
//|             axiom_computed_bits_aligned(self);
//|         }
//|         let ghost f0 = *self;
//@before `self.precomputed_bitstream = Some(dest.into_inner());`
//|             proof {
//|                 assert(pad8(0) == 0);
//|                 assert(Seq::<bool>::empty() + zeros(0) + computed_bits(&f0) =~= computed_bits(&f0));
//|                 axiom_bits_bytes_roundtrip(computed_bits(&f0));
//|             }
//@end

}

} // verus!
fn main() {}
