//@ unit props=C15,C01 tier=quick kind=unbounded timeout=240 funcs="decode::decode_lpc" stubs="<Residual as Decode>::copy_signal -> dest[t] == residual value t [Verus unit residual_decode]; Residual::signal_len -> block size" note="generic T instantiated to i32 (FixedLpc passes i32 coefficients, Lpc passes i16 ones; both are within the stated 16-bit bound); `for (i, x) in xs.iter().enumerate() {` rewritten to `for i in 0..xs.len() { let x = &xs[i];` (iterator adapters are outside Verus; assumes std's enumerate yields (index, &element) in order); `<T as Into<i64>>::into(*w)` spelled `i64::from(*w)`"
// C15 clause 3 / C01: LPC synthesis (`decode_lpc`, used for both FIXED and LPC subframes) inverts the
// encoder's residual computation for ANY block length and predictor order:
//   given a signal s whose first `order` samples are the warm-up and whose residual satisfies
//   e[t] == s[t] - ((sum_j coefs[j] * s[t-1-j]) >> shift)   for t >= order        (RFC 9639 9.2.5-9.2.6;
//   the encoder side is lpc::compute_error / reset_fixed_lpc_errors, Kani units c01_compute_error_*,
//   c01_fixed_errors_*), the decoder writes exactly s - with no index, shift or arithmetic failure.
use vstd::prelude::*;
verus! {

/// sum_{j < n} coefs[j] * s[t - 1 - j]
pub open spec fn pred_sum(coefs: Seq<i32>, s: Seq<i32>, t: int, n: nat) -> int
    decreases n,
{
    if n == 0 {
        0
    } else {
        pred_sum(coefs, s, t, (n - 1) as nat) + (coefs[n - 1] as int) * (s[t - 1 - (n - 1)] as int)
    }
}

/// arithmetic shift right of a 64-bit accumulator, as the decoder (and RFC 9639) computes it
pub open spec fn shr64(p: int, shift: usize) -> int {
    ((p as i64) >> shift) as int
}

pub struct Residual {
    pub block_size: usize,
    pub values: Ghost<Seq<i32>>,
}

impl Residual {
    /// residual value of sample t (unzigzag of its Rice code: unit residual_decode)
    pub open spec fn value(&self, t: int) -> i32 {
        self.values@[t]
    }

    #[verifier::external_body]
    pub fn signal_len(&self) -> (r: usize)
        ensures
            r == self.block_size,
    {
        unimplemented!()
    }

    /// callee contract = post-condition of the Verus unit residual_decode
    #[verifier::external_body]
    pub fn copy_signal(&self, dest: &mut [i32])
        requires
            old(dest)@.len() >= self.block_size,
            self.values@.len() == self.block_size,
        ensures
            final(dest)@.len() == old(dest)@.len(),
            forall|t: int| 0 <= t < self.block_size ==> #[trigger] final(dest)@[t] == self.value(t),
            forall|t: int| self.block_size <= t < old(dest)@.len() ==> #[trigger] final(dest)@[t] == old(dest)@[t],
    {
        unimplemented!()
    }
}

pub open spec fn coef_bound(c: i32) -> bool {
    -32768 <= c <= 32767
}

proof fn lemma_mul_bound(a: int, b: int)
    requires
        -32768 <= a <= 32767,
        -0x8000_0000 <= b <= 0x7FFF_FFFF,
    ensures
        -0x4000_0000_0000 <= a * b <= 0x4000_0000_0000,
{
    assert(-0x4000_0000_0000 <= a * b <= 0x4000_0000_0000) by (nonlinear_arith)
        requires
            -32768 <= a <= 32767,
            -0x8000_0000 <= b <= 0x7FFF_FFFF,
    ;
}

proof fn lemma_pred_sum_bound(coefs: Seq<i32>, s: Seq<i32>, t: int, n: nat)
    requires
        n <= coefs.len(),
        n <= t <= s.len(),
        forall|j: int| 0 <= j < coefs.len() ==> coef_bound(#[trigger] coefs[j]),
    ensures
        -0x4000_0000_0000 * n <= pred_sum(coefs, s, t, n) <= 0x4000_0000_0000 * n,
    decreases n,
{
    if n > 0 {
        lemma_pred_sum_bound(coefs, s, t, (n - 1) as nat);
        lemma_mul_bound(coefs[n - 1] as int, s[t - 1 - (n - 1)] as int);
    }
}

/// pred_sum only looks at samples before t
proof fn lemma_pred_sum_prefix(coefs: Seq<i32>, a: Seq<i32>, b: Seq<i32>, t: int, n: nat)
    requires
        n <= t <= a.len(),
        t <= b.len(),
        forall|u: int| 0 <= u < t ==> #[trigger] a[u] == b[u],
    ensures
        pred_sum(coefs, a, t, n) == pred_sum(coefs, b, t, n),
    decreases n,
{
    if n > 0 {
        lemma_pred_sum_prefix(coefs, a, b, t, (n - 1) as nat);
    }
}

/// the encoder-side relation between a signal and its (warm-up, residual) representation
pub open spec fn is_lpc_residual_of(
    s: Seq<i32>,
    warm_up: Seq<i32>,
    coefs: Seq<i32>,
    shift: usize,
    residual: &Residual,
) -> bool {
    &&& s.len() == residual.block_size
    &&& residual.values@.len() == residual.block_size
    &&& warm_up.len() <= s.len()
    &&& forall|t: int| 0 <= t < warm_up.len() ==> #[trigger] s[t] == warm_up[t]
    &&& forall|t: int|
        warm_up.len() <= t < s.len() ==> {
            let p = shr64(pred_sum(coefs, s, t, coefs.len()), shift);
            &&& -0x8000_0000 <= p <= 0x7FFF_FFFF
            &&& (#[trigger] residual.value(t)) as int == s[t] as int - p
        }
}

//@extract file=src/component/decode.rs fn="fn decode_lpc"
//@subst `fn decode_lpc<T: Into<i64> + Copy>(` => `fn decode_lpc(`
//@subst `coefs: &[T],` => `coefs: &[i32],`
//@subst `for (t, x) in warm_up.iter().enumerate() {` => `for t in 0..warm_up.len() { let x = &warm_up[t];`
//@subst `for (tau, w) in coefs.iter().enumerate() {` => `for tau in 0..coefs.len() { let w = &coefs[tau];`
//@subst `<T as Into<i64>>::into(*w)` => `i64::from(*w)`
//@subst `dest: &mut [i32],\n) {` => `dest: &mut [i32],\n    Ghost(s): Ghost<Seq<i32>>,\n) {`
//@sig
//|     requires
//|         is_lpc_residual_of(s, warm_up@, coefs@, shift, residual),
//|         coefs@.len() <= warm_up@.len(),
//|         coefs@.len() <= 32,
//|         shift < 64,
//|         forall|j: int| 0 <= j < coefs@.len() ==> coef_bound(#[trigger] coefs@[j]),
//|         old(dest)@.len() >= residual.block_size,
//|     ensures
//|         final(dest)@.len() == old(dest)@.len(),
//|         forall|t: int| 0 <= t < residual.block_size ==> #[trigger] final(dest)@[t] == s[t],
//|         forall|t: int| residual.block_size <= t < old(dest)@.len() ==> #[trigger] final(dest)@[t] == old(dest)@[t],
//@loop 1
//|         invariant
//|             is_lpc_residual_of(s, warm_up@, coefs@, shift, residual),
//|             dest@.len() == old(dest)@.len(),
//|             dest@.len() >= residual.block_size,
//|             forall|u: int| 0 <= u < t ==> #[trigger] dest@[u] == s[u],
//|             forall|u: int| warm_up@.len() <= u < residual.block_size ==> #[trigger] dest@[u] == residual.value(u),
//|             forall|u: int| residual.block_size <= u < dest@.len() ==> #[trigger] dest@[u] == old(dest)@[u],
//@loop 2
//|         invariant
//|             is_lpc_residual_of(s, warm_up@, coefs@, shift, residual),
//|             coefs@.len() <= warm_up@.len(),
//|             coefs@.len() <= 32,
//|             shift < 64,
//|             forall|j: int| 0 <= j < coefs@.len() ==> coef_bound(#[trigger] coefs@[j]),
//|             dest@.len() == old(dest)@.len(),
//|             dest@.len() >= residual.block_size,
//|             warm_up@.len() <= t,
//|             forall|u: int| 0 <= u < t ==> #[trigger] dest@[u] == s[u],
//|             forall|u: int| t <= u < residual.block_size ==> #[trigger] dest@[u] == residual.value(u),
//|             forall|u: int| residual.block_size <= u < dest@.len() ==> #[trigger] dest@[u] == old(dest)@[u],
//@loop 3
//|             invariant
//|                 coefs@.len() <= warm_up@.len(),
//|                 coefs@.len() <= 32,
//|                 warm_up@.len() <= t < residual.block_size,
//|                 s.len() == residual.block_size,
//|                 dest@.len() >= residual.block_size,
//|                 forall|j: int| 0 <= j < coefs@.len() ==> coef_bound(#[trigger] coefs@[j]),
//|                 forall|u: int| 0 <= u < t ==> #[trigger] dest@[u] == s[u],
//|                 pred as int == pred_sum(coefs@, s, t as int, tau as nat),
//@loopbody 3
//|             proof {
//|                 lemma_pred_sum_bound(coefs@, s, t as int, tau as nat);
//|                 lemma_mul_bound(coefs@[tau as int] as int, s[t - 1 - tau] as int);
//|                 assert(0x4000_0000_0000 * (tau as nat) <= 0x4000_0000_0000 * 32) by (nonlinear_arith)
//|                     requires tau <= 32;
//|             }
//@afterloop 3
//|         proof {
//|             assert(pred as int == pred_sum(coefs@, s, t as int, coefs@.len()));
//|             let p = shr64(pred_sum(coefs@, s, t as int, coefs@.len()), shift);
//|             assert(dest@[t as int] == residual.value(t as int));
//|             assert(residual.value(t as int) as int == s[t as int] as int - p);
//|             assert(((pred >> shift) as int) == p);
//|         }
//@end

} // verus!
fn main() {}
