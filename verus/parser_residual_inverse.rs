//@ unit props=C15,C16 tier=quick kind=unbounded timeout=300 funcs="parser::residual" stubs="nom::bits::streaming::take(n) -> the next n bits as an unsigned value (A-nom); parser::unary_code -> q zeros and a one, q < 2^32 (inputs below 512 MiB) [Kani c15_unary_code_one_byte]; Residual::from_parts -> stores its arguments; Rice code word identity [Kani c01_rice_code_word]; lsbs(v,6) == lsbs(0,2) ++ lsbs(v,4) for v < 16 [Kani c15_lsbs_split]" note="same extraction and substitutions as unit parser_residual; the bit-string specification `spec_bits` is the one unit residual_write proves of `Residual::write` (copied mechanically from that template)"
// C15 for the residual, ANY block size / partition order / warm-up / input: what `parser::residual`
// ACCEPTS is exactly what `Residual::write` EMITS for the component it returns -
//     bits(input) == spec_bits(parsed) ++ bits(rest)
// whenever the parsed residual is well formed (parameters below the escape code, warm-up inside the
// first partition, partitions tiling the block) and the coding method is 00 (the only one written).
// Hence parse . write is the identity on the bits and re-serialising the parsed component gives
// back the consumed input ("re-serialises to exactly the same bytes"), with no bound on the block.
use vstd::prelude::*;
verus! {

global size_of usize == 8;

pub open spec fn zeros(n: nat) -> Seq<bool> {
    Seq::new(n, |i: int| false)
}

pub open spec fn is_prefix(a: Seq<bool>, b: Seq<bool>) -> bool {
    a.len() <= b.len() && b.subrange(0, a.len() as int) == a
}

pub proof fn lemma_prefix_refl(a: Seq<bool>)
    ensures
        is_prefix(a, a),
{
    assert(a.subrange(0, a.len() as int) =~= a);
}

pub proof fn lemma_prefix_append(a: Seq<bool>, b: Seq<bool>)
    ensures
        is_prefix(a, a + b),
{
    assert((a + b).subrange(0, a.len() as int) =~= a);
}

pub proof fn lemma_prefix_trans(a: Seq<bool>, b: Seq<bool>, c: Seq<bool>)
    requires
        is_prefix(a, b),
        is_prefix(b, c),
    ensures
        is_prefix(a, c),
{
    assert(c.subrange(0, a.len() as int) =~= c.subrange(0, b.len() as int).subrange(0, a.len() as int));
}

/// the `n` low bits of v, MSB first
pub uninterp spec fn lsbs_bits(v: int, n: nat) -> Seq<bool>;
/// the `n` most significant bits of the 32-bit word v, MSB first
pub uninterp spec fn msbs32_bits(v: u32, n: nat) -> Seq<bool>;


pub open spec fn pow2(p: nat) -> nat
    decreases p,
{
    if p == 0 { 1 } else { 2 * pow2((p - 1) as nat) }
}

/// the code of one sample as the PARSER reads it: q zeros, a one, p remainder bits
pub open spec fn pcode(q: u32, r: u32, p: u8) -> Seq<bool> {
    zeros(q as nat) + seq![true] + lsbs_bits(r as int, p as nat)
}

/// bridge (Kani unit bitsink::verif::c01_rice_code_word, complete over p <= 14, r < 2^p): the p+1
/// leading bits of the word the writer emits are a one followed by the p remainder bits
#[verifier::external_body]
pub proof fn axiom_rice_word(r: u32, p: u8)
    requires
        p <= 14,
        (r as nat) < pow2(p as nat),
    ensures
        msbs32_bits((r | (1u32 << p)) << ((32 - (p + 1)) as usize), (p + 1) as nat) == seq![true] + lsbs_bits(r as int, p as nat),
{
}

/// bit-string algebra (Kani unit c15_lsbs_split): a 6-bit field holding v < 16 is 00 ++ the 4-bit field
#[verifier::external_body]
pub proof fn axiom_lsbs_split6(v: int)
    requires
        0 <= v < 16,
    ensures
        lsbs_bits(v, 6) == lsbs_bits(0, 2) + lsbs_bits(v, 4),
{
}

pub proof fn lemma_pcode_is_rice_code(q: u32, r: u32, p: u8)
    requires
        p <= 14,
        (r as nat) < pow2(p as nat),
    ensures
        pcode(q, r, p) == rice_code(q, r, p),
{
    axiom_rice_word(r, p);
    assert(zeros(q as nat) + seq![true] + lsbs_bits(r as int, p as nat) =~= zeros(q as nat) + (seq![true] + lsbs_bits(r as int, p as nat)));
}

pub open spec fn max_int(a: int, b: int) -> int {
    if a >= b { a } else { b }
}

/// codes of samples lo..hi in PARSING order (snoc form), parameter p
pub open spec fn codes_upto(q: Seq<u32>, r: Seq<u32>, p: u8, lo: int, hi: int) -> Seq<bool>
    decreases hi - lo,
{
    if hi <= lo {
        Seq::<bool>::empty()
    } else {
        codes_upto(q, r, p, lo, hi - 1) + pcode(q[hi - 1], r[hi - 1], p)
    }
}

/// partitions 0..k in parsing order; `pb` is the width of the parameter field
pub open spec fn parts_upto(rp: Seq<u8>, q: Seq<u32>, r: Seq<u32>, w: int, len: int, pb: nat, k: int) -> Seq<bool>
    decreases k,
{
    if k <= 0 {
        Seq::<bool>::empty()
    } else {
        parts_upto(rp, q, r, w, len, pb, k - 1) + lsbs_bits(rp[k - 1] as int, pb) + codes_upto(
            q,
            r,
            rp[k - 1],
            max_int(w, (k - 1) * len),
            max_int(w, k * len),
        )
    }
}

pub proof fn lemma_codes_stable(q1: Seq<u32>, r1: Seq<u32>, q2: Seq<u32>, r2: Seq<u32>, p: u8, lo: int, hi: int)
    requires
        0 <= lo,
        lo < hi ==> hi <= q1.len() && hi <= q2.len() && hi <= r1.len() && hi <= r2.len(),
        forall|i: int| lo <= i < hi ==> q1[i] == q2[i] && r1[i] == r2[i],
    ensures
        codes_upto(q1, r1, p, lo, hi) == codes_upto(q2, r2, p, lo, hi),
    decreases hi - lo,
{
    if hi > lo {
        lemma_codes_stable(q1, r1, q2, r2, p, lo, hi - 1);
    }
}

pub proof fn lemma_parts_stable(
    rp1: Seq<u8>,
    q1: Seq<u32>,
    r1: Seq<u32>,
    rp2: Seq<u8>,
    q2: Seq<u32>,
    r2: Seq<u32>,
    w: int,
    len: int,
    pb: nat,
    k: int,
)
    requires
        0 <= w,
        0 <= len,
        0 <= k,
        k <= rp1.len(),
        k <= rp2.len(),
        k * len <= q1.len(),
        k * len <= q2.len(),
        k * len <= r1.len(),
        k * len <= r2.len(),
        forall|j: int| 0 <= j < k ==> rp1[j] == rp2[j],
        forall|i: int| 0 <= i < k * len ==> q1[i] == q2[i] && r1[i] == r2[i],
    ensures
        parts_upto(rp1, q1, r1, w, len, pb, k) == parts_upto(rp2, q2, r2, w, len, pb, k),
    decreases k,
{
    if k > 0 {
        assert((k - 1) * len <= k * len) by (nonlinear_arith)
            requires len >= 0;
        lemma_parts_stable(rp1, q1, r1, rp2, q2, r2, w, len, pb, k - 1);
        // the coded range of partition k-1 is [max(w, (k-1)len), max(w, k len)): empty when the warm-up
        // covers it, otherwise it ends at k*len
        if max_int(w, (k - 1) * len) < max_int(w, k * len) {
            assert(max_int(w, k * len) == k * len);
        }
        lemma_codes_stable(q1, r1, q2, r2, rp1[k - 1], max_int(w, (k - 1) * len), max_int(w, k * len));
    }
}

pub struct Residual {
    pub partition_order: u8,
    pub block_size: usize,
    pub warmup_length: usize,
    pub rice_params: Vec<u8>,
    pub quotients: Vec<u32>,
    pub remainders: Vec<u32>,
}

/// the Rice code of (quotient, remainder) under parameter p as the writer emits it
pub open spec fn rice_code(q: u32, r: u32, p: u8) -> Seq<bool> {
    zeros(q as nat) + msbs32_bits((r | (1u32 << p)) << ((32 - (p + 1)) as usize), (p + 1) as nat)
}

impl Residual {
    pub open spec fn part_len(&self) -> int {
        (self.block_size >> (self.partition_order as usize)) as int
    }

    pub open spec fn nparts(&self) -> int {
        (1usize << (self.partition_order as usize)) as int
    }

    pub open spec fn max_int(a: int, b: int) -> int {
        if a >= b { a } else { b }
    }

    /// codes of samples t in [lo, hi) with parameter p
    pub open spec fn codes_from(&self, p: u8, lo: int, hi: int) -> Seq<bool>
        decreases hi - lo,
    {
        if lo >= hi {
            Seq::<bool>::empty()
        } else {
            rice_code(self.quotients@[lo], self.remainders@[lo], p) + self.codes_from(p, lo + 1, hi)
        }
    }

    /// partitions k, k+1, ..
    pub open spec fn parts_from(&self, k: int) -> Seq<bool>
        decreases self.nparts() - k,
    {
        if k >= self.nparts() || k < 0 {
            Seq::<bool>::empty()
        } else {
            lsbs_bits(self.rice_params@[k] as int, 4) + self.codes_from(
                self.rice_params@[k],
                Self::max_int(self.warmup_length as int, k * self.part_len()),
                (k + 1) * self.part_len(),
            ) + self.parts_from(k + 1)
        }
    }

    /// RFC 9639 9.2.7 with the 2-bit coding method 00 and the 4-bit order written as one 6-bit field
    pub open spec fn spec_bits(&self) -> Seq<bool> {
        lsbs_bits(self.partition_order as int, 6) + self.parts_from(0)
    }

    /// structural well-formedness (what `Residual::verify` checks: Kani units c18_residual_verify_gate_*)
    pub open spec fn well_formed(&self) -> bool {
        &&& self.partition_order <= 15
        &&& self.block_size <= 65535
        &&& self.rice_params@.len() == self.nparts()
        &&& self.quotients@.len() == self.block_size
        &&& self.remainders@.len() == self.block_size
        &&& self.nparts() * self.part_len() == self.block_size
        &&& self.warmup_length <= self.part_len()
        &&& forall|j: int| 0 <= j < self.rice_params@.len() ==> #[trigger] self.rice_params@[j] <= 14
    }

    pub fn partition_order(&self) -> (r: usize)
        ensures
            r == self.partition_order as usize,
    {
        self.partition_order as usize
    }

    pub fn block_size(&self) -> (r: usize)
        ensures
            r == self.block_size,
    {
        self.block_size
    }

    pub fn warmup_length(&self) -> (r: usize)
        ensures
            r == self.warmup_length,
    {
        self.warmup_length
    }

    pub fn rice_params(&self) -> (r: &[u8])
        ensures
            r@ == self.rice_params@,
    {
        self.rice_params.as_slice()
    }

    pub fn quotients(&self) -> (r: &[u32])
        ensures
            r@ == self.quotients@,
    {
        self.quotients.as_slice()
    }

    pub fn remainders(&self) -> (r: &[u32])
        ensures
            r@ == self.remainders@,
    {
        self.remainders.as_slice()
    }


    /// snoc form ++ forward form of the codes of one partition
    pub proof fn lemma_codes_join(&self, p: u8, lo: int, m: int, hi: int)
        requires
            0 <= lo <= m <= hi <= self.quotients@.len(),
            self.remainders@.len() == self.quotients@.len(),
            p <= 14,
            forall|t: int| lo <= t < hi ==> ((#[trigger] self.remainders@[t]) as nat) < pow2(p as nat),
        ensures
            codes_upto(self.quotients@, self.remainders@, p, lo, m) + self.codes_from(p, m, hi) == self.codes_from(p, lo, hi),
        decreases m - lo,
    {
        if m == lo {
            assert(codes_upto(self.quotients@, self.remainders@, p, lo, m) =~= Seq::<bool>::empty());
            assert(Seq::<bool>::empty() + self.codes_from(p, m, hi) =~= self.codes_from(p, m, hi));
        } else {
            self.lemma_codes_join(p, lo, m - 1, hi);
            lemma_pcode_is_rice_code(self.quotients@[m - 1], self.remainders@[m - 1], p);
            let a = codes_upto(self.quotients@, self.remainders@, p, lo, m - 1);
            let c = rice_code(self.quotients@[m - 1], self.remainders@[m - 1], p);
            assert(self.codes_from(p, m - 1, hi) == c + self.codes_from(p, m, hi));
            assert((a + c) + self.codes_from(p, m, hi) =~= a + (c + self.codes_from(p, m, hi)));
        }
    }

    /// remainders are below 2^parameter of their partition (what `Residual::verify` checks and what
    /// the parser's `take(parameter)` guarantees)
    pub open spec fn remainders_ok(&self) -> bool {
        forall|k: int, t: int|
            0 <= k < self.nparts() && k * self.part_len() <= t < (k + 1) * self.part_len() ==> ((
            #[trigger] self.remainders@[t]) as nat) < pow2((#[trigger] self.rice_params@[k]) as nat)
    }

    /// snoc form of the first k partitions ++ forward form of the others == all partitions
    pub proof fn lemma_parts_join(&self, k: int)
        requires
            self.well_formed(),
            self.remainders_ok(),
            0 <= k <= self.nparts(),
        ensures
            parts_upto(self.rice_params@, self.quotients@, self.remainders@, self.warmup_length as int, self.part_len(), 4, k)
                + self.parts_from(k) == self.parts_from(0),
        decreases k,
    {
        let rp = self.rice_params@;
        let q = self.quotients@;
        let r = self.remainders@;
        let w = self.warmup_length as int;
        let l = self.part_len();
        let n = self.nparts();
        if k == 0 {
            assert(parts_upto(rp, q, r, w, l, 4, 0) =~= Seq::<bool>::empty());
            assert(Seq::<bool>::empty() + self.parts_from(0) =~= self.parts_from(0));
        } else {
            self.lemma_parts_join(k - 1);
            let pk = rp[k - 1];
            assert((k - 1) * l + l == k * l) by (nonlinear_arith);
            assert(k * l <= n * l) by (nonlinear_arith)
                requires k <= n, l >= 0;
            assert((k - 1) * l >= 0) by (nonlinear_arith)
                requires k >= 1, l >= 0;
            // the warm-up lies inside the first partition: max(w, k*l) == k*l for k >= 1
            assert(k * l >= l) by (nonlinear_arith)
                requires k >= 1, l >= 0;
            assert(max_int(w, k * l) == k * l);
            let lo = max_int(w, (k - 1) * l);
            assert(Self::max_int(w, (k - 1) * l) == lo);
            assert(lo <= k * l);
            assert forall|t: int| lo <= t < k * l implies ((#[trigger] r[t]) as nat) < pow2(pk as nat) by {
                assert((k - 1) * l <= t);
                assert(rp[k - 1] == pk);
            }
            self.lemma_codes_join(pk, lo, k * l, k * l);
            assert(self.codes_from(pk, k * l, k * l) =~= Seq::<bool>::empty());
            assert(codes_upto(q, r, pk, lo, k * l) + Seq::<bool>::empty() =~= codes_upto(q, r, pk, lo, k * l));
            let a = parts_upto(rp, q, r, w, l, 4, k - 1);
            let h = lsbs_bits(pk as int, 4);
            let c = self.codes_from(pk, lo, k * l);
            assert(self.parts_from(k - 1) == h + c + self.parts_from(k));
            assert(parts_upto(rp, q, r, w, l, 4, k) == a + h + c);
            assert((a + h + c) + self.parts_from(k) =~= a + (h + c + self.parts_from(k)));
        }
    }

    /// callee contract: `Residual::from_parts` REQUIRES its debug assertion and stores its arguments
    #[verifier::external_body]
    pub fn from_parts(
        partition_order: u8,
        block_size: usize,
        warmup_length: usize,
        rice_params: Vec<u8>,
        quotients: Vec<u32>,
        remainders: Vec<u32>,
    ) -> (r: Self)
        requires
            partition_order < 16,
            rice_params@.len() == pow2(partition_order as nat),
        ensures
            r.partition_order == partition_order,
            r.block_size == block_size,
            r.warmup_length == warmup_length,
            r.rice_params@ == rice_params@,
            r.quotients@ == quotients@,
            r.remainders@ == remainders@,
    {
        unimplemented!()
    }
}

// ---- nom, with the bit-level meaning of its primitives (assumption A-nom) ------------------------
#[derive(Clone, Copy)]
pub struct BitInput<'a> {
    pub bytes: &'a [u8],
    pub offset: usize,
}

/// the bits not yet consumed
pub uninterp spec fn bits_of(i: BitInput) -> Seq<bool>;

pub struct NomErr {
    pub dummy: u8,
}

#[verifier::external_body]
pub fn bit_take_u8<'a>(count: usize, input: BitInput<'a>) -> (r: Result<(BitInput<'a>, u8), NomErr>)
    requires
        count <= 8,
    ensures
        r is Ok ==> (r->Ok_0.1 as nat) < pow2(count as nat) && bits_of(input) == lsbs_bits(r->Ok_0.1 as int, count as nat) + bits_of(
            r->Ok_0.0,
        ),
{
    unimplemented!()
}

#[verifier::external_body]
pub fn bit_take_u32<'a>(count: usize, input: BitInput<'a>) -> (r: Result<(BitInput<'a>, u32), NomErr>)
    requires
        count <= 32,
    ensures
        r is Ok ==> (r->Ok_0.1 as nat) < pow2(count as nat) && bits_of(input) == lsbs_bits(r->Ok_0.1 as int, count as nat) + bits_of(
            r->Ok_0.0,
        ),
{
    unimplemented!()
}

/// `parser::unary_code` (nom many0_count(tag(0)) then tag(1)): q zeros and a one
#[verifier::external_body]
pub fn unary_code<'a>(input: BitInput<'a>) -> (r: Result<(BitInput<'a>, usize), NomErr>)
    ensures
        r is Ok ==> r->Ok_0.1 < 0x1_0000_0000 && bits_of(input) == zeros(r->Ok_0.1 as nat) + seq![true] + bits_of(r->Ok_0.0),
{
    unimplemented!()
}

pub proof fn lemma_shl_pow2(o: u8)
    requires
        o < 16,
    ensures
        (1usize << (o as usize)) == pow2(o as nat),
        pow2(o as nat) >= 1,
        pow2(o as nat) <= 32768,
{
    reveal_with_fuel(pow2, 17);
    let oo = o as usize;
    assert(oo <= 15 ==> (1usize << oo) == if oo == 0 { 1usize } else if oo == 1 { 2usize } else if oo == 2 { 4usize } else if oo
        == 3 { 8usize } else if oo == 4 { 16usize } else if oo == 5 { 32usize } else if oo == 6 { 64usize } else if oo == 7 {
        128usize
    } else if oo == 8 { 256usize } else if oo == 9 { 512usize } else if oo == 10 { 1024usize } else if oo == 11 {
        2048usize
    } else if oo == 12 { 4096usize } else if oo == 13 { 8192usize } else if oo == 14 { 16384usize } else { 32768usize })
        by (bit_vector);
}

pub proof fn lemma_small_pow2()
    ensures
        pow2(2) == 4,
        pow2(4) == 16,
        pow2(5) == 32,
{
    reveal_with_fuel(pow2, 6);
}

pub proof fn lemma_part_bounds(a: int, k: int, p: int)
    requires
        a >= 0,
        k >= 1,
        0 <= p < k,
    ensures
        (a / k) * p >= 0,
        (a / k) * p <= (a / k) * (p + 1),
        (a / k) * (p + 1) <= a,
{
    let q = a / k;
    assert(q >= 0 && q * k <= a) by (nonlinear_arith)
        requires a >= 0, k >= 1, q == a / k;
    assert(q * p >= 0 && q * p <= q * (p + 1) && q * (p + 1) <= q * k) by (nonlinear_arith)
        requires q >= 0, 0 <= p, p + 1 <= k;
}

/// what the parsed residual must satisfy for the equality claim (all of it is checked by
/// `Residual::verify`)
pub open spec fn claim_applies(r: &Residual) -> bool {
    r.well_formed()
}

//@extract file=src/component/parser.rs fn="pub fn residual"
//@subst `pub fn residual<'a, E>(\n    block_size: usize,\n    warmup_length: usize,\n) -> impl FnMut(BitInput<'a>) -> IResult<BitInput<'a>, component::Residual, E>\nwhere\n    E: ParseError<BitInput<'a>>,\n{\n    move |input| {` => `pub fn residual<'a>(\n    block_size: usize,\n    warmup_length: usize,\n    input: BitInput<'a>,\n) -> (res: Result<(BitInput<'a>, Residual), NomErr>)\n{\n    {`
//@subst `bit_take(2usize)(remaining_input)?` => `bit_take_u8(2usize, remaining_input)?`
//@subst `bit_take(4usize)(remaining_input)?` => `bit_take_u8(4usize, remaining_input)?`
//@subst `bit_take(p_bits)(remaining_input)?` => `bit_take_u8(p_bits, remaining_input)?`
//@subst `bit_take(rice_p as usize)(remaining_input)?` => `bit_take_u32(rice_p as usize, remaining_input)?`
//@subst `return Err(nom::Err::Error(error_position!(\n                    remaining_input,\n                    nom::error::ErrorKind::TagBits\n                )));` => `return Err(NomErr { dummy: 0 });`
//@subst `component::Residual::from_parts(` => `Residual::from_parts(`
//@subst `                    continue;\n                }\n` => `                } else {\n`
//@subst `                remainders.push(r);\n            }` => `                remainders.push(r);\n            }}`
//@subst `let mut rice_params = Vec::with_capacity(partition_count);` => `let mut rice_params: Vec<u8> = Vec::with_capacity(partition_count);`
//@subst `let mut quotients = Vec::with_capacity(block_size);` => `let mut quotients: Vec<u32> = Vec::with_capacity(block_size);`
//@subst `let mut remainders = Vec::with_capacity(block_size);` => `let mut remainders: Vec<u32> = Vec::with_capacity(block_size);`
//@sig
//|     ensures
//|         res is Ok ==> {
//|             let r = res->Ok_0.1;
//|             claim_applies(&r) ==> (bits_of(input) == r.spec_bits() + bits_of(res->Ok_0.0) || exists|tail: Seq<bool>|
//|                 bits_of(input) == lsbs_bits(1, 2) + tail)
//|         },
//@bodystart
//|     let ghost tot = bits_of(input);
//@before `let partition_count = 1usize << (partition_order as usize);`
//|         let ghost hdr = lsbs_bits(method as int, 2) + lsbs_bits(partition_order as int, 4);
//|         let ghost pb: nat = p_bits as nat;
//|         let ghost w = warmup_length as int;
//|         proof {
//|             lemma_small_pow2();
//|             lemma_shl_pow2(partition_order);
//|             assert(tot =~= hdr + bits_of(remaining_input));
//|         }
//@before `for part in 0..partition_count {`
//|         let ghost len = partition_len as int;
//|         proof {
//|             assert(partition_len * 0 == 0) by (nonlinear_arith);
//|             assert(parts_upto(rice_params@, quotients@, remainders@, w, len, pb, 0) =~= Seq::<bool>::empty());
//|             assert(tot =~= hdr + parts_upto(rice_params@, quotients@, remainders@, w, len, pb, 0) + bits_of(remaining_input));
//|         }
//@loop 1
//|             invariant
//|                 partition_order < 16,
//|                 partition_count == pow2(partition_order as nat),
//|                 partition_count >= 1,
//|                 partition_len == block_size / partition_count,
//|                 len == partition_len as int,
//|                 w == warmup_length as int,
//|                 pb == p_bits as nat,
//|                 p_bits == 4 || p_bits == 5,
//|                 rice_params@.len() == part,
//|                 quotients@.len() == partition_len * part,
//|                 remainders@.len() == partition_len * part,
//|                 forall|j: int| 0 <= j < rice_params@.len() ==> #[trigger] rice_params@[j] < 32,
//|                 forall|k: int, t: int| 0 <= k < part && k * len <= t < (k + 1) * len && w <= t ==> ((#[trigger] remainders@[t]) as nat) < pow2((#[trigger] rice_params@[k]) as nat),
//|                 forall|t: int| 0 <= t < w && t < remainders@.len() ==> #[trigger] remainders@[t] == 0,
//|                 tot == hdr + parts_upto(rice_params@, quotients@, remainders@, w, len, pb, part as int) + bits_of(remaining_input),
//@loopbody 1
//|             let ghost rp0 = rice_params@;
//|             let ghost q0 = quotients@;
//|             let ghost r0 = remainders@;
//|             let ghost in0 = remaining_input;
//|             let ghost done0 = parts_upto(rp0, q0, r0, w, len, pb, part as int);
//|             proof {
//|                 lemma_small_pow2();
//|                 lemma_part_bounds(block_size as int, partition_count as int, part as int);
//|             }
//@loop 2
//|                 invariant
//|                     rice_p < 32,
//|                     (rice_p as nat) < pow2(pb),
//|                     pb == p_bits as nat,
//|                     p_bits == 4 || p_bits == 5,
//|                     len == partition_len as int,
//|                     w == warmup_length as int,
//|                     partition_len * part <= t <= partition_len * (part + 1),
//|                     quotients@.len() == t,
//|                     remainders@.len() == t,
//|                     rice_params@ == rp0.push(rice_p),
//|                     rp0.len() == part,
//|                     q0.len() == partition_len * part,
//|                     r0.len() == partition_len * part,
//|                     forall|i: int| 0 <= i < q0.len() ==> quotients@[i] == q0[i] && remainders@[i] == r0[i],
//|                     forall|u: int| partition_len * part <= u < t && w <= u ==> ((#[trigger] remainders@[u]) as nat) < pow2(rice_p as nat),
//|                     forall|u: int| 0 <= u < w && u < remainders@.len() ==> #[trigger] remainders@[u] == 0,
//|                     done0 == parts_upto(rp0, q0, r0, w, len, pb, part as int),
//|                     tot == hdr + done0 + lsbs_bits(rice_p as int, pb) + codes_upto(quotients@, remainders@, rice_p, max_int(w, len * part), max_int(w, t as int)) + bits_of(remaining_input),
//@before `for t in (partition_len * part)..(partition_len * (part + 1)) {`
//|             proof {
//|                 assert(codes_upto(quotients@, remainders@, rice_p, max_int(w, len * part), max_int(w, len * part)) =~= Seq::<bool>::empty());
//|                 assert(tot =~= hdr + done0 + lsbs_bits(rice_p as int, pb) + codes_upto(quotients@, remainders@, rice_p, max_int(w, len * part), max_int(w, len * part)) + bits_of(remaining_input));
//|             }
//@loopbody 2
//|                 let ghost qa = quotients@;
//|                 let ghost ra = remainders@;
//|                 let ghost ina = remaining_input;
//|                 let ghost lo2 = max_int(w, len * part);
//@after `                    remainders.push(0);`
//|                     proof {
//|                         // a warm-up sample: nothing is read, the coded range [max(w, lo), max(w, t+1)) stays empty
//|                         assert(max_int(w, t as int) == w && max_int(w, t + 1) == w);
//|                         lemma_codes_stable(qa, ra, quotients@, remainders@, rice_p, lo2, w);
//|                     }
//@after `                remainders.push(r);`
//|                     proof {
//|                         assert(max_int(w, t as int) == t && max_int(w, t + 1) == t + 1);
//|                         lemma_codes_stable(qa, ra, quotients@, remainders@, rice_p, lo2, t as int);
//|                         let c0 = codes_upto(qa, ra, rice_p, lo2, t as int);
//|                         let pc = pcode(q as u32, r, rice_p);
//|                         assert(codes_upto(quotients@, remainders@, rice_p, lo2, t + 1) == c0 + pc);
//|                         let base = hdr + done0 + lsbs_bits(rice_p as int, pb);
//|                         assert(bits_of(ina) =~= pc + bits_of(remaining_input));
//|                         assert(tot =~= base + (c0 + pc) + bits_of(remaining_input));
//|                     }
//@afterloop 2
//|             proof {
//|                 assert(partition_len * (part + 1) == len * part + len) by (nonlinear_arith)
//|                     requires len == partition_len as int;
//|                 assert(len * part == part * len) by (nonlinear_arith);
//|                 assert(len * (part + 1) == (part + 1) * len) by (nonlinear_arith);
//|                 assert(partition_len * (part + 1) == (part + 1) * len) by (nonlinear_arith)
//|                     requires len == partition_len as int;
//|                 assert(part * len == q0.len());
//|                 lemma_parts_stable(rp0, q0, r0, rice_params@, quotients@, remainders@, w, len, pb, part as int);
//|                 assert forall|k: int, u: int| 0 <= k < part + 1 && k * len <= u < (k + 1) * len && w <= u implies ((#[trigger] remainders@[u]) as nat) < pow2((#[trigger] rice_params@[k]) as nat) by {
//|                     if k < part {
//|                         assert((k + 1) * len <= part * len) by (nonlinear_arith)
//|                             requires k + 1 <= part, len >= 0;
//|                         assert(rice_params@[k] == rp0[k]);
//|                         assert(remainders@[u] == r0[u]);
//|                         assert(((r0[u]) as nat) < pow2((rp0[k]) as nat));
//|                     } else {
//|                         assert(rice_params@[k] == rice_p);
//|                     }
//|                 }
//|                 assert(parts_upto(rice_params@, quotients@, remainders@, w, len, pb, part + 1) == parts_upto(rice_params@, quotients@, remainders@, w, len, pb, part as int)
//|                     + lsbs_bits(rice_params@[part as int] as int, pb) + codes_upto(quotients@, remainders@, rice_params@[part as int], max_int(w, part * len), max_int(w, (part + 1) * len)));
//|             }
//@before `let parsed = Residual::from_parts(`
//|         let ghost rpf = rice_params@;
//|         let ghost qf = quotients@;
//|         let ghost rf = remainders@;
//@before `        Ok((remaining_input, parsed))`
//|         proof {
//|             if claim_applies(&parsed) {
//|                 if p_bits == 4 {
//|                     lemma_final(&parsed, tot, bits_of(remaining_input), partition_count as int, len, method);
//|                 } else {
//|                     let tail = lsbs_bits(partition_order as int, 4) + parts_upto(rpf, qf, rf, w, len, pb, partition_count as int) + bits_of(remaining_input);
//|                     assert(tot =~= lsbs_bits(1, 2) + tail);
//|                 }
//|             }
//|         }
//@end

/// the last step: the snoc-form bits the parser consumed are the writer's bit string
pub proof fn lemma_final(r: &Residual, tot: Seq<bool>, rest: Seq<bool>, count: int, len: int, method: u8)
    requires
        r.well_formed(),
        method == 0,
        count == pow2(r.partition_order as nat),
        len == r.block_size as int / count,
        r.quotients@.len() == len * count,
        tot == lsbs_bits(method as int, 2) + lsbs_bits(r.partition_order as int, 4) + parts_upto(
            r.rice_params@,
            r.quotients@,
            r.remainders@,
            r.warmup_length as int,
            len,
            4,
            count,
        ) + rest,
        forall|k: int, t: int|
            0 <= k < count && k * len <= t < (k + 1) * len && r.warmup_length <= t ==> ((#[trigger] r.remainders@[t]) as nat) < pow2(
                (#[trigger] r.rice_params@[k]) as nat,
            ),
        forall|t: int| 0 <= t < r.warmup_length && t < r.remainders@.len() ==> #[trigger] r.remainders@[t] == 0,
    ensures
        tot == r.spec_bits() + rest,
{
    lemma_shl_pow2(r.partition_order);
    let bsz = r.block_size;
    let ord = r.partition_order as usize;
    let cnt: usize = (1usize << ord);
    assert(ord <= 15 && cnt == (1usize << ord) ==> (bsz >> ord) == bsz / cnt) by (bit_vector);
    assert(r.nparts() == count);
    assert(r.part_len() == len);
    assert forall|k: int, t: int| 0 <= k < r.nparts() && k * r.part_len() <= t < (k + 1) * r.part_len() implies ((
    #[trigger] r.remainders@[t]) as nat) < pow2((#[trigger] r.rice_params@[k]) as nat) by {
        if t < r.warmup_length {
            assert((k + 1) * len <= count * len) by (nonlinear_arith)
                requires k + 1 <= count, len >= 0;
            assert(r.remainders@[t] == 0);
            lemma_pow2_pos(r.rice_params@[k] as nat);
        }
    }
    r.lemma_parts_join(count);
    assert(r.parts_from(count) =~= Seq::<bool>::empty());
    axiom_lsbs_split6(r.partition_order as int);
    let pu = parts_upto(r.rice_params@, r.quotients@, r.remainders@, r.warmup_length as int, len, 4, count);
    assert(pu + Seq::<bool>::empty() =~= pu);
    assert(tot =~= (lsbs_bits(0, 2) + lsbs_bits(r.partition_order as int, 4)) + pu + rest);
}

pub proof fn lemma_pow2_pos(p: nat)
    ensures
        pow2(p) >= 1,
    decreases p,
{
    if p > 0 {
        lemma_pow2_pos((p - 1) as nat);
    }
}

} // verus!
fn main() {}
