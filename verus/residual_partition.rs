//@ unit props=C01,C13 tier=quick kind=unbounded timeout=180 funcs="coding::encode_residual_partition; coding::encode_residual_with_prc_parameter" stubs="quotients_and_remainders -> (q << p) + r == zigzag(e), r < 2^p [proved by Kani unit coding::verif::c01_quotients_and_remainders]; Residual::from_parts -> stores its arguments [datatype]" note="destructuring assignment `(a[t], b[t]) = f(x)` rewritten to `let qr = f(x); a[t] = qr.0; b[t] = qr.1;` (unsupported by Verus); `1 << order` / `len >> order` related to pow2 by bit_vector lemmas"
// C01.3 / C13 'applied to the residual': the partition plumbing between the Rice parameter search
// and the Residual component, for ANY block length and partition order:
//   encode_residual_partition: every t in [start, end) is Rice-split with the partition's
//     parameter and nothing outside [start, end) is written;
//   encode_residual_with_prc_parameter: partitions tile [0, n); sample t >= warm-up is split with
//     the parameter of partition t / (n >> order); quotients/remainders are 0 below the warm-up;
//     order and parameters reach `Residual::from_parts` unchanged.
use vstd::prelude::*;
verus! {

/// zig-zag folding (RFC 9639 9.2.7.3)
pub open spec fn zigzag(v: int) -> int {
    if v >= 0 { 2 * v } else { -2 * v - 1 }
}

pub open spec fn pow2(p: nat) -> int
    decreases p,
{
    if p == 0 { 1 } else { 2 * pow2((p - 1) as nat) }
}

/// (q, r) is the Rice split of `e` with parameter `p`
pub open spec fn rice_split(e: i32, p: u8, q: u32, r: u32) -> bool {
    &&& 0 <= r < pow2(p as nat)
    &&& q as int * pow2(p as nat) + r as int == zigzag(e as int)
}

/// callee contract (proved on the real function by Kani, complete over i32 x 0..=14)
#[verifier::external_body]
pub fn quotients_and_remainders(err: i32, rice_p: u8) -> (qr: (u32, u32))
    requires
        rice_p <= 14,
        err != i32::MIN,
    ensures
        rice_split(err, rice_p, qr.0, qr.1),
{
    unimplemented!()
}

//@extract file=src/coding.rs fn="fn encode_residual_partition"
//@subst `(quotients[t], remainders[t]) = quotients_and_remainders(*err, rice_p);` => `let qr = quotients_and_remainders(*err, rice_p); quotients[t] = qr.0; remainders[t] = qr.1;`
//@subst `for err in &errors[start..end] {` => `for err in it: &errors[start..end] {`
//@sig
//|     requires
//|         start <= end <= errors@.len(),
//|         old(quotients)@.len() == errors@.len(),
//|         old(remainders)@.len() == errors@.len(),
//|         rice_p <= 14,
//|         forall|i: int| start <= i < end ==> #[trigger] errors@[i] != i32::MIN,
//|     ensures
//|         final(quotients)@.len() == old(quotients)@.len(),
//|         final(remainders)@.len() == old(remainders)@.len(),
//|         forall|i: int| start <= i < end ==> rice_split(#[trigger] errors@[i], rice_p, final(quotients)@[i], final(remainders)@[i]),
//|         forall|i: int| 0 <= i < start || end <= i < errors@.len() ==> #[trigger] final(quotients)@[i] == old(quotients)@[i],
//|         forall|i: int| 0 <= i < start || end <= i < errors@.len() ==> #[trigger] final(remainders)@[i] == old(remainders)@[i],
//@loop 1
//|         invariant
//|             start <= end <= errors@.len(),
//|             t == start + it.index@,
//|             it.index@ <= end - start,
//|             rice_p <= 14,
//|             quotients@.len() == errors@.len(),
//|             remainders@.len() == errors@.len(),
//|             forall|i: int| start <= i < end ==> #[trigger] errors@[i] != i32::MIN,
//|             forall|i: int| start <= i < t ==> rice_split(#[trigger] errors@[i], rice_p, quotients@[i], remainders@[i]),
//|             forall|i: int| 0 <= i < start || t <= i < errors@.len() ==> #[trigger] quotients@[i] == old(quotients)@[i],
//|             forall|i: int| 0 <= i < start || t <= i < errors@.len() ==> #[trigger] remainders@[i] == old(remainders)@[i],
//@end

// ---- environment of encode_residual_with_prc_parameter ---------------------------------------
pub struct Prc {
    pub max_parameter: usize,
}

pub struct PrcParameter {
    pub order: usize,
    pub ps: Vec<u8>,
    pub code_bits: usize,
}

/// the fields of `component::Residual` this function determines
pub struct Residual {
    pub partition_order: u8,
    pub block_size: usize,
    pub warmup_length: usize,
    pub rice_params: Vec<u8>,
    pub quotients: Vec<u32>,
    pub remainders: Vec<u32>,
}

impl Residual {
    /// callee contract: `Residual::from_parts` stores its arguments (the cached sums it adds are
    /// the subject of Kani unit datatype::verif::c08_residual_from_parts_sums)
    #[verifier::external_body]
    pub fn from_parts(
        partition_order: u8,
        block_size: usize,
        warmup_length: usize,
        rice_params: Vec<u8>,
        quotients: Vec<u32>,
        remainders: Vec<u32>,
    ) -> (r: Self)
        ensures
            r.partition_order == partition_order,
            r.block_size == block_size,
            r.warmup_length == warmup_length,
            r.rice_params@ == rice_params@,
            r.quotients@ == quotients@,
            r.remainders@ == remainders@,
    {
        unimplemented!()
    }
}

/// wrapper for `std::cmp::max::<usize>` (Verus cannot attach a usize-specific spec to the generic
/// std function); its body is literally the std call.
#[verifier::external_body]
pub fn max_usize(a: usize, b: usize) -> (r: usize)
    ensures
        r == (if a >= b { a } else { b }),
{
    std::cmp::max(a, b)
}

proof fn lemma_div_in_part(t: int, k: int, ps: int)
    requires
        ps > 0,
        k >= 0,
        k * ps <= t < (k + 1) * ps,
    ensures
        t / ps == k,
{
    assert((k + 1) * ps == k * ps + ps) by (nonlinear_arith);
    vstd::arithmetic::div_mod::lemma_fundamental_div_mod_converse(t, ps, k, t - k * ps);
}

//@extract file=src/coding.rs fn="fn encode_residual_with_prc_parameter"
//@subst `_config: &config::Prc,` => `_config: &Prc,`
//@subst `prc_p: rice::PrcParameter,` => `prc_p: PrcParameter,`
//@subst `) -> Residual {` => `) -> (res: Residual) {`
//@subst `for rice_p in &prc_p.ps[0..nparts] {` => `for rice_p in it: &prc_p.ps[0..nparts] {`
//@subst `std::cmp::max(offset, warmup_length)` => `max_usize(offset, warmup_length)`
//@subst `let nparts = 1 << prc_p.order;` => `let nparts: usize = 1usize << prc_p.order;`
//@sig
//|     requires
//|         prc_p.order <= 15,
//|         (1usize << prc_p.order) == prc_p.ps@.len(),
//|         // partitions divide the block (rice::finest_partition_order, Kani unit c02_finest_partition_order)
//|         (errors.len() >> prc_p.order) * prc_p.ps@.len() == errors@.len(),
//|         (errors.len() >> prc_p.order) >= warmup_length,
//|         forall|j: int| 0 <= j < prc_p.ps@.len() ==> #[trigger] prc_p.ps@[j] <= 14,
//|         forall|i: int| 0 <= i < errors@.len() ==> #[trigger] errors@[i] != i32::MIN,
//|     ensures
//|         res.partition_order as int == prc_p.order,
//|         res.block_size == errors@.len(),
//|         res.warmup_length == warmup_length,
//|         res.rice_params@ == prc_p.ps@,
//|         res.quotients@.len() == errors@.len(),
//|         res.remainders@.len() == errors@.len(),
//|         forall|t: int| 0 <= t < warmup_length && t < errors@.len() ==> #[trigger] res.quotients@[t] == 0 && res.remainders@[t] == 0,
//|         forall|t: int| warmup_length <= t < errors@.len() ==> rice_split(
//|             #[trigger] errors@[t],
//|             prc_p.ps@[t / ((errors.len() >> prc_p.order) as int)],
//|             res.quotients@[t],
//|             res.remainders@[t],
//|         ),
//@loop 1
//|         invariant
//|             block_size == errors@.len(),
//|             nparts == prc_p.ps@.len(),
//|             part_size == (errors.len() >> prc_p.order),
//|             nparts * part_size == errors@.len(),
//|             part_size >= warmup_length,
//|             it.index@ <= nparts,
//|             offset == it.index@ * part_size,
//|             quotients@.len() == block_size,
//|             remainders@.len() == block_size,
//|             forall|j: int| 0 <= j < prc_p.ps@.len() ==> #[trigger] prc_p.ps@[j] <= 14,
//|             forall|i: int| 0 <= i < errors@.len() ==> #[trigger] errors@[i] != i32::MIN,
//|             forall|t: int| 0 <= t < warmup_length && t < block_size ==> #[trigger] quotients@[t] == 0 && remainders@[t] == 0,
//|             forall|t: int| offset <= t < block_size ==> #[trigger] quotients@[t] == 0 && remainders@[t] == 0,
//|             forall|t: int| warmup_length <= t < offset ==> rice_split(
//|                 #[trigger] errors@[t],
//|                 prc_p.ps@[t / (part_size as int)],
//|                 quotients@[t],
//|                 remainders@[t],
//|             ),
//@before `let start = `
//|         let ghost k = it.index@;
//|         let ghost off0 = offset as int;
//|         proof {
//|             assert(k < nparts);
//|             assert((k + 1) * part_size <= nparts * part_size) by (nonlinear_arith)
//|                 requires k + 1 <= nparts, part_size >= 0;
//|             assert((k + 1) * part_size == k * part_size + part_size) by (nonlinear_arith);
//|         }
//@after `encode_residual_partition(start, end, *rice_p, errors, &mut quotients, &mut remainders);`
//|         proof {
//|             assert(*rice_p == prc_p.ps@[k]);
//|             assert forall|t: int| warmup_length <= t < offset implies rice_split(
//|                 #[trigger] errors@[t],
//|                 prc_p.ps@[t / (part_size as int)],
//|                 quotients@[t],
//|                 remainders@[t],
//|             ) by {
//|                 if t >= off0 {
//|                     lemma_div_in_part(t, k, part_size as int);
//|                 }
//|             }
//|         }
//@before `Residual::from_parts(`
//|     proof {
//|         assert(offset == block_size);
//|     }
//@end

} // verus!
fn main() {}
