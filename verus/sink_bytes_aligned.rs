//@ unit props=C11,C08 tier=quick kind=unbounded timeout=120 funcs="<MemSink<u64> as BitSink>::write_bytes_aligned; BitSink::write_bytes_aligned (default method)" stubs="align_to_byte, write::<u8> -> ideal bit string contracts [Kani C11 units s_align_only, s64_write_u8, user_sink_defaults]" note="the trait's default method and the word sink's override have the same text; both are extracted"
// C11: aligned byte slices of ANY length on the word-backed sink and through the trait's default
// method (what a user sink that implements only the required operations gets): the sink is first
// padded with zeros to a byte boundary, then receives every byte of the slice, in order; the padding
// count is returned; an error of an underlying operation is returned and leaves a prefix.
use vstd::prelude::*;
verus! {

pub open spec fn zeros(n: nat) -> Seq<bool> {
    Seq::new(n, |i: int| false)
}

pub open spec fn pad8(len: nat) -> nat {
    ((8 - len % 8) % 8) as nat
}

pub open spec fn is_prefix(a: Seq<bool>, b: Seq<bool>) -> bool {
    a.len() <= b.len() && b.subrange(0, a.len() as int) == a
}

pub proof fn lemma_prefix_append(a: Seq<bool>, b: Seq<bool>)
    ensures
        is_prefix(a, a + b),
{
    assert((a + b).subrange(0, a.len() as int) =~= a);
}

pub proof fn lemma_prefix_trans(a: Seq<bool>, b: Seq<bool>, c: Seq<bool>)
    requires
        is_prefix(a, b),
        is_prefix(b, c),
    ensures
        is_prefix(a, c),
{
    assert(c.subrange(0, a.len() as int) =~= c.subrange(0, b.len() as int).subrange(0, a.len() as int));
}

/// MSB-first bits of one byte
pub uninterp spec fn byte_bits(v: u8) -> Seq<bool>;

/// MSB-first bits of a byte string
pub open spec fn bytes_bits(b: Seq<u8>) -> Seq<bool>
    decreases b.len(),
{
    if b.len() == 0 {
        Seq::<bool>::empty()
    } else {
        bytes_bits(b.drop_last()) + byte_bits(b.last())
    }
}

pub trait BitSink: Sized {
    type Error;

    spec fn bits(&self) -> Seq<bool>;

    fn align_to_byte(&mut self) -> (r: Result<usize, Self::Error>)
        ensures
            is_prefix(old(self).bits(), final(self).bits()),
            r is Ok ==> final(self).bits() == old(self).bits() + zeros(pad8(old(self).bits().len())) && r->Ok_0 == pad8(
                old(self).bits().len(),
            ),
    ;

    /// `write::<u8>`
    fn write(&mut self, val: u8) -> (r: Result<(), Self::Error>)
        ensures
            is_prefix(old(self).bits(), final(self).bits()),
            r is Ok ==> final(self).bits() == old(self).bits() + byte_bits(val),
    ;
}

pub struct Sink<S: BitSink> {
    pub inner: S,
}

impl<S: BitSink> Sink<S> {
    pub open spec fn bits(&self) -> Seq<bool> {
        self.inner.bits()
    }

    fn align_to_byte(&mut self) -> (r: Result<usize, S::Error>)
        ensures
            is_prefix(old(self).bits(), final(self).bits()),
            r is Ok ==> final(self).bits() == old(self).bits() + zeros(pad8(old(self).bits().len())) && r->Ok_0 == pad8(
                old(self).bits().len(),
            ),
    {
        self.inner.align_to_byte()
    }

    fn write(&mut self, val: u8) -> (r: Result<(), S::Error>)
        ensures
            is_prefix(old(self).bits(), final(self).bits()),
            r is Ok ==> final(self).bits() == old(self).bits() + byte_bits(val),
    {
        self.inner.write(val)
    }

//@extract file=src/bitsink.rs impl="impl BitSink for MemSink<u64> {" fn="fn write_bytes_aligned" rename=write_bytes_aligned_word_sink
//@subst `-> Result<usize, Self::Error> {` => `-> (res: Result<usize, S::Error>) {`
//@subst `for b in bytes {` => `for b in it: bytes {`
//@sig
//|     ensures
//|         is_prefix(old(self).bits(), final(self).bits()),
//|         res is Ok ==> final(self).bits() == old(self).bits() + zeros(pad8(old(self).bits().len())) + bytes_bits(bytes@)
//|             && res->Ok_0 == pad8(old(self).bits().len()),
//@bodystart
//|     let ghost d0 = self.bits();
//@loop 1
//|         invariant
//|             is_prefix(d0, self.bits()),
//|             d0 == old(self).bits(),
//|             self.bits() == d0 + zeros(pad8(d0.len())) + bytes_bits(bytes@.take(it.index@)),
//|             it.index@ <= bytes@.len(),
//@loopbody 1
//|         proof {
//|             let k = it.index@;
//|             assert(bytes@.take(k + 1).drop_last() =~= bytes@.take(k));
//|             assert(bytes@.take(k + 1).last() == bytes@[k]);
//|             assert forall|x: Seq<bool>| is_prefix(self.bits(), x) implies is_prefix(d0, x) by {
//|                 lemma_prefix_trans(d0, self.bits(), x);
//|             }
//|             assert((d0 + zeros(pad8(d0.len())) + bytes_bits(bytes@.take(k))) + byte_bits(bytes@[k]) =~= d0 + zeros(pad8(d0.len())) + (bytes_bits(bytes@.take(k)) + byte_bits(bytes@[k])));
//|         }
//@before `for b in it: bytes {`
//|     proof {
//|         assert(bytes@.take(0) =~= Seq::<u8>::empty());
//|         assert(d0 + zeros(pad8(d0.len())) + bytes_bits(bytes@.take(0)) =~= d0 + zeros(pad8(d0.len())));
//|     }
//@afterloop 1
//|     proof {
//|         assert(bytes@.take(bytes@.len() as int) =~= bytes@);
//|     }
//@end

//@extract file=src/bitsink.rs impl="pub trait BitSink: Sized {" fn="fn write_bytes_aligned" rename=write_bytes_aligned_default
//@subst `-> Result<usize, Self::Error> {` => `-> (res: Result<usize, S::Error>) {`
//@subst `for b in bytes {` => `for b in it: bytes {`
//@sig
//|     ensures
//|         is_prefix(old(self).bits(), final(self).bits()),
//|         res is Ok ==> final(self).bits() == old(self).bits() + zeros(pad8(old(self).bits().len())) + bytes_bits(bytes@)
//|             && res->Ok_0 == pad8(old(self).bits().len()),
//@bodystart
//|     let ghost d0 = self.bits();
//@loop 1
//|         invariant
//|             is_prefix(d0, self.bits()),
//|             d0 == old(self).bits(),
//|             self.bits() == d0 + zeros(pad8(d0.len())) + bytes_bits(bytes@.take(it.index@)),
//|             it.index@ <= bytes@.len(),
//@loopbody 1
//|         proof {
//|             let k = it.index@;
//|             assert(bytes@.take(k + 1).drop_last() =~= bytes@.take(k));
//|             assert(bytes@.take(k + 1).last() == bytes@[k]);
//|             assert forall|x: Seq<bool>| is_prefix(self.bits(), x) implies is_prefix(d0, x) by {
//|                 lemma_prefix_trans(d0, self.bits(), x);
//|             }
//|             assert((d0 + zeros(pad8(d0.len())) + bytes_bits(bytes@.take(k))) + byte_bits(bytes@[k]) =~= d0 + zeros(pad8(d0.len())) + (bytes_bits(bytes@.take(k)) + byte_bits(bytes@[k])));
//|         }
//@before `for b in it: bytes {`
//|     proof {
//|         assert(bytes@.take(0) =~= Seq::<u8>::empty());
//|         assert(d0 + zeros(pad8(d0.len())) + bytes_bits(bytes@.take(0)) =~= d0 + zeros(pad8(d0.len())));
//|     }
//@afterloop 1
//|     proof {
//|         assert(bytes@.take(bytes@.len() as int) =~= bytes@);
//|     }
//@end

}

} // verus!
fn main() {}
