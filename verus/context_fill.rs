//@ unit props=C03,C14,C17 tier=quick kind=unbounded timeout=120 funcs="Context::new; Context::fill_interleaved; Context::fill_le_bytes; Context::total_samples" note="md5::Md5 is an external type whose `update` appends its argument to a ghost byte sequence (assumption A-deps: md-5 hashes what it is fed); i32::to_le_bytes through an external_body wrapper whose spec is proved by Kani unit arrayutils::verif::le_bytes_spec"
// C03 / C14 / C17: the MD5 / sample-count context.
//   fill_interleaved feeds EXACTLY the channel-interleaved little-endian bytes of the byte-rounded
//   width, for any number of samples (loop invariant over the real loop), advances the sample and
//   frame counters as the property states, and an empty fill changes nothing;
//   fill_le_bytes feeds exactly the given bytes and advances the counters identically, and a
//   bytes-per-sample that disagrees with the declared width is an error that changes nothing.
use vstd::prelude::*;
verus! {

// ---- model of the parts of the environment the functions touch ---------------------------------
#[verifier::external_body]
pub struct Md5 {
    _p: core::marker::PhantomData<()>,
}

impl Md5 {
    /// ghost view: every byte fed to the digest so far, in order
    pub uninterp spec fn fed(&self) -> Seq<u8>;

    #[verifier::external_body]
    pub fn update(&mut self, data: &[u8])
        ensures
            final(self).fed() == old(self).fed() + data@,
    {
        unimplemented!()
    }
}

pub enum SourceErrorReason {
    Open,
    InvalidBuffer,
    InvalidFormat,
    UnsupportedFormat,
}

pub struct SourceError {
    pub reason: SourceErrorReason,
}

impl SourceError {
    pub fn by_reason(reason: SourceErrorReason) -> (r: Self) {
        Self { reason }
    }
}

pub struct Context {
    pub md5: Md5,
    pub bytes_per_sample: usize,
    pub channels: usize,
    pub sample_count: usize,
    pub frame_count: usize,
}

// ---- specification --------------------------------------------------------------------------
/// little-endian two's-complement bytes of a 32-bit integer
pub open spec fn le_bytes(v: i32) -> Seq<u8> {
    seq![
        (v as u32 & 0xff) as u8,
        ((v as u32 >> 8) & 0xff) as u8,
        ((v as u32 >> 16) & 0xff) as u8,
        ((v as u32 >> 24) & 0xff) as u8,
    ]
}

/// the MD5 input RFC 9639 prescribes: every sample, in interleaved order, as `b` little-endian bytes
pub open spec fn md5_input(s: Seq<i32>, b: int) -> Seq<u8>
    decreases s.len(),
{
    if s.len() == 0 {
        Seq::<u8>::empty()
    } else {
        md5_input(s.drop_last(), b) + le_bytes(s.last()).subrange(0, b)
    }
}

#[verifier::external_body]
pub fn i32_to_le_bytes(v: i32) -> (r: [u8; 4])
    ensures
        r@ == le_bytes(v),
{
    v.to_le_bytes()
}

impl Md5 {
    #[verifier::external_body]
    pub fn new() -> (r: Self)
        ensures
            r.fed().len() == 0,
    {
        unimplemented!()
    }
}

impl Context {

//@extract file=src/source.rs impl="impl Context {" fn="pub fn new"
//@subst `md5: md5::Md5::new(),` => `md5: Md5::new(),`
//@subst `-> Self {` => `-> (r: Self) {`
//@sig
//|     requires
//|         bits_per_sample <= 32,
//|     ensures
//|         // the byte-rounded sample width (C03: the MD5 is taken over samples of that many bytes)
//|         r.bytes_per_sample * 8 >= bits_per_sample,
//|         r.bytes_per_sample * 8 < bits_per_sample + 8,
//|         r.channels == channels,
//|         r.sample_count == 0,
//|         r.frame_count == 0,
//|         r.md5.fed().len() == 0,
//@end

//@extract file=src/source.rs impl="impl Fill for Context" fn="fn fill_interleaved"
//@subst `v.to_le_bytes()` => `i32_to_le_bytes(*v)`
//@subst `-> Result<(), SourceError> {` => `-> (r: Result<(), SourceError>) {`
//@subst `for v in interleaved {` => `for v in it: interleaved {`
//@sig
//|     requires
//|         1 <= old(self).bytes_per_sample <= 4,
//|         old(self).channels >= 1,
//|         old(self).sample_count + interleaved@.len() <= usize::MAX,
//|         old(self).frame_count < usize::MAX,
//|     ensures
//|         r is Ok,
//|         final(self).md5.fed() == old(self).md5.fed() + md5_input(interleaved@, old(self).bytes_per_sample as int),
//|         final(self).bytes_per_sample == old(self).bytes_per_sample,
//|         final(self).channels == old(self).channels,
//|         final(self).sample_count == old(self).sample_count + interleaved@.len() / old(self).channels as nat,
//|         final(self).frame_count == old(self).frame_count + (if interleaved@.len() > 0 { 1nat } else { 0nat }),
//@loop 1
//|         invariant
//|             it.index@ <= interleaved@.len(),
//|             1 <= self.bytes_per_sample <= 4,
//|             self.bytes_per_sample == old(self).bytes_per_sample,
//|             self.channels == old(self).channels,
//|             self.sample_count == old(self).sample_count,
//|             self.frame_count == old(self).frame_count,
//|             self.md5.fed() == old(self).md5.fed() + md5_input(interleaved@.take(it.index@), self.bytes_per_sample as int),
//@before `self.md5.update(`
//|         proof {
//|             assert(interleaved@.take(it.index@ + 1).drop_last() =~= interleaved@.take(it.index@));
//|             assert(interleaved@.take(it.index@ + 1).last() == *v);
//|         }
//@before `self.sample_count += interleaved.len() / self.channels;`
//|     proof {
//|         assert(interleaved@.take(interleaved@.len() as int) =~= interleaved@);
//|     }
//@end

//@extract file=src/source.rs impl="impl Fill for Context" fn="fn fill_le_bytes"
//@subst `-> Result<(), SourceError> {` => `-> (r: Result<(), SourceError>) {`
//@sig
//|     requires
//|         old(self).channels >= 1,
//|         old(self).bytes_per_sample >= 1,
//|         old(self).sample_count + bytes@.len() <= usize::MAX,
//|         old(self).frame_count < usize::MAX,
//|     ensures
//|         // C17: a byte fill whose bytes-per-sample disagrees with the declared width is an error
//|         //      and changes nothing
//|         bytes_per_sample != old(self).bytes_per_sample ==> r is Err
//|             && final(self).md5.fed() == old(self).md5.fed()
//|             && final(self).sample_count == old(self).sample_count
//|             && final(self).frame_count == old(self).frame_count,
//|         // C03/C14: otherwise exactly the given bytes are hashed and the counters advance as
//|         //      for the integer path
//|         bytes_per_sample == old(self).bytes_per_sample ==> r is Ok
//|             && final(self).md5.fed() == old(self).md5.fed() + bytes@
//|             && final(self).sample_count == old(self).sample_count
//|                 + (bytes@.len() / old(self).channels as nat) / bytes_per_sample as nat
//|             && final(self).frame_count == old(self).frame_count + (if bytes@.len() > 0 { 1nat } else { 0nat }),
//|         final(self).bytes_per_sample == old(self).bytes_per_sample,
//|         final(self).channels == old(self).channels,
//@end

//@extract file=src/source.rs impl="impl Context" fn="pub fn total_samples"
//@subst `-> usize {` => `-> (r: usize) {`
//@sig
//|     ensures
//|         r == self.sample_count,
//@end

}

} // verus!
fn main() {}
