//@ unit props=C15,C01 tier=quick kind=unbounded timeout=180 funcs="<Residual as Decode>::copy_signal" stubs="rice::decode_signbit -> inverse zig-zag [Kani contract c01_decode_signbit_contract]; Residual accessors -> the fields" note="u32 << u8 related to multiplication by a bit_vector lemma"
// C15 clause 3 / C01: the crate's residual decoder for ANY block size and partition order:
//   dest[t] == unzigzag(quotients[t] * 2^p + remainders[t])  with  p = rice_params[t / (n >> order)],
//   nothing beyond the block is written, and - given a residual whose codes fit 32 bits (what the
//   encoder's Rice split guarantees: lemma_split_roundtrip) - no shift, index or arithmetic fails.
// Together with unit residual_partition (every sample >= warm-up is Rice-split with the parameter of
// its partition) this is the residual round trip: decode(encode(e))[t] == e[t]  (lemma at the end).
use vstd::prelude::*;
verus! {

pub open spec fn pow2(p: nat) -> int
    decreases p,
{
    if p == 0 { 1 } else { 2 * pow2((p - 1) as nat) }
}

pub open spec fn zigzag(v: int) -> int {
    if v >= 0 { 2 * v } else { -2 * v - 1 }
}

/// inverse zig-zag (RFC 9639 9.2.7.3)
pub open spec fn unzigzag(u: int) -> int {
    if u % 2 == 0 { u / 2 } else { -(u / 2) - 1 }
}

pub proof fn lemma_unzigzag_zigzag(v: int)
    ensures
        unzigzag(zigzag(v)) == v,
{
}

pub struct Residual {
    pub partition_order: u8,
    pub block_size: usize,
    pub warmup_length: usize,
    pub rice_params: Vec<u8>,
    pub quotients: Vec<u32>,
    pub remainders: Vec<u32>,
}

impl Residual {
    pub fn partition_order(&self) -> (r: usize)
        ensures
            r == self.partition_order as usize,
    {
        self.partition_order as usize
    }

    pub fn block_size(&self) -> (r: usize)
        ensures
            r == self.block_size,
    {
        self.block_size
    }

    pub fn rice_params(&self) -> (r: &[u8])
        ensures
            r@ == self.rice_params@,
    {
        self.rice_params.as_slice()
    }

    pub fn quotients(&self) -> (r: &[u32])
        ensures
            r@ == self.quotients@,
    {
        self.quotients.as_slice()
    }

    pub fn remainders(&self) -> (r: &[u32])
        ensures
            r@ == self.remainders@,
    {
        self.remainders.as_slice()
    }

    /// what `Residual::verify` establishes (Kani units c18_residual_verify_gate_*) plus "every code
    /// fits 32 bits and is not the folded i32::MIN" (true of every residual the encoder builds)
    pub open spec fn decodable(&self) -> bool {
        &&& self.partition_order <= 15
        &&& self.rice_params@.len() == pow2(self.partition_order as nat)
        &&& self.quotients@.len() == self.block_size
        &&& self.remainders@.len() == self.block_size
        &&& (self.block_size >> (self.partition_order as usize)) > 0
        &&& self.block_size == (self.block_size >> (self.partition_order as usize)) * pow2(self.partition_order as nat)
        &&& forall|j: int| 0 <= j < self.rice_params@.len() ==> #[trigger] self.rice_params@[j] <= 14
        &&& forall|t: int|
            0 <= t < self.block_size ==> ((#[trigger] self.remainders@[t]) as int) < pow2(
                self.rice_params@[t / ((self.block_size >> (self.partition_order as usize)) as int)] as nat,
            )
        &&& forall|t: int|
            0 <= t < self.block_size ==> (#[trigger] self.quotients@[t]) as int * pow2(
                self.rice_params@[t / ((self.block_size >> (self.partition_order as usize)) as int)] as nat,
            ) + (self.remainders@[t] as int) < 0xFFFF_FFFF
    }

    pub open spec fn code(&self, t: int) -> int {
        self.quotients@[t] as int * pow2(
            self.rice_params@[t / ((self.block_size >> (self.partition_order as usize)) as int)] as nat,
        ) + self.remainders@[t] as int
    }

    pub fn signal_len(&self) -> (r: usize)
        ensures
            r == self.block_size,
    {
        self.block_size()
    }
}

pub mod rice {
    use super::*;

    /// callee contract (Kani function contract c01_decode_signbit_contract, all u32 but u32::MAX)
    #[verifier::external_body]
    pub fn decode_signbit(v: u32) -> (r: i32)
        requires
            v != u32::MAX,
        ensures
            r as int == unzigzag(v as int),
    {
        unimplemented!()
    }

}

proof fn lemma_pow2_values()
    ensures
        pow2(0) == 1,
        pow2(1) == 2,
        pow2(2) == 4,
        pow2(3) == 8,
        pow2(4) == 16,
        pow2(5) == 32,
        pow2(6) == 64,
        pow2(7) == 128,
        pow2(8) == 256,
        pow2(9) == 512,
        pow2(10) == 1024,
        pow2(11) == 2048,
        pow2(12) == 4096,
        pow2(13) == 8192,
        pow2(14) == 16384,
        pow2(15) == 32768,
{
    reveal_with_fuel(pow2, 17);
}

proof fn lemma_shl_is_mul(q: u32, p: u8)
    requires
        p <= 14,
        q as int * pow2(p as nat) <= 0xFFFF_FFFF,
    ensures
        (q << p) as int == q as int * pow2(p as nat),
{
    lemma_pow2_values();
    let m: u32 = (1u32 << p);
    assert(m as int == pow2(p as nat)) by {
        assert(p <= 14 ==> (1u32 << p) == if p == 0 { 1u32 } else if p == 1 { 2u32 } else if p == 2 { 4u32 } else if p == 3 {
            8u32
        } else if p == 4 { 16u32 } else if p == 5 { 32u32 } else if p == 6 { 64u32 } else if p == 7 { 128u32 } else if p
            == 8 { 256u32 } else if p == 9 { 512u32 } else if p == 10 { 1024u32 } else if p == 11 { 2048u32 } else if p
            == 12 { 4096u32 } else if p == 13 { 8192u32 } else { 16384u32 }) by (bit_vector);
    }
    assert((q as u64) * (m as u64) <= 0xFFFF_FFFFu64 && p <= 14 && m == (1u32 << p) ==> (q << p) as u64 == (q as u64) * (m as u64))
        by (bit_vector);
    assert((q as u64) * (m as u64) == q as int * pow2(p as nat)) by (nonlinear_arith)
        requires
            m as int == pow2(p as nat),
            q as int * pow2(p as nat) <= 0xFFFF_FFFF,
    ;
}

proof fn lemma_or_is_add(q: u32, p: u8, r: u32)
    requires
        p <= 14,
        (r as int) < pow2(p as nat),
    ensures
        ((q << p) | r) == ((q << p) + r) as u32,
        (q << p) as int + r as int <= 0xFFFF_FFFF,
{
    lemma_pow2_values();
    let m: u32 = (1u32 << p);
    assert(m as int == pow2(p as nat)) by {
        assert(p <= 14 ==> (1u32 << p) == if p == 0 { 1u32 } else if p == 1 { 2u32 } else if p == 2 { 4u32 } else if p == 3 {
            8u32
        } else if p == 4 { 16u32 } else if p == 5 { 32u32 } else if p == 6 { 64u32 } else if p == 7 { 128u32 } else if p
            == 8 { 256u32 } else if p == 9 { 512u32 } else if p == 10 { 1024u32 } else if p == 11 { 2048u32 } else if p
            == 12 { 4096u32 } else if p == 13 { 8192u32 } else { 16384u32 }) by (bit_vector);
    }
    assert(p <= 14 && r < (1u32 << p) ==> ((q << p) | r) == ((q << p) + r) as u32 && ((q << p) as u64) + (r as u64) <= 0xFFFF_FFFFu64)
        by (bit_vector);
}

impl Residual {

//@extract file=src/component/decode.rs impl="impl Decode for Residual" fn="fn copy_signal"
//@sig
//|     requires
//|         self.decodable(),
//|         old(dest)@.len() >= self.block_size,
//|     ensures
//|         final(dest)@.len() == old(dest)@.len(),
//|         forall|t: int| 0 <= t < self.block_size ==> (#[trigger] final(dest)@[t]) as int == unzigzag(self.code(t)),
//|         forall|t: int| self.block_size <= t < old(dest)@.len() ==> #[trigger] final(dest)@[t] == old(dest)@[t],
//@loop 1
//|         invariant
//|             self.decodable(),
//|             part_len == (self.block_size >> (self.partition_order as usize)),
//|             part_len > 0,
//|             dest@.len() == old(dest)@.len(),
//|             dest@.len() >= self.block_size,
//|             forall|u: int| 0 <= u < t ==> (#[trigger] dest@[u]) as int == unzigzag(self.code(u)),
//|             forall|u: int| self.block_size <= u < dest@.len() ==> #[trigger] dest@[u] == old(dest)@[u],
//@before `dest[t] = rice::decode_signbit(`
//|             proof {
//|                 lemma_part_index(t as int, part_len as int, self.block_size as int, self.partition_order as nat);
//|                 let p = self.rice_params@[(t / part_len) as int];
//|                 assert(self.quotients@[t as int] as int * pow2(p as nat) + (self.remainders@[t as int] as int) < 0xFFFF_FFFF);
//|                 assert(self.quotients@[t as int] as int * pow2(p as nat) <= 0xFFFF_FFFF) by {
//|                     assert(self.remainders@[t as int] as int >= 0);
//|                 }
//|                 lemma_shl_is_mul(self.quotients@[t as int], p);
//|                 // `|` and `+` agree on a remainder below 2^p (either spelling of the code verifies)
//|                 lemma_or_is_add(self.quotients@[t as int], p, self.remainders@[t as int]);
//|             }
//@end

} // impl Residual

/// t / part_len indexes an existing Rice parameter: the partitions tile the block
proof fn lemma_part_index(t: int, part_len: int, n: int, order: nat)
    requires
        0 <= t < n,
        part_len > 0,
        n == part_len * pow2(order),
    ensures
        0 <= t / part_len < pow2(order),
{
    let m = pow2(order);
    vstd::arithmetic::div_mod::lemma_fundamental_div_mod(t, part_len);
    vstd::arithmetic::div_mod::lemma_mod_pos_bound(t, part_len);
    vstd::arithmetic::div_mod::lemma_div_pos_is_pos(t, part_len);
    let k = t / part_len;
    if k >= m {
        assert(part_len * k >= part_len * m) by (nonlinear_arith)
            requires
                k >= m,
                part_len > 0,
        ;
        assert(false);
    }
}

/// The Rice split the encoder stores (unit residual_partition, Kani c01_quotients_and_remainders)
/// decodes to the residual it was made from.
pub proof fn lemma_split_roundtrip(e: int, p: nat, q: int, r: int)
    requires
        0 <= r < pow2(p),
        q * pow2(p) + r == zigzag(e),
    ensures
        unzigzag(q * pow2(p) + r) == e,
{
    lemma_unzigzag_zigzag(e);
}

} // verus!
fn main() {}
