//@ unit props=C01,C09 tier=quick kind=unbounded timeout=120 funcs="arrayutils::is_constant" note="generic parameter T instantiated to i32 (the only instantiation the encoder uses)"
// C01.7: `is_constant(samples)`  <=>  every sample equals the first one; any slice length.
use vstd::prelude::*;
verus! {

//@extract file=src/arrayutils.rs fn="pub fn is_constant"
//@subst `<T: PartialEq>(samples: &[T]) -> bool` => `(samples: &[i32]) -> (r: bool)`
//@sig
//|     ensures
//|         r == (forall|t: int| 0 <= t < samples@.len() ==> #[trigger] samples@[t] == samples@[0]),
//@loop 1
//|         invariant
//|             forall|u: int| 0 <= u < t && u < samples@.len() ==> #[trigger] samples@[u] == samples@[0],
//@end

} // verus!
fn main() {}
