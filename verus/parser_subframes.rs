//@ unit props=C16 tier=quick kind=unbounded timeout=240 funcs="parser::fixed_lpc; parser::lpc" stubs="parser::subframe_header -> a 7-bit type tag or an error [Kani c16_subframe_header_no_panic]; parser::raw_samples(bps, n) -> exactly n samples or an error; parser::quantized_parameters(order) -> parameters of that order or an error [Kani c16_quantized_parameters_*]; parser::residual -> a residual or an error [Verus parser_residual]; heapless::Vec::<i32, N>::try_from(slice) -> Err exactly when the slice is longer than N; Lpc::from_parts -> REQUIRES its assert_eq!(warm_up.len(), parameters.order())" note="the closures `move |input| {..}` returned by `fixed_lpc(block_size, bps)` / `lpc(block_size, bps)` are verified as functions of (block_size, bps, input); curried nom calls `p(args)(input)` are spelled `p(args, input)`; the error constructors `nom::Err::Error(error_position!(..))` become `NomErr`; `.map_err(|()| ..)?` on the heapless conversion becomes a match"
// C16 "unsupported features handled by assert/expect": the FIXED and LPC sub-frame recognisers for
// ANY input: whatever type tag the (possibly corrupted) input carries,
//   * the `expect` on the 4-element warm-up vector of a FIXED sub-frame cannot fail (the tag check
//     admits orders 0..=4 only - reserved tags are an error, not a panic),
//   * the LPC recogniser hands `Lpc::from_parts` a warm-up as long as the parameters' order (its
//     assert_eq!), and more warm-up samples than the crate supports are an error,
//   * no arithmetic on the tag under- or overflows.
use vstd::prelude::*;
verus! {

#[derive(Clone, Copy)]
pub struct BitInput<'a> {
    pub bytes: &'a [u8],
    pub offset: usize,
}

pub struct NomErr {
    pub dummy: u8,
}

/// contract of `parser::subframe_header`: a 7-bit tag (and the wasted-bits flag, always false)
#[verifier::external_body]
pub fn subframe_header<'a>(input: BitInput<'a>) -> (r: Result<(BitInput<'a>, (u8, bool)), NomErr>)
    ensures
        r is Ok ==> r->Ok_0.1.0 < 128,
{
    unimplemented!()
}

/// contract of `parser::raw_samples(bits_per_sample, size)`: exactly `size` samples
#[verifier::external_body]
pub fn raw_samples<'a>(bits_per_sample: usize, size: usize, input: BitInput<'a>) -> (r: Result<(BitInput<'a>, Vec<i32>), NomErr>)
    ensures
        r is Ok ==> r->Ok_0.1@.len() == size,
{
    unimplemented!()
}

pub struct Residual {
    pub dummy: u8,
}

/// contract of `parser::residual(block_size, warmup_length)` (Verus unit parser_residual: total)
#[verifier::external_body]
pub fn residual<'a>(block_size: usize, warmup_length: usize, input: BitInput<'a>) -> (r: Result<(BitInput<'a>, Residual), NomErr>)
{
    unimplemented!()
}

pub struct QuantizedParameters {
    pub order: usize,
}

impl QuantizedParameters {
    pub fn order(&self) -> (r: usize)
        ensures
            r == self.order,
    {
        self.order
    }
}

/// contract of `parser::quantized_parameters(order)`: parameters of exactly that order
#[verifier::external_body]
pub fn quantized_parameters<'a>(order: usize, input: BitInput<'a>) -> (r: Result<(BitInput<'a>, QuantizedParameters), NomErr>)
    ensures
        r is Ok ==> r->Ok_0.1.order == order,
{
    unimplemented!()
}

/// `heapless::Vec<i32, 4>` (capacity MAX_FIXED_LPC_ORDER)
pub struct HVec4 {
    pub data: Vec<i32>,
}

/// `heapless::Vec<i32, MAX_LPC_ORDER>` (capacity 32)
pub struct HVec32 {
    pub data: Vec<i32>,
}

impl HVec4 {
    /// `heapless::Vec::<i32, 4>::try_from(&[i32])`: Err exactly when the slice does not fit
    #[verifier::external_body]
    pub fn try_from(s: &[i32]) -> (r: Result<HVec4, ()>)
        ensures
            r is Ok <==> s@.len() <= 4,
            r is Ok ==> r->Ok_0.data@ == s@,
    {
        unimplemented!()
    }
}

impl HVec32 {
    #[verifier::external_body]
    pub fn try_from(s: &[i32]) -> (r: Result<HVec32, ()>)
        ensures
            r is Ok <==> s@.len() <= 32,
            r is Ok ==> r->Ok_0.data@ == s@,
    {
        unimplemented!()
    }
}

/// `Result::expect` on the heapless conversion: PANICS on Err
pub fn expect_hvec4(r: Result<HVec4, ()>, msg: &str) -> (v: HVec4)
    requires
        r is Ok,
    ensures
        v == r->Ok_0,
{
    match r {
        Ok(v) => v,
        Err(_) => HVec4 { data: Vec::new() },
    }
}

pub struct FixedLpc {
    pub order: usize,
}

pub struct Lpc {
    pub order: usize,
}

impl FixedLpc {
    #[verifier::external_body]
    pub fn from_parts(warm_up: HVec4, residual: Residual, bits_per_sample: u8) -> (r: Self)
        ensures
            r.order == warm_up.data@.len(),
    {
        unimplemented!()
    }
}

impl Lpc {
    /// `Lpc::from_parts` asserts `warm_up.len() == parameters.order()`
    #[verifier::external_body]
    pub fn from_parts(warm_up: HVec32, parameters: QuantizedParameters, residual: Residual, bits_per_sample: u8) -> (r: Self)
        requires
            warm_up.data@.len() == parameters.order,
        ensures
            r.order == parameters.order,
    {
        unimplemented!()
    }
}

pub fn vec_as_slice(v: &Vec<i32>) -> (r: &[i32])
    ensures
        r@ == v@,
{
    v.as_slice()
}

//@extract file=src/component/parser.rs fn="pub fn fixed_lpc"
//@subst `pub fn fixed_lpc<'a, E>(\n    block_size: usize,\n    bits_per_sample: usize,\n) -> impl FnMut(BitInput<'a>) -> IResult<BitInput<'a>, component::FixedLpc, E>\nwhere\n    E: ParseError<BitInput<'a>>,\n{\n    debug_assert!(bits_per_sample <= MAX_BITS_PER_SAMPLE + 1);\n    move |input| {` => `pub fn fixed_lpc<'a>(\n    block_size: usize,\n    bits_per_sample: usize,\n    input: BitInput<'a>,\n) -> (res: Result<(BitInput<'a>, FixedLpc), NomErr>)\n{\n    {`
//@subst `            return Err(nom::Err::Error(error_position!(\n                remaining_input,\n                nom::error::ErrorKind::TagBits\n            )));` => `            return Err(NomErr { dummy: 0 });`
//@subst `raw_samples(bits_per_sample, order)(remaining_input)?` => `raw_samples(bits_per_sample, order, remaining_input)?`
//@subst `let warm_up = heapless::Vec::try_from(warm_up.as_slice()).expect("Unexpected error");` => `let warm_up = expect_hvec4(HVec4::try_from(vec_as_slice(&warm_up)), "Unexpected error");`
//@subst `residual(block_size, order)(remaining_input)?` => `residual(block_size, order, remaining_input)?`
//@subst `component::FixedLpc::from_parts(` => `FixedLpc::from_parts(`
//@sig
//|     ensures
//|         res is Ok ==> res->Ok_0.1.order <= 4,
//@end

//@extract file=src/component/parser.rs fn="pub fn lpc"
//@subst `pub fn lpc<'a, E>(\n    block_size: usize,\n    bits_per_sample: usize,\n) -> impl FnMut(BitInput<'a>) -> IResult<BitInput<'a>, component::Lpc, E>\nwhere\n    E: ParseError<BitInput<'a>>,\n{\n    debug_assert!(bits_per_sample <= MAX_BITS_PER_SAMPLE + 1);\n    move |input| {` => `pub fn lpc<'a>(\n    block_size: usize,\n    bits_per_sample: usize,\n    input: BitInput<'a>,\n) -> (res: Result<(BitInput<'a>, Lpc), NomErr>)\n{\n    {`
//@subst `            return Err(nom::Err::Error(error_position!(\n                remaining_input,\n                nom::error::ErrorKind::TagBits\n            )));` => `            return Err(NomErr { dummy: 0 });`
//@subst `raw_samples(bits_per_sample, order)(remaining_input)?` => `raw_samples(bits_per_sample, order, remaining_input)?`
//@subst `let warm_up = heapless::Vec::try_from(warm_up.as_slice()).map_err(|()| {\n            nom::Err::Error(error_position!(\n                remaining_input,\n                nom::error::ErrorKind::Verify\n            ))\n        })?;` => `let warm_up = match HVec32::try_from(vec_as_slice(&warm_up)) { Ok(v) => v, Err(_) => { return Err(NomErr { dummy: 0 }); } };`
//@subst `quantized_parameters(order)(remaining_input)?` => `quantized_parameters(order, remaining_input)?`
//@subst `residual(block_size, order)(remaining_input)?` => `residual(block_size, order, remaining_input)?`
//@subst `component::Lpc::from_parts(` => `Lpc::from_parts(`
//@sig
//|     ensures
//|         res is Ok ==> 1 <= res->Ok_0.1.order <= 32,
//@end

} // verus!
fn main() {}
