//@ unit props=C02,C12,C08 tier=quick kind=unbounded timeout=180 funcs="<Stream as BitRepr>::write; <Stream as BitRepr>::count_bits" stubs="BitSink::write_bytes_aligned -> C11 contract; MetadataBlock::write / Frame::write -> append exactly their spec bits after aligning, prefix-monotone on error [Frame::write: Verus unit frame_write; MetadataBlock/StreamInfo: Kani units c08_*]"
// Stream assembly against an ABSTRACT sink, for any number of metadata blocks and frames:
//   C02  the stream is  "fLaC" ++ STREAMINFO block ++ other metadata blocks ++ frames, in order,
//        and nothing follows the last frame;
//   C12  a sink error at any point is returned (no panic) and what the sink holds stays a prefix
//        of the correct stream.
use vstd::prelude::*;
verus! {

// ---- ideal bit strings ---------------------------------------------------------------------------
pub open spec fn zeros(n: nat) -> Seq<bool> {
    Seq::new(n, |i: int| false)
}

pub open spec fn pad8(len: nat) -> nat {
    ((8 - len % 8) % 8) as nat
}

pub open spec fn is_prefix(a: Seq<bool>, b: Seq<bool>) -> bool {
    a.len() <= b.len() && b.subrange(0, a.len() as int) == a
}

/// MSB-first bits of a byte string
pub uninterp spec fn bytes_bits(b: Seq<u8>) -> Seq<bool>;
/// big-endian byte string of a byte-aligned bit string
pub uninterp spec fn bits_bytes(b: Seq<bool>) -> Seq<u8>;
pub uninterp spec fn u16_bits(v: u16) -> Seq<bool>;
pub uninterp spec fn crc16(b: Seq<u8>) -> u16;

#[verifier::external_body]
pub proof fn axiom_bytes_bits_len(b: Seq<u8>)
    ensures
        bytes_bits(b).len() == 8 * b.len(),
{
}

#[verifier::external_body]
pub proof fn axiom_bits_bytes_roundtrip(b: Seq<bool>)
    requires
        b.len() % 8 == 0,
    ensures
        bytes_bits(bits_bytes(b)) == b,
        bits_bytes(b).len() * 8 == b.len(),
{
}

#[verifier::external_body]
pub proof fn axiom_u16_bits_len(v: u16)
    ensures
        u16_bits(v).len() == 16,
{
}

pub proof fn lemma_prefix_refl(a: Seq<bool>)
    ensures
        is_prefix(a, a),
{
    assert(a.subrange(0, a.len() as int) =~= a);
}

pub proof fn lemma_prefix_append(a: Seq<bool>, b: Seq<bool>)
    ensures
        is_prefix(a, a + b),
{
    assert((a + b).subrange(0, a.len() as int) =~= a);
}

pub proof fn lemma_prefix_trans(a: Seq<bool>, b: Seq<bool>, c: Seq<bool>)
    requires
        is_prefix(a, b),
        is_prefix(b, c),
    ensures
        is_prefix(a, c),
{
    assert(c.subrange(0, a.len() as int) =~= c.subrange(0, b.len() as int).subrange(0, a.len() as int));
}

/// a prefix of (x ++ y') where y' is itself a prefix of y is a prefix of x ++ y
pub proof fn lemma_prefix_extend(p: Seq<bool>, x: Seq<bool>, y1: Seq<bool>, y: Seq<bool>)
    requires
        is_prefix(p, x + y1),
        is_prefix(y1, y),
    ensures
        is_prefix(p, x + y),
{
    assert((x + y).subrange(0, (x + y1).len() as int) =~= x + y1) by {
        assert(y.subrange(0, y1.len() as int) == y1);
    }
    lemma_prefix_trans(p, x + y1, x + y);
}

pub proof fn lemma_pad8(len: nat)
    ensures
        (len + pad8(len)) % 8 == 0,
        pad8(len) < 8,
{
}

// ---- errors ----------------------------------------------------------------------------------
pub struct RangeError {
    pub dummy: u8,
}

/// stands for std::convert::Infallible (Verus rejects empty enums); never constructed: every
/// MemSink64 operation ensures `r is Ok`.
#[derive(Debug)]
pub struct Infallible {
    pub never: u8,
}

pub enum OutputError<S: BitSink> {
    Range(RangeError),
    Sink(S::Error),
}

impl<S: BitSink> OutputError<S> {
    pub fn from_sink(e: S::Error) -> (r: Self)
        ensures
            r is Sink,
    {
        OutputError::Sink(e)
    }

    #[verifier::external_body]
    pub fn ignore_sink_error(err: OutputError<MemSink64>) -> (r: Self)
        ensures
            r is Range,
    {
        unimplemented!()
    }
}

// ---- the sink trait with per-operation contracts (C11) -------------------------------------------
pub trait BitSink: Sized {
    type Error: std::fmt::Debug;

    spec fn bits(&self) -> Seq<bool>;

    fn align_to_byte(&mut self) -> (r: Result<usize, Self::Error>)
        ensures
            is_prefix(old(self).bits(), final(self).bits()),
            r is Ok ==> final(self).bits() == old(self).bits() + zeros(pad8(old(self).bits().len()))
                && r->Ok_0 == pad8(old(self).bits().len()),
            r is Err ==> is_prefix(final(self).bits(), old(self).bits() + zeros(pad8(old(self).bits().len()))),
    ;

    fn write_bytes_aligned(&mut self, bytes: &[u8]) -> (r: Result<usize, Self::Error>)
        ensures
            is_prefix(old(self).bits(), final(self).bits()),
            r is Ok ==> final(self).bits() == old(self).bits() + zeros(pad8(old(self).bits().len())) + bytes_bits(bytes@),
            r is Err ==> is_prefix(final(self).bits(), old(self).bits() + zeros(pad8(old(self).bits().len())) + bytes_bits(bytes@)),
    ;

    /// `write::<u16>` (the only instantiation the frame writer uses on the caller's sink)
    fn write(&mut self, val: u16) -> (r: Result<(), Self::Error>)
        ensures
            is_prefix(old(self).bits(), final(self).bits()),
            r is Ok ==> final(self).bits() == old(self).bits() + u16_bits(val),
            r is Err ==> is_prefix(final(self).bits(), old(self).bits() + u16_bits(val)),
    ;
}

/// `MemSink<u64>`: the crate's own infallible word sink, used as the frame's scratch sink.
pub struct MemSink64 {
    pub ghost_bits: Ghost<Seq<bool>>,
}

impl MemSink64 {
    #[verifier::external_body]
    pub fn clear(&mut self)
        ensures
            final(self).bits().len() == 0,
    {
        unimplemented!()
    }

    #[verifier::external_body]
    pub fn reserve(&mut self, additional_in_bits: usize)
        ensures
            final(self).bits() == old(self).bits(),
    {
        unimplemented!()
    }

    #[verifier::external_body]
    pub fn len(&self) -> (r: usize)
        ensures
            r == self.bits().len(),
    {
        unimplemented!()
    }

    #[verifier::external_body]
    pub fn write_to_byte_slice(&self, dest: &mut [u8])
        requires
            self.bits().len() % 8 == 0,
            old(dest)@.len() * 8 == self.bits().len(),
        ensures
            final(dest)@ == bits_bytes(self.bits()),
    {
        unimplemented!()
    }
}

impl BitSink for MemSink64 {
    type Error = Infallible;

    open spec fn bits(&self) -> Seq<bool> {
        self.ghost_bits@
    }

    #[verifier::external_body]
    fn align_to_byte(&mut self) -> (r: Result<usize, Infallible>)
        ensures
            r is Ok,
    {
        unimplemented!()
    }

    #[verifier::external_body]
    fn write_bytes_aligned(&mut self, bytes: &[u8]) -> (r: Result<usize, Infallible>)
        ensures
            r is Ok,
    {
        unimplemented!()
    }

    #[verifier::external_body]
    fn write(&mut self, val: u16) -> (r: Result<(), Infallible>)
        ensures
            r is Ok,
    {
        unimplemented!()
    }
}


// ---- components ----------------------------------------------------------------------------------
pub struct MetadataBlock {
    pub dummy: u8,
}

pub struct Frame {
    pub dummy: u8,
}

impl MetadataBlock {
    /// whole bytes (header byte + 24-bit length + body)
    pub uninterp spec fn spec_bits(&self) -> Seq<bool>;

    #[verifier::external_body]
    pub fn count_bits(&self) -> (r: usize)
        ensures
            r == self.spec_bits().len(),
    {
        unimplemented!()
    }

    #[verifier::external_body]
    pub fn write<S: BitSink>(&self, dest: &mut S) -> (r: Result<(), OutputError<S>>)
        ensures
            is_prefix(old(dest).bits(), final(dest).bits()),
            is_prefix(final(dest).bits(), old(dest).bits() + self.spec_bits()),
            r is Ok ==> final(dest).bits() == old(dest).bits() + self.spec_bits(),
    {
        unimplemented!()
    }
}

impl Frame {
    pub uninterp spec fn spec_bits(&self) -> Seq<bool>;

    #[verifier::external_body]
    pub fn count_bits(&self) -> (r: usize)
        ensures
            r == self.spec_bits().len(),
    {
        unimplemented!()
    }

    /// contract proved by Verus unit frame_write (with pad8 == 0 here because every preceding
    /// component is a whole number of bytes; the pad term is kept for generality)
    #[verifier::external_body]
    pub fn write<S: BitSink>(&self, dest: &mut S) -> (r: Result<(), OutputError<S>>)
        ensures
            is_prefix(old(dest).bits(), final(dest).bits()),
            is_prefix(final(dest).bits(), old(dest).bits() + zeros(pad8(old(dest).bits().len())) + self.spec_bits()),
            r is Ok ==> final(dest).bits() == old(dest).bits() + zeros(pad8(old(dest).bits().len())) + self.spec_bits(),
    {
        unimplemented!()
    }
}

pub struct Stream {
    pub stream_info: MetadataBlock,
    pub metadata: Vec<MetadataBlock>,
    pub frames: Vec<Frame>,
}

pub open spec fn blocks_bits(s: Seq<MetadataBlock>) -> Seq<bool>
    decreases s.len(),
{
    if s.len() == 0 {
        Seq::<bool>::empty()
    } else {
        blocks_bits(s.drop_last()) + s.last().spec_bits()
    }
}

/// frames appended one after the other, each after aligning to a byte
pub open spec fn frames_bits(base: Seq<bool>, s: Seq<Frame>) -> Seq<bool>
    decreases s.len(),
{
    if s.len() == 0 {
        base
    } else {
        let b = frames_bits(base, s.drop_last());
        b + zeros(pad8(b.len())) + s.last().spec_bits()
    }
}

pub open spec fn blocks_len(s: Seq<MetadataBlock>) -> nat
    decreases s.len(),
{
    if s.len() == 0 { 0 } else { blocks_len(s.drop_last()) + s.last().spec_bits().len() }
}

pub open spec fn frames_len(s: Seq<Frame>) -> nat
    decreases s.len(),
{
    if s.len() == 0 { 0 } else { frames_len(s.drop_last()) + s.last().spec_bits().len() }
}

pub proof fn lemma_blocks_len_mono(s: Seq<MetadataBlock>, k: int)
    requires
        0 <= k <= s.len(),
    ensures
        blocks_len(s.take(k)) <= blocks_len(s),
    decreases s.len() - k,
{
    if k == s.len() {
        assert(s.take(k) =~= s);
    } else {
        lemma_blocks_len_mono(s, k + 1);
        assert(s.take(k + 1).drop_last() =~= s.take(k));
    }
}

pub proof fn lemma_frames_len_mono(s: Seq<Frame>, k: int)
    requires
        0 <= k <= s.len(),
    ensures
        frames_len(s.take(k)) <= frames_len(s),
    decreases s.len() - k,
{
    if k == s.len() {
        assert(s.take(k) =~= s);
    } else {
        lemma_frames_len_mono(s, k + 1);
        assert(s.take(k + 1).drop_last() =~= s.take(k));
    }
}

pub open spec fn magic() -> Seq<u8> {
    seq![0x66u8, 0x4cu8, 0x61u8, 0x43u8]
}

/// the whole stream appended to a sink holding `d0`
pub open spec fn stream_bits(d0: Seq<bool>, s: &Stream) -> Seq<bool> {
    frames_bits(
        d0 + zeros(pad8(d0.len())) + bytes_bits(magic()) + s.stream_info.spec_bits() + blocks_bits(s.metadata@),
        s.frames@,
    )
}

pub proof fn lemma_frames_bits_prefix(base: Seq<bool>, s: Seq<Frame>, k: int)
    requires
        0 <= k <= s.len(),
    ensures
        is_prefix(frames_bits(base, s.take(k)), frames_bits(base, s)),
    decreases s.len() - k,
{
    if k == s.len() {
        assert(s.take(k) =~= s);
        lemma_prefix_refl(frames_bits(base, s));
    } else {
        lemma_frames_bits_prefix(base, s, k + 1);
        let a = frames_bits(base, s.take(k));
        assert(s.take(k + 1).drop_last() =~= s.take(k));
        let b = frames_bits(base, s.take(k + 1));
        assert(b == a + zeros(pad8(a.len())) + s.take(k + 1).last().spec_bits());
        lemma_prefix_append(a, zeros(pad8(a.len())) + s.take(k + 1).last().spec_bits());
        assert(a + (zeros(pad8(a.len())) + s.take(k + 1).last().spec_bits()) =~= b);
        lemma_prefix_trans(a, b, frames_bits(base, s));
    }
}

pub proof fn lemma_blocks_bits_prefix(base: Seq<bool>, s: Seq<MetadataBlock>, k: int)
    requires
        0 <= k <= s.len(),
    ensures
        is_prefix(base + blocks_bits(s.take(k)), base + blocks_bits(s)),
    decreases s.len() - k,
{
    if k == s.len() {
        assert(s.take(k) =~= s);
        lemma_prefix_refl(base + blocks_bits(s));
    } else {
        lemma_blocks_bits_prefix(base, s, k + 1);
        assert(s.take(k + 1).drop_last() =~= s.take(k));
        let a = base + blocks_bits(s.take(k));
        let b = base + blocks_bits(s.take(k + 1));
        assert(b =~= a + s.take(k + 1).last().spec_bits());
        lemma_prefix_append(a, s.take(k + 1).last().spec_bits());
        lemma_prefix_trans(a, b, base + blocks_bits(s));
    }
}

impl Stream {
    pub fn stream_info_block(&self) -> (r: &MetadataBlock)
        ensures
            *r == self.stream_info,
    {
        &self.stream_info
    }

    pub fn metadata(&self) -> (r: &[MetadataBlock])
        ensures
            r@ == self.metadata@,
    {
        self.metadata.as_slice()
    }

    pub fn frames(&self) -> (r: &[Frame])
        ensures
            r@ == self.frames@,
    {
        self.frames.as_slice()
    }

//@extract file=src/component/bitrepr.rs impl="impl BitRepr for Stream {" fn="fn count_bits"
//@subst `fn count_bits(&self) -> usize {` => `fn count_bits(&self) -> (r: usize) {`
//@subst `for elem in self.metadata() {` => `for elem in it: self.metadata() {`
//@subst `for frame in self.frames() {` => `for frame in it: self.frames() {`
//@sig
//|     requires
//|         32 + self.stream_info.spec_bits().len() + blocks_len(self.metadata@) + frames_len(self.frames@) <= usize::MAX,
//|     ensures
//|         // C08: marker + STREAMINFO block + metadata blocks + frames (every component a whole
//|         // number of bytes, so no padding is added between them)
//|         r == 32 + self.stream_info.spec_bits().len() + blocks_len(self.metadata@) + frames_len(self.frames@),
//@loop 1
//|         invariant
//|             it.index@ <= self.metadata@.len(),
//|             ret == 32 + self.stream_info.spec_bits().len() + blocks_len(self.metadata@.take(it.index@)),
//|             32 + self.stream_info.spec_bits().len() + blocks_len(self.metadata@) + frames_len(self.frames@) <= usize::MAX,
//@before `ret += elem.count_bits();`
//|         proof {
//|             let k = it.index@;
//|             assert(self.metadata@.take(k + 1).drop_last() =~= self.metadata@.take(k));
//|             assert(self.metadata@.take(k + 1).last() == *elem);
//|             lemma_blocks_len_mono(self.metadata@, k + 1);
//|         }
//@before `for frame in it: self.frames() {`
//|     proof {
//|         assert(self.metadata@.take(self.metadata@.len() as int) =~= self.metadata@);
//|         assert(self.frames@.take(0) =~= Seq::<Frame>::empty());
//|     }
//@loop 2
//|         invariant
//|             it.index@ <= self.frames@.len(),
//|             ret == 32 + self.stream_info.spec_bits().len() + blocks_len(self.metadata@) + frames_len(self.frames@.take(it.index@)),
//|             32 + self.stream_info.spec_bits().len() + blocks_len(self.metadata@) + frames_len(self.frames@) <= usize::MAX,
//@before `ret += frame.count_bits();`
//|         proof {
//|             let k = it.index@;
//|             assert(self.frames@.take(k + 1).drop_last() =~= self.frames@.take(k));
//|             assert(self.frames@.take(k + 1).last() == *frame);
//|             lemma_frames_len_mono(self.frames@, k + 1);
//|         }
//@before `ret\n}`
//|     proof {
//|         assert(self.frames@.take(self.frames@.len() as int) =~= self.frames@);
//|     }
//@end

//@extract file=src/component/bitrepr.rs impl="impl BitRepr for Stream {" fn="fn write"
//@subst `fn write<S: BitSink>(&self, dest: &mut S) -> Result<(), OutputError<S>> {` => `fn write<S: BitSink>(&self, dest: &mut S) -> (res: Result<(), OutputError<S>>) {`
//@subst `for elem in self.metadata() {` => `for elem in it: self.metadata() {`
//@subst `for frame in self.frames() {` => `for frame in it: self.frames() {`
//@sig
//|     ensures
//|         is_prefix(old(dest).bits(), final(dest).bits()),
//|         is_prefix(final(dest).bits(), stream_bits(old(dest).bits(), self)),
//|         res is Ok ==> final(dest).bits() == stream_bits(old(dest).bits(), self),
//@before `dest.write_bytes_aligned(&[0x66, 0x4c, 0x61, 0x43])`
//|     let ghost d0 = dest.bits();
//|     let ghost b1 = d0 + zeros(pad8(d0.len())) + bytes_bits(magic());
//|     let ghost b2 = b1 + self.stream_info.spec_bits();
//|     let ghost m_all = b2 + blocks_bits(self.metadata@);
//|     let ghost total = frames_bits(m_all, self.frames@);
//|     proof {
//|         assert(total == stream_bits(d0, self));
//|         // the chain of stage prefixes  d0 <= b1 <= b2 <= m_all <= total
//|         lemma_prefix_append(d0, zeros(pad8(d0.len())) + bytes_bits(magic()));
//|         assert(d0 + (zeros(pad8(d0.len())) + bytes_bits(magic())) =~= b1);
//|         lemma_prefix_append(b1, self.stream_info.spec_bits());
//|         lemma_prefix_append(b2, blocks_bits(self.metadata@));
//|         lemma_frames_bits_prefix(m_all, self.frames@, 0);
//|         assert(self.frames@.take(0) =~= Seq::<Frame>::empty());
//|         lemma_prefix_trans(b2, m_all, total);
//|         lemma_prefix_trans(b1, b2, total);
//|         lemma_prefix_trans(d0, b1, total);
//|         lemma_prefix_trans(d0, b1, b2);
//|         lemma_prefix_refl(d0);
//|         assert forall|x: Seq<bool>| is_prefix(d0, x) && is_prefix(x, b1) implies is_prefix(x, total) by {
//|             lemma_prefix_trans(x, b1, total);
//|         }
//|         assert([0x66u8, 0x4cu8, 0x61u8, 0x43u8]@ =~= magic());
//|     }
//@before `self.stream_info_block().write(dest)?;`
//|     proof {
//|         assert(dest.bits() == b1);
//|         assert forall|x: Seq<bool>| is_prefix(b1, x) implies is_prefix(d0, x) by {
//|             lemma_prefix_trans(d0, b1, x);
//|         }
//|         assert forall|x: Seq<bool>| is_prefix(x, b2) implies is_prefix(x, total) by {
//|             lemma_prefix_trans(x, b2, total);
//|         }
//|     }
//@loop 1
//|         invariant
//|             it.index@ <= self.metadata@.len(),
//|             dest.bits() == b2 + blocks_bits(self.metadata@.take(it.index@)),
//|             is_prefix(d0, b2),
//|             is_prefix(m_all, total),
//|             m_all == b2 + blocks_bits(self.metadata@),
//|             total == stream_bits(d0, self),
//|             d0 == old(dest).bits(),
//@before `elem.write(dest)?;`
//|         proof {
//|             let k = it.index@;
//|             assert(self.metadata@.take(k + 1).drop_last() =~= self.metadata@.take(k));
//|             assert(self.metadata@.take(k + 1).last() == *elem);
//|             let cur = b2 + blocks_bits(self.metadata@.take(k));
//|             let nxt = b2 + blocks_bits(self.metadata@.take(k + 1));
//|             assert(nxt =~= cur + elem.spec_bits());
//|             lemma_prefix_append(b2, blocks_bits(self.metadata@.take(k)));
//|             lemma_prefix_trans(d0, b2, cur);
//|             lemma_blocks_bits_prefix(b2, self.metadata@, k + 1);
//|             lemma_prefix_trans(nxt, m_all, total);
//|             assert forall|x: Seq<bool>| is_prefix(cur, x) implies is_prefix(d0, x) by {
//|                 lemma_prefix_trans(d0, cur, x);
//|             }
//|             assert forall|x: Seq<bool>| is_prefix(x, cur + elem.spec_bits()) implies is_prefix(x, total) by {
//|                 lemma_prefix_trans(x, nxt, total);
//|             }
//|         }
//@before `for frame in it: self.frames() {`
//|     proof {
//|         assert(self.metadata@.take(self.metadata@.len() as int) =~= self.metadata@);
//|         assert(self.frames@.take(0) =~= Seq::<Frame>::empty());
//|         lemma_prefix_append(b2, blocks_bits(self.metadata@));
//|         lemma_prefix_trans(d0, b2, m_all);
//|     }
//@loop 2
//|         invariant
//|             it.index@ <= self.frames@.len(),
//|             dest.bits() == frames_bits(m_all, self.frames@.take(it.index@)),
//|             is_prefix(d0, m_all),
//|             total == frames_bits(m_all, self.frames@),
//|             total == stream_bits(d0, self),
//|             d0 == old(dest).bits(),
//@before `frame.write(dest)?;`
//|         proof {
//|             let k = it.index@;
//|             assert(self.frames@.take(k + 1).drop_last() =~= self.frames@.take(k));
//|             assert(self.frames@.take(k + 1).last() == *frame);
//|             let cur = frames_bits(m_all, self.frames@.take(k));
//|             let nxt = frames_bits(m_all, self.frames@.take(k + 1));
//|             assert(nxt == cur + zeros(pad8(cur.len())) + frame.spec_bits());
//|             lemma_frames_bits_prefix(m_all, self.frames@.take(k), 0);
//|             assert(self.frames@.take(k).take(0) =~= Seq::<Frame>::empty());
//|             lemma_prefix_trans(d0, m_all, cur);
//|             lemma_frames_bits_prefix(m_all, self.frames@, k + 1);
//|             assert forall|x: Seq<bool>| is_prefix(cur, x) implies is_prefix(d0, x) by {
//|                 lemma_prefix_trans(d0, cur, x);
//|             }
//|             assert forall|x: Seq<bool>| is_prefix(x, nxt) implies is_prefix(x, total) by {
//|                 lemma_prefix_trans(x, nxt, total);
//|             }
//|         }
//@before `Ok(())`
//|     proof {
//|         assert(self.frames@.take(self.frames@.len() as int) =~= self.frames@);
//|         lemma_frames_bits_prefix(m_all, self.frames@, 0);
//|         lemma_prefix_trans(d0, m_all, total);
//|         lemma_prefix_refl(total);
//|     }
//@end

}

} // verus!
fn main() {}
