// Harnesses for src/par.rs (child module `par::verif`).  Only the sequential prologue of the
// multi-thread driver is within reach of a deductive verifier (everything after the first
// `thread::spawn` is assumption A-par).

use crate::source::MemSource;

fn contract_worker_count(_config: &config::Encoder) -> Result<usize, SourceError> {
    // `determine_worker_count` reads the environment and the CPU count (foreign functions):
    // any positive count, or an error.
    let n: usize = kani::any();
    kani::assume(1 <= n && n <= 2);
    Ok(n)
}

/// Block size outside 32..=32767 in multi-thread mode ==> Err(..), never a panic, and no thread
/// is started (reaching `thread::spawn` would be reported by Kani as an unsupported construct).
//@ unit props=C17 tier=quick kind=complete timeout=900 funcs="par::encode_with_fixed_block_size (prologue before the first thread::spawn); ParFrameBuf::new; StreamInfo::set_block_sizes" stubs="determine_worker_count -> any count in 1..=2"
#[kani::proof]
#[kani::unwind(8)]
#[kani::stub(std::fmt::format, stub_format)]
#[kani::stub(determine_worker_count, contract_worker_count)]
fn c17_par_block_size_range() {
    let cfg = crate::coding::verif::verified_default_config();
    let bs: usize = kani::any();
    kani::assume(bs < 32 || bs > 32767);
    let src = MemSource::from_samples(&[], 2, 16, 44100);
    let r = encode_with_fixed_block_size(&cfg, src, bs);
    assert!(r.is_err());
    kani::cover!(bs == 32768);
    kani::cover!(bs == 70000);
    kani::cover!(bs == 0);
}
