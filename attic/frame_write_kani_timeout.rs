// Kani cannot run Frame::write end to end (timed out at 900 s even for a mono CONSTANT frame):
// ---- whole frame on the real scratch path (cross-check of the Verus frame_write contracts) ---------

/// A mono frame with one CONSTANT subframe written through the REAL `Frame::write` (internal
/// `MemSink<u64>` scratch, `write_to_byte_slice`, table CRC-16): the caller's sink receives
/// header ++ subframe ++ zero padding ++ CRC-16(spec) and `count_bits()` says so; after
/// `precompute_bitstream` the same bits and the same count.
//@ unit props=C02,C08 tier=quick kind=bounded timeout=1200 funcs="<Frame as BitRepr>::write; <Frame as BitRepr>::count_bits; Frame::precompute_bitstream; FRAME_CRC.checksum" stubs="encode_to_utf8like / utf8like_bytesize -> 1-byte class contracts (c02_utf8_len1)" bound="1 channel, CONSTANT subframe of any 16-bit value, block size 192, frame number < 128"
#[kani::proof]
#[kani::unwind(20)]
#[kani::stub(std::fmt::format, stub_format)]
#[kani::stub(encode_to_utf8like, crate::component::bitrepr::verif::contract_utf8_l1_pub)]
#[kani::stub(utf8like_bytesize, crate::component::bitrepr::verif::contract_bytesize_l1_pub)]
fn c08_frame_write_constant_mono() {
    use crate::component::datatype::BlockSizeSpec;
    use crate::component::datatype::FrameOffset;
    use crate::component::datatype::SampleRateSpec;
    use crate::component::datatype::SampleSizeSpec;
    let v: i32 = kani::any();
    kani::assume(spec_fits(v as i64, 16));
    let num: u32 = kani::any();
    kani::assume(num < 128);
    let mut frame = Frame::new_empty(
        BlockSizeSpec::S192,
        ChannelAssignment::Independent(1),
        SampleSizeSpec::B16,
        SampleRateSpec::R44_1kHz,
    );
    frame.header_mut().set_frame_offset(FrameOffset::Frame(num));
    frame.add_subframe(Constant::from_parts(192, v, 16).into());

    let mut s = SpecSink::new();
    assert!(frame.write(&mut s).is_ok());

    let mut e = Ideal::new();
    // header (layout proved by c02_header_*): 0xFFF8, bs code 1 | rate code 9, ch 0 | size 4<<1, number
    e.push_lsbs(0xFFF8, 16);
    e.push_lsbs((1 << 4) | 9, 8);
    e.push_lsbs((0 << 4) | (4 << 1), 8);
    e.push_lsbs(num as u64, 8);
    let mut hb = [0u8; 4];
    let mut i = 0;
    while i < 4 {
        hb[i] = e.byte(i);
        i += 1;
    }
    e.push_lsbs(spec_crc8(&hb) as u64, 8);
    // subframe
    e.push_lsbs(0, 8);
    e.push_twoc(v as i64, 16);
    // already byte aligned (40 + 24 bits); CRC-16 over all 8 bytes
    assert!(e.len == 64);
    let mut fbytes = [0u8; 8];
    let mut i = 0;
    while i < 8 {
        fbytes[i] = e.byte(i);
        i += 1;
    }
    e.push_lsbs(spec_crc16(&fbytes) as u64, 16);
    ideal_eq(&s.id, &e);
    assert!(frame.count_bits() == e.len && e.len % 8 == 0);
}
