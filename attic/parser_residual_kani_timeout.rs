// ATTIC: CBMC timed out (1200 s) on this unit even with 2 input bytes and a concrete block size - nom bit-level closures.

// Harnesses for src/component/parser.rs, module `component::parser::verif_res`: the residual
// recogniser on short arbitrary inputs (C16: error instead of panic).

use nom::error::ErrorKind;
type BitErr<'a> = (BitInput<'a>, ErrorKind);

/// `residual(block_size, warmup)` on 2 arbitrary bytes: every partition order 0..=15 is reachable
/// from the input (including orders whose partitions are shorter than the warm-up or longer than
/// the block), the input runs out after at most three partitions; the recogniser returns (an
/// error or a residual), never panics.
//@ unit props=C16 tier=quick kind=bounded timeout=1200 funcs="parser::residual" bound="2 input bytes, block size 4 and warm-up 0..=4"
#[kani::proof]
#[kani::unwind(8)]
fn c16_residual_short_input_no_panic() {
    let bytes: [u8; 2] = kani::any();
    let warm: usize = kani::any();
    kani::assume(warm <= 4);
    let r = residual::<BitErr>(4, warm)((&bytes[..], 0usize));
    kani::cover!(r.is_ok());
    kani::cover!(r.is_err());
}
