// ATTIC: both units time out (>20 min each) even on an 11-byte CONSTANT-subframe mono frame with 3 symbolic bytes:
// the nom combinator plumbing of parser::frame (bits(many_m_n(.. subframe ..))) defeats constant propagation.

// Harnesses for src/component/parser.rs (child module `component::parser::verif_frm`):
// the frame recogniser `parser::frame` on a CONSTANT-subframe mono frame.
// C16: the CRC-16 footer is enforced and no truncation makes the recogniser panic.

use nom::error::ErrorKind;

type ByteErr<'a> = (&'a [u8], ErrorKind);

/// A well-formed 8-bit mono frame header for block size 1, frame number 0 (RFC 9639 section 9.1):
/// sync + fixed blocking, block-size code 0110 (8-bit size-1 follows), rate code 1001, channel code
/// 0000, sample-size code 001, coded number 00, size byte 00, then its CRC-8.
fn header_bytes() -> [u8; 7] {
    let mut h = [0xFFu8, 0xF8, 0x69, 0x02, 0x00, 0x00, 0x00];
    h[6] = spec_crc8(&h[0..6]);
    h
}

/// `frame(stream_info, true)` on  header ++ CONSTANT subframe (type byte 0x00, symbolic 8-bit value)
/// ++ two symbolic footer bytes:
///  * accepted  <=>  the footer is the bitwise RFC CRC-16 of everything before it (so a frame whose
///    value byte was altered is rejected unless the footer changed with it);
///  * an accepted frame consumed all 11 bytes and decodes to the value byte;
///  * every proper prefix (truncation at every byte) yields Incomplete/Error -- never a panic.
//@ unit props=C16,C15 tier=quick kind=bounded timeout=1200 funcs="parser::frame; parser::frame_header; parser::subframe; parser::constant; FRAME_CRC.checksum" bound="one frame shape: mono, 8 bits, block size 1, CONSTANT subframe; value and footer bytes symbolic; all 11 truncation points"
#[kani::proof]
#[kani::unwind(14)]
#[kani::stub(std::fmt::format, stub_format)]
fn c16_frame_crc16_and_truncation() {
    let h = header_bytes();
    let v: u8 = kani::any();
    let f0: u8 = kani::any();
    let f1: u8 = kani::any();
    let data: [u8; 11] = [h[0], h[1], h[2], h[3], h[4], h[5], h[6], 0x00, v, f0, f1];
    let info = match crate::component::StreamInfo::new(44100, 1, 8) {
        Ok(x) => x,
        Err(_) => {
            assert!(false);
            return;
        }
    };
    let want = spec_crc16(&data[0..9]);
    let good = f0 == (want >> 8) as u8 && f1 == (want & 0xFF) as u8;
    let r = frame::<ByteErr>(&info, true)(&data[..]);
    match r {
        Ok((rest, fr)) => {
            assert!(good);
            assert!(rest.len() == 0);
            assert!(fr.block_size() == 1);
            assert!(fr.subframe_count() == 1);
            match fr.subframe(0) {
                Some(component::SubFrame::Constant(c)) => assert!(c.dc_offset() == (v as i8) as i32),
                _ => assert!(false),
            }
        }
        Err(_) => assert!(!good),
    }
    kani::cover!(good);
    kani::cover!(!good);
}

/// Truncation of the same frame 1 or 2 bytes before its end (inside the footer) and right after the
/// header: Incomplete/Error, never a panic.
//@ unit props=C16 tier=quick kind=bounded timeout=1200 funcs="parser::frame" bound="one frame shape (mono, 8 bits, block size 1, CONSTANT); truncation after 7, 9 and 10 of 11 bytes"
#[kani::proof]
#[kani::unwind(14)]
#[kani::stub(std::fmt::format, stub_format)]
fn c16_frame_truncated_footer() {
    let h = header_bytes();
    let v: u8 = kani::any();
    let f0: u8 = kani::any();
    let data: [u8; 10] = [h[0], h[1], h[2], h[3], h[4], h[5], h[6], 0x00, v, f0];
    let info = match crate::component::StreamInfo::new(44100, 1, 8) {
        Ok(x) => x,
        Err(_) => {
            assert!(false);
            return;
        }
    };
    assert!(frame::<ByteErr>(&info, true)(&data[0..10]).is_err());
    assert!(frame::<ByteErr>(&info, true)(&data[0..9]).is_err());
    assert!(frame::<ByteErr>(&info, true)(&data[0..7]).is_err());
    kani::cover!(v == 0x80);
}
