// ATTIC: timed out after 30 minutes although only 6 of the 18 samples are symbolic (SimdVec byte reinterpretation).
/// The boundary between two 16-lane vectors: 18 samples of which the six around the boundary
/// (positions 12..=17) are fully symbolic and the others fixed; the differences at t = 16, 17 need the
/// carry from the previous vector for every order.
//@ unit props=C01,C10 tier=quick kind=bounded timeout=1800 funcs="coding::reset_fixed_lpc_errors (carry across SIMD vectors)" bound="18 samples (two vectors); positions 12..=17 every 25-bit value, the others fixed"
#[kani::proof]
#[kani::unwind(20)]
fn c01_fixed_errors_n18_boundary() {
    let v: [i32; 6] = kani::any();
    let mut s = [0i32; 18];
    let mut i = 0;
    while i < 18 {
        s[i] = (i as i32) * 3 - 7;
        i += 1;
    }
    let mut i = 0;
    while i < 6 {
        kani::assume(spec_fits(v[i] as i64, 25));
        s[12 + i] = v[i];
        i += 1;
    }
    let mut errors = FixedLpcErrors::default();
    reset_fixed_lpc_errors(&mut errors, &s);
    let mut k = 0;
    while k <= MAX_FIXED_LPC_ORDER {
        let e = errors[k].as_ref();
        assert!(e.len() == 18);
        let mut t = 14;
        while t < 18 {
            let mut prev = [0i64; 4];
            let mut j = 0;
            while j < k {
                prev[j] = s[t - 1 - j] as i64;
                j += 1;
            }
            assert!(spec_fixed_predict(k, &prev) + e[t] as i64 == s[t] as i64);
            t += 1;
        }
        k += 1;
    }
    kani::cover!(v[3] == -(1 << 24) && v[4] == (1 << 24) - 1);
}

