// ATTIC: did not finish in 25 minutes (nom many0_count over 80 bit positions).
/// Long runs: 10 input bytes holding zeros, ONE one bit at a symbolic position, zeros after it, read
/// from a symbolic bit offset: the quotient is the distance to that bit and the input is advanced
/// just past it - for runs that cross byte and 64-bit word boundaries (a word-wise scan must count
/// from the bit offset, not from the word start).
//@ unit props=C15,C16 tier=quick kind=bounded timeout=1500 funcs="parser::unary_code" bound="10 input bytes, one set bit at any of the 80 positions, every bit offset 0..=7 (quotients 0..=79)"
#[kani::proof]
#[kani::unwind(84)]
fn c15_unary_code_long_run() {
    let pos: usize = kani::any();
    kani::assume(pos < 80);
    let off: usize = kani::any();
    kani::assume(off <= 7 && off <= pos);
    let mut data = [0u8; 10];
    data[pos / 8] = 0x80u8 >> (pos % 8);
    match unary_code::<BitErr>((&data[..], off)) {
        Ok(((rest, roff), q)) => {
            assert!(q == pos - off);
            let end = pos + 1;
            assert!(rest.len() == 10 - end / 8 && roff == end % 8);
        }
        Err(_) => assert!(false),
    }
    kani::cover!(pos == 79 && off == 7);
    kani::cover!(pos == 64 && off == 3);
}

