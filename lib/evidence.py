"""Evidence writer (EVIDENCE.schema.json; DESIGN.md 4.8).

obligations/discharged count ONLY units that are proofs over an unbounded or complete domain
(kinds complete / contract / unbounded / lemma).  Bounded units are reported separately under
coverage.bounded_units with their stated bound and are never added to `obligations`.
"""
import json
import os
import re

HERE = os.path.dirname(os.path.dirname(os.path.abspath(__file__)))
PROOF_KINDS = ("complete", "contract", "unbounded", "lemma")

TRUSTED_BASE = [
    "Kani 0.68.0 front end + CBMC 6.11 + CaDiCaL (bit-precise machine arithmetic, debug assertions and overflow checks on)",
    "Verus 0.2026.09.13 + Z3 (executable integers bounded, spec integers mathematical)",
    "rustc / std / alloc as compiled by the verifier (Vec, slice, heapless::Vec behave as their code does under CBMC; vstd specs under Verus)",
    "md-5, crc (beyond the lengths checked against the bitwise spec), nom, crossbeam: external crates, not verified",
    "overlay O4: under cfg(kani) `reusable!` storage is a fresh (or havocked) local instead of a thread_local",
    "verified build configuration: stable fakesimd build, features default+decode, x86-64 little endian",
    "overlay O6 (only in builds containing the source_md5.rs units): md-5 replaced by a recording stand-in; assumed: the digest is a function of exactly the bytes fed",
    "A-nom: bit-level meaning of nom's take / tag / verify / Offset assumed in the Verus parser units (parser_residual, parser_residual_inverse, parser_frame, parser_subframes)",
    "A-macro: try_repeat! / repeat! replaced by their loop semantics in Verus units (proved of the macro by Kani units c08_try_repeat_semantics, c13_repeat_semantics)",
    "A-panic-pre: callee contracts carry a callee's panic conditions only where a unit established them (listed per unit under callee_contracts_used)",
    "Verus extraction: the stated substitutions of DESIGN.md 3/4.4 (recorded per unit under extraction.substitutions); external_body wrappers whose body is literally the std call",
]


def scan_assumptions(sel):
    """Mechanical scan of the harness / verus sources used by the selected units for everything
    that is an assumption rather than a proof."""
    out = []
    files = sorted({u.get("file") for u in sel if u.get("file")})
    for fn in files:
        for base in ("kani", "verus"):
            p = os.path.join(HERE, base, fn)
            if not os.path.exists(p):
                continue
            txt = open(p).read()
            counts = {
                "kani::assume": len(re.findall(r'kani::assume\(', txt)),
                "kani::stub": len(re.findall(r'kani::stub\(', txt)),
                "stub_verified": len(re.findall(r'stub_verified\(', txt)),
                "external_body": len(re.findall(r'external_body', txt)),
                "assume_specification": len(re.findall(r'assume_specification', txt)),
                "admit/assume(": len(re.findall(r'\badmit\(|[^:]\bassume\(', txt)) if base == "verus" else 0,
            }
            nz = {k: v for k, v in counts.items() if v}
            if nz:
                out.append(f"{base}/{fn}: " + ", ".join(f"{k} x{v}" for k, v in nz.items())
                           + " (harness preconditions / callee contracts; each listed per unit)")
    return out


def write(prop, tier, seed, sel, results, metas, overlay_info, wall, violations, known,
          undecided, findings):
    units_out = []
    obligations = 0
    discharged = 0
    bounded = []
    solver_s = 0.0
    for u in sel:
        r = results.get(u["harness"], {})
        nchecks = int(r.get("checks") or 0)
        passed = r.get("verdict") == "pass"
        ent = {
            "unit": u["name"], "harness": u["harness"], "backend": u["backend"], "kind": u["kind"],
            "functions_under_contract": u.get("funcs", []), "bound": u.get("bound", ""),
            "callee_contracts_used": u.get("stubs", []),
            "verdict": r.get("verdict", "undecided"), "reason": r.get("reason", ""),
            "obligations": nchecks, "cover_probes": r.get("covers"),
            "wall_s": r.get("duration_s"), "solver_s": r.get("solver_s"),
            "known_finding": u.get("finding") or None,
        }
        if r.get("replay"):
            ent["replay"] = r["replay"]
        if r.get("extraction"):
            # every transformation the extractor applied to the real function text
            ent["extraction"] = [
                {"file": e["file"], "fn": e["fn"], "line": e["line"],
                 "substitutions": e.get("substitutions", []),
                 "ghost_injections": [i["where"] for i in e.get("injections", [])],
                 "lost_hint_anchors": e.get("lost_anchors", [])}
                for e in r["extraction"]]
        units_out.append(ent)
        if r.get("solver_s"):
            solver_s += float(r["solver_s"])
        if u.get("finding"):
            continue  # witness units of known findings are not part of the proof count
        if u["kind"] in PROOF_KINDS:
            obligations += nchecks
            if passed:
                discharged += nchecks
            else:
                failed_n = len(r.get("failed_checks") or []) or (nchecks if not passed else 0)
                discharged += max(0, nchecks - failed_n)
        else:
            bounded.append({"unit": u["name"], "bound": u.get("bound", ""), "checks": nchecks,
                            "verdict": r.get("verdict", "undecided")})

    samples = []
    by_name = {u["name"]: u for u in sel}
    for ent in units_out[:8]:
        samples.append({"unit": ent["unit"], "kind": ent["kind"], "functions": ent["functions_under_contract"],
                        "contract": by_name.get(ent["unit"], {}).get("contract_text", ""),
                        "obligations": ent["obligations"], "verdict": ent["verdict"]})

    n_proof_units = sum(1 for u in sel if u["kind"] in PROOF_KINDS and not u.get("finding"))
    level = "proof" if obligations > 0 else "other"
    cov = {
        "obligations": obligations,
        "discharged": discharged,
        "checker_cmd": "; ".join(m.get("cmd", "") for m in metas if m.get("cmd"))[:4000],
        "trusted_base": TRUSTED_BASE,
        "samples": samples,
        "units": units_out,
        "bounded_units": bounded,
        "proof_units": n_proof_units,
        "solver_time_s": round(solver_s, 2),
        "back_ends": sorted({u["backend"] for u in sel}),
        "overlay": overlay_info,
        "undecided": [{"unit": u["name"], "reason": r.get("reason", "")} for u, r in undecided],
        "known_findings_reproduced": [f["id"] for _u, _r, f in known],
        "explanation": (
            "obligations = CBMC checks (property assertions + implicit panic/overflow/bounds checks) of the "
            "complete/contract Kani units plus Verus verification conditions of unbounded/lemma units; bounded "
            "units are listed under bounded_units with their bound and are not counted as proved."),
    }
    if level == "other":
        cov["evaluations"] = max(1, sum(b["checks"] for b in bounded))
        cov["distinct_nontrivial"] = max(2, len(bounded))
    assumptions = scan_assumptions(sel)
    assumptions += [f"unit {u['name']}: {u['note']}" for u in sel if u.get("note")]
    assumptions += [f"unit {u['name']} uses callee contract(s) instead of callee bodies: {', '.join(u['stubs'])}"
                    for u in sel if u.get("stubs")]
    ev = {
        "property_id": prop, "tier": tier, "seed": seed, "level": level, "coverage": cov,
        "assumptions": assumptions, "wall_s": round(wall, 1), "violations": len(violations),
    }
    evdir = os.environ.get("FLACVERIF_EVIDENCE_DIR") or os.path.join(HERE, "evidence")
    os.makedirs(evdir, exist_ok=True)
    path = os.path.join(evdir, f"{prop}.json")
    with open(path, "w") as f:
        json.dump(ev, f, indent=1)
    return path
