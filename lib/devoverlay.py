"""dev helper: build a persistent overlay at a given path for interactive harness work."""
import sys, os
sys.path.insert(0, os.path.dirname(os.path.abspath(__file__)))
import overlay
d = sys.argv[1]
info = overlay.build(d, havoc=(len(sys.argv) > 2 and sys.argv[2] == "havoc"))
print(info["diff_sha"])
