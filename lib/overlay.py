"""Run-time overlay of /repo for Kani (DESIGN.md section 4.2).

Every check builds a fresh copy of /repo's *current working tree* and adds, mechanically:
  O1  `#[cfg(any(kani, flacenc_verif_replay))] mod verif { .. }` appended to each source file that
      has harness text in /verif/kani/<name>.rs (a child module sees private items);
  O1b `src/verif_support.rs` (spec functions + replay shim) and one `mod verif_support;` line;
  O2  `#[cfg_attr(kani, kani::requires/ensures(..))]` lines directly above named `fn` items
      (from /verif/kani/contracts.toml);
  O3  crate attributes needed for loop contracts (cfg_attr(kani, ..)) at the top of lib.rs;
  O4  the only replacement: the `reusable!` macro definition in lib.rs gets a `#[cfg(not(kani))]`
      guard and a `#[cfg(kani)]` twin (fresh buffer per use, or havocked buffer for C10 units).
After building, the overlay is diffed against /repo: anything other than pure additions (plus the
one guard line of O4) raises OverlayError => exit 2 (machinery error), never a verdict.
"""
import difflib
import hashlib
import os
import re
import shutil
import subprocess

REPO = os.environ.get("FLACVERIF_REPO", "/repo")
VERIF = os.path.dirname(os.path.dirname(os.path.abspath(__file__)))
KANI_DIR = os.path.join(VERIF, "kani")

# harness file name -> (source file relative to repo root, name of the appended child module)
HARNESS_FILES = {
    "bitsink.rs": ("src/bitsink.rs", "verif"),
    "rice.rs": ("src/rice.rs", "verif"),
    "coding.rs": ("src/coding.rs", "verif"),
    "lpc.rs": ("src/lpc.rs", "verif"),
    "arrayutils.rs": ("src/arrayutils.rs", "verif"),
    "source.rs": ("src/source.rs", "verif"),
    "config.rs": ("src/config.rs", "verif"),
    "error.rs": ("src/error.rs", "verif"),
    "component.rs": ("src/component.rs", "verif"),
    "bitrepr.rs": ("src/component/bitrepr.rs", "verif"),
    "datatype.rs": ("src/component/datatype.rs", "verif"),
    "datatype_c18.rs": ("src/component/datatype.rs", "verif_c18"),
    "parser.rs": ("src/component/parser.rs", "verif"),
    "decode.rs": ("src/component/decode.rs", "verif"),
    "verify.rs": ("src/component/verify.rs", "verif"),
    "coding_sel.rs": ("src/coding.rs", "verif_sel"),
    "source_c14.rs": ("src/source.rs", "verif_c14"),
    "lpc_c07.rs": ("src/lpc.rs", "verif_c07"),
    "coding_c07.rs": ("src/coding.rs", "verif_c07"),
    "coding_c13.rs": ("src/coding.rs", "verif_c13"),
    "source_drv.rs": ("src/source.rs", "verif_drv"),
    "bitrepr_sub.rs": ("src/component/bitrepr.rs", "verif_sub"),
    "bitrepr_c12.rs": ("src/component/bitrepr.rs", "verif_c12"),
    "bitrepr_hdr.rs": ("src/component/bitrepr.rs", "verif_hdr"),
    "coding_frm.rs": ("src/coding.rs", "verif_frm"),
    "parser_frm.rs": ("src/component/parser.rs", "verif_frm"),
    "source_md5.rs": ("src/source.rs", "verif_md5"),
    "repeat.rs": ("src/repeat.rs", "verif"),
    "rice_parts.rs": ("src/rice.rs", "verif_parts"),
    "rice_small.rs": ("src/rice.rs", "verif_small"),
    "datatype_pre.rs": ("src/component/datatype.rs", "verif_pre"),
    "decode_sig.rs": ("src/component/decode.rs", "verif_sig"),
}


class OverlayError(Exception):
    pass


def disabled_files():
    """Harness files listed in kani/DISABLED (one per line) are skipped: work in progress."""
    p = os.path.join(KANI_DIR, "DISABLED")
    if os.environ.get("FLACVERIF_HONOR_DISABLED") != "1" or not os.path.exists(p):
        return set()
    return {l.strip() for l in open(p) if l.strip() and not l.startswith("#")}


REUSABLE_TWIN_FRESH = '''
// ---- flacverif O4: cfg(kani) twin of `reusable!` (fresh buffer per use; no thread_local) ----
#[cfg(kani)]
macro_rules! reusable {
    ($key:ident: $t:ty) => {
        reusable!($key: $t = Default::default());
    };
    ($key:ident: $t:ty = $init:expr) => {
        #[allow(non_camel_case_types)]
        struct $key;
        impl $key {
            #[allow(dead_code)]
            fn with<R>(&self, f: impl FnOnce(&std::cell::RefCell<$t>) -> R) -> R {
                let cell = std::cell::RefCell::new($init);
                f(&cell)
            }
        }
    };
}
// ---- end flacverif O4 ----
'''

# For C10/C12 units marked `havoc=1` ("sticky"): the scratch buffer of a key is ONE object that
# persists between uses inside the harness, as the thread-local does on a long-lived thread, so a
# harness can run a history (call, failing call, call) and observe what leaks from one to the next.
REUSABLE_TWIN_HAVOC = '''
// ---- flacverif O4: cfg(kani) twin of `reusable!` (STICKY: one buffer per key that persists across
// uses within a harness, exactly like the thread-local on one long-lived thread; no thread_local) ----
#[cfg(kani)]
macro_rules! reusable {
    ($key:ident: $t:ty) => {
        reusable!($key: $t = Default::default());
    };
    ($key:ident: $t:ty = $init:expr) => {
        #[allow(non_camel_case_types)]
        struct $key;
        impl $key {
            #[allow(dead_code)]
            fn with<R>(&self, f: impl FnOnce(&std::cell::RefCell<$t>) -> R) -> R {
                static mut STORE: Option<std::cell::RefCell<$t>> = None;
                #[allow(static_mut_refs)]
                unsafe {
                    if STORE.is_none() {
                        STORE = Some(std::cell::RefCell::new($init));
                    }
                    f(STORE.as_ref().unwrap())
                }
            }
        }
    };
}
// ---- end flacverif O4 ----
'''

KANI_ATTR_RE = re.compile(r'^(\s*)#\[kani::(.*)\]\s*$')


def _cfg_attr_kani(text):
    """`#[kani::x(..)]` -> `#[cfg_attr(kani, kani::x(..))]` so that the same harness text compiles
    in replay mode (ordinary toolchain, no kani crate)."""
    out = []
    for line in text.split("\n"):
        m = KANI_ATTR_RE.match(line)
        if m:
            out.append(f"{m.group(1)}#[cfg_attr(kani, kani::{m.group(2)})]")
        else:
            out.append(line)
    return "\n".join(out)


def harness_closure(files):
    """Harness files needed to compile `files`: themselves plus every harness module they refer to
    as `crate::<path>::<modname>` (transitively).  Keeps the blast radius of a harness that no
    longer compiles (e.g. because a stubbed function changed its signature) to the properties that
    actually use it."""
    rev = {}
    for hname, (rel, modname) in HARNESS_FILES.items():
        path = "crate::" + rel[len("src/"):-len(".rs")].replace("/", "::") + "::" + modname
        rev[path] = hname
    need = set()
    todo = [f for f in files]
    while todo:
        f = todo.pop()
        if f in need:
            continue
        need.add(f)
        hp = os.path.join(KANI_DIR, f)
        if not os.path.exists(hp):
            continue
        txt = open(hp).read()
        for m in re.finditer(r'^\s*//@ uses:\s*(.*)$', txt, flags=re.M):
            for dep in m.group(1).replace(",", " ").split():
                if dep.endswith(".rs") and dep not in need:
                    todo.append(dep)
        for m in re.finditer(r'crate::[A-Za-z0-9_:]*?::verif[A-Za-z0-9_]*', txt):
            tok = m.group(0)
            if tok in rev and rev[tok] not in need:
                todo.append(rev[tok])
    return need


def copy_repo(dest):
    if os.path.exists(dest):
        shutil.rmtree(dest)
    os.makedirs(dest)
    subprocess.run(
        ["rsync", "-a", "--exclude", "target", "--exclude", ".git", "--exclude", "fuzz",
         "--exclude", "report", "--exclude", "flacenc-bin", "--exclude", "testtool",
         REPO + "/", dest + "/"],
        check=True)
    # the repo's .cargo/config sets target-cpu=native (irrelevant for verification); replace it by
    # an offline switch so that nothing tries to reach a registry.
    cdir = os.path.join(dest, ".cargo")
    shutil.rmtree(cdir, ignore_errors=True)
    os.makedirs(cdir)
    with open(os.path.join(cdir, "config.toml"), "w") as f:
        f.write("[net]\noffline = true\n")


def load_contracts():
    """contracts.toml (tiny hand-rolled format to avoid a toml dependency):
        [src/rice.rs :: pub const fn encode_signbit]
        requires = v != i32::MIN
        ensures = |r: &u32| ...
    """
    path = os.path.join(KANI_DIR, "contracts.txt")
    res = []
    if not os.path.exists(path):
        return res
    cur = None
    for line in open(path):
        line = line.rstrip("\n")
        if not line.strip() or line.strip().startswith("#"):
            continue
        m = re.match(r'^\[(.+?)\s*::\s*(.+)\]$', line.strip())
        if m:
            cur = {"file": m.group(1), "anchor": m.group(2), "attrs": []}
            res.append(cur)
            continue
        k, _, v = line.partition("=")
        k = k.strip()
        v = v.strip()
        if cur is None or k not in ("requires", "ensures", "modifies", "recursion"):
            raise OverlayError(f"bad contracts.txt line: {line}")
        cur["attrs"].append((k, v))
    return res


def build(dest, havoc=False, with_contracts=True, only_files=None, extra=None):
    """Build the overlay in `dest`.  Returns a dict with the list of additions (for evidence)."""
    copy_repo(dest)
    info = {"added_files": [], "appended": [], "contracts": [], "replaced": []}

    # O4 ---------------------------------------------------------------------------------------
    librs = os.path.join(dest, "src/lib.rs")
    s = open(librs).read()
    anchor = "macro_rules! reusable {"
    if s.count(anchor) != 1:
        raise OverlayError("O4: `macro_rules! reusable {` not found exactly once in src/lib.rs")
    s = s.replace(anchor, "#[cfg(not(kani))]\n" + anchor, 1)
    twin = REUSABLE_TWIN_HAVOC if havoc else REUSABLE_TWIN_FRESH
    anchor2 = "/// Macro used when using a storage declared using [`reusable!`]."
    if s.count(anchor2) == 1:
        s = s.replace(anchor2, twin + "\n" + anchor2, 1)
    else:
        s = s + "\n" + twin
    info["replaced"].append("src/lib.rs: `reusable!` guarded by cfg(not(kani)) + cfg(kani) twin (%s)"
                            % ("sticky" if havoc else "fresh"))
    # O3 + O1b ---------------------------------------------------------------------------------
    s = ("#![cfg_attr(kani, feature(stmt_expr_attributes, proc_macro_hygiene))]\n"
         "#![cfg_attr(kani, allow(unused_attributes))]\n" + s)
    s += ("\n#[cfg(any(kani, flacenc_verif_replay))]\n#[allow(warnings)]\n"
          "pub(crate) mod verif_support;\n")
    open(librs, "w").write(s)
    sup = open(os.path.join(KANI_DIR, "support.rs")).read()
    if havoc or True:
        hv = os.path.join(KANI_DIR, "havoc.rs")
        if os.path.exists(hv):
            sup += "\n" + open(hv).read()
    open(os.path.join(dest, "src/verif_support.rs"), "w").write(sup)
    info["added_files"].append("src/verif_support.rs")

    # O1 ---------------------------------------------------------------------------------------
    for hname, (rel, modname) in HARNESS_FILES.items():
        hpath = os.path.join(KANI_DIR, hname)
        if not os.path.exists(hpath) or hname in disabled_files():
            continue
        if only_files is not None and hname not in only_files:
            continue
        target = os.path.join(dest, rel)
        if not os.path.exists(target):
            raise OverlayError(f"O1: source file {rel} not found (lost anchor)")
        text = _cfg_attr_kani(open(hpath).read())
        if extra and hname in extra:
            text += "\n" + extra[hname]
        block = ("\n// ---- flacverif O1: harness module appended by /verif/lib/overlay.py ----\n"
                 "#[cfg(any(kani, flacenc_verif_replay))]\n#[allow(warnings)]\n"
                 "pub(crate) mod " + modname + " {\n    use super::*;\n    use crate::verif_support::*;\n"
                 "    #[cfg(not(kani))]\n    use crate::verif_support::kani;\n"
                 + text + "\n}\n")
        with open(target, "a") as f:
            f.write(block)
        info["appended"].append(rel)

    # O2 ---------------------------------------------------------------------------------------
    if with_contracts:
        for c in load_contracts():
            target = os.path.join(dest, c["file"])
            if not os.path.exists(target):
                raise OverlayError(f"O2: {c['file']} not found (lost anchor)")
            lines = open(target).read().split("\n")
            hits = [i for i, l in enumerate(lines) if l.strip().startswith(c["anchor"] + "(")
                    or l.strip().startswith(c["anchor"] + "<")]
            if len(hits) != 1:
                raise OverlayError(f"O2: anchor `{c['anchor']}` found {len(hits)} times in {c['file']}")
            i = hits[0]
            indent = re.match(r'^\s*', lines[i]).group(0)
            ins = [f"{indent}#[cfg_attr(kani, kani::{k}({v}))]" for k, v in c["attrs"]]
            lines[i:i] = ins
            open(target, "w").write("\n".join(lines))
            info["contracts"].append({"file": c["file"], "fn": c["anchor"], "attrs": c["attrs"]})

    # O6 (only when the md5 units are part of the build) ---------------------------------------
    # The md-5 dependency is replaced by a RECORDING stand-in (kani/md5_spec): MD5 itself cannot be
    # run inside CBMC, and what the properties need of it is "a function of the bytes fed".
    if only_files is not None and "source_md5.rs" in only_files:
        shutil.copytree(os.path.join(KANI_DIR, "md5_spec"), os.path.join(dest, "verif_md5"))
        ct = os.path.join(dest, "Cargo.toml")
        cs = open(ct).read()
        if "[patch.crates-io]" in cs:
            raise OverlayError("O6: Cargo.toml already has a [patch.crates-io] section")
        open(ct, "a").write('\n[patch.crates-io]\nmd-5 = { path = "verif_md5" }\n')
        info["replaced"].append("Cargo.toml: dependency md-5 patched to the recording stand-in "
                                "kani/md5_spec (assumed contract: digest = function of the fed bytes)")

    # O5 ---------------------------------------------------------------------------------------
    info["diff_sha"] = verify_additions_only(dest)
    return info


def verify_additions_only(dest):
    """Every tracked source line of /repo must still be present, in order, in the overlay."""
    h = hashlib.sha256()
    for root, _dirs, files in os.walk(os.path.join(REPO, "src")):
        for fn in files:
            if not fn.endswith(".rs"):
                continue
            a = os.path.join(root, fn)
            rel = os.path.relpath(a, REPO)
            b = os.path.join(dest, rel)
            if not os.path.exists(b):
                raise OverlayError(f"O5: {rel} missing from overlay")
            al = open(a).read().split("\n")
            bl = open(b).read().split("\n")
            sm = difflib.SequenceMatcher(None, al, bl, autojunk=False)
            for tag, i1, i2, j1, j2 in sm.get_opcodes():
                if tag in ("delete", "replace"):
                    raise OverlayError(f"O5: overlay changed/removed lines of {rel}: "
                                       f"{al[i1:i2][:3]}")
                if tag == "insert":
                    h.update(("\n".join(bl[j1:j2])).encode())
    return h.hexdigest()[:16]
