"""Verus units: mechanical extraction of real functions from /repo + single-file `verus` run.

A unit is a template /verif/verus/<name>.rs.  Its first line is a `//@ unit ...` annotation (same
grammar as the Kani units, backend = verus).  Inside, each block

    //@extract file=src/x.rs fn="pub fn name" [impl="impl Fill for Context"] [rename=new_name]
    //@subst `from` => `to` [xN]
    //@sig
    //|     requires ..
    //|     ensures ..
    //@loop K
    //|     invariant ..
    //@after `anchor text`
    //|     proof { .. }
    //@before `anchor text`
    //|     ..
    //@end

is replaced by the text of the named function copied from /repo's CURRENT working tree
(from the `fn` line to the matching brace; attributes and doc comments above it are dropped) with
ONLY these transformations, each recorded in evidence:
  subst   exact textual substitution that must match exactly N times (the stated substitution
          table of DESIGN.md 3/4.4: generic instantiation, destructuring assignment, to_le_bytes
          wrapper, reuse! closure -> parameter, map_err(F)? -> match);
  sig     ghost text inserted between the signature and the body;
  loop K  ghost text inserted between the K-th loop header (textual order) and its body;
  after/before  ghost text inserted after/before the unique line containing the anchor.
After extraction the injected payload is stripped again and compared with the substituted
original; a mismatch or a lost anchor is exit 2 (undecided), never a verdict.
"""
import json
import os
import re
import subprocess
import time

import overlay
from units import parse_kv

VERUS_DIR = os.path.join(overlay.VERIF, "verus")


class ExtractError(Exception):
    pass


def load_units():
    units = []
    if not os.path.isdir(VERUS_DIR):
        return units
    for fn in sorted(os.listdir(VERUS_DIR)):
        if not fn.endswith(".rs") or fn.startswith("_"):
            continue
        lines_ = open(os.path.join(VERUS_DIR, fn)).read().split("\n")
        first = lines_[0]
        doc_ = []
        for l_ in lines_[1:12]:
            if l_.startswith("//") and not l_.startswith("//@"):
                doc_.append(l_[2:].strip())
            else:
                break
        m = re.match(r'^\s*//@ unit\s+(.*)$', first)
        if not m:
            continue
        kv = parse_kv(m.group(1))
        name = fn[:-3]
        units.append({
            "backend": "verus", "name": name, "harness": "verus::" + name, "file": fn,
            "props": [p for p in kv.get("props", "").split(",") if p],
            "tier": kv.get("tier", "quick"), "kind": kv.get("kind", "unbounded"),
            "timeout": int(kv.get("timeout", "120")),
            "funcs": [f.strip() for f in kv.get("funcs", "").split(";") if f.strip()],
            "bound": kv.get("bound", ""), "stubs": [f.strip() for f in kv.get("stubs", "").split(";") if f.strip()],
            "havoc": False, "replay": False, "note": kv.get("note", ""), "finding": kv.get("finding", ""),
            "contract_of": "", "contract_text": " ".join(doc_)[:700],
        })
    return units


# ---- a small Rust-aware scanner ------------------------------------------------------------------

def _skip_noncode(s, i):
    """If s[i:] starts a comment / string / char literal, return index just past it, else i."""
    if s.startswith("//", i):
        j = s.find("\n", i)
        return len(s) if j < 0 else j
    if s.startswith("/*", i):
        j = s.find("*/", i + 2)
        return len(s) if j < 0 else j + 2
    c = s[i]
    if c == '"':
        j = i + 1
        while j < len(s):
            if s[j] == "\\":
                j += 2
                continue
            if s[j] == '"':
                return j + 1
            j += 1
        return len(s)
    if c == "'":
        m = re.match(r"'(\\.[^']*|[^\\'])'", s[i:])
        if m:
            return i + m.end()
        return i + 1  # lifetime
    return i


def find_matching_brace(s, open_idx):
    assert s[open_idx] == "{"
    depth = 0
    i = open_idx
    while i < len(s):
        j = _skip_noncode(s, i)
        if j != i:
            i = j
            continue
        if s[i] == "{":
            depth += 1
        elif s[i] == "}":
            depth -= 1
            if depth == 0:
                return i
        i += 1
    raise ExtractError("unbalanced braces")


def find_body_open(s, start):
    """Index of the `{` opening the body of the item whose header starts at `start`."""
    depth = 0
    i = start
    while i < len(s):
        j = _skip_noncode(s, i)
        if j != i:
            i = j
            continue
        c = s[i]
        if c in "([":
            depth += 1
        elif c in ")]":
            depth -= 1
        elif c == "{" and depth == 0:
            return i
        elif c == ";" and depth == 0:
            raise ExtractError("item has no body")
        i += 1
    raise ExtractError("body not found")


def extract_fn(src_text, fn_anchor, impl_anchor=None):
    base = 0
    if impl_anchor:
        hits = [m.start() for m in re.finditer(re.escape(impl_anchor), src_text)]
        hits = [h for h in hits if re.match(r'[ \t]*$', src_text[src_text.rfind("\n", 0, h) + 1:h])]
        if len(hits) != 1:
            raise ExtractError(f"impl anchor `{impl_anchor}` found {len(hits)} times")
        iopen = find_body_open(src_text, hits[0])
        iclose = find_matching_brace(src_text, iopen)
        region = (iopen, iclose)
    else:
        region = (0, len(src_text))
    pat = re.compile(r'^[ \t]*' + re.escape(fn_anchor) + r'\b', re.M)
    hits = [m for m in pat.finditer(src_text, region[0], region[1])]
    # drop hits that are inside cfg(feature = "simd-nightly") items: keep the one whose preceding
    # attribute lines do not enable simd-nightly
    good = []
    for m in hits:
        pre = src_text[:m.start()].rstrip().split("\n")[-4:]
        pre_txt = "\n".join(pre)
        if re.search(r'#\[cfg\(feature = "simd-nightly"\)\]', pre_txt) and not re.search(r'not\(feature = "simd-nightly"\)', pre_txt):
            continue
        good.append(m)
    if len(good) != 1:
        raise ExtractError(f"fn anchor `{fn_anchor}` found {len(good)} times")
    start = good[0].start()
    bopen = find_body_open(src_text, start)
    bclose = find_matching_brace(src_text, bopen)
    text = src_text[start:bclose + 1]
    line_no = src_text.count("\n", 0, start) + 1
    # dedent
    lines = text.split("\n")
    ind = len(re.match(r'[ \t]*', lines[0]).group(0))
    lines = [l[ind:] if l[:ind].strip() == "" else l for l in lines]
    return "\n".join(lines), line_no


LOOP_RE = re.compile(r"(?:^|\n)([ \t]*(?:'[a-z_]+:\s*)?)(for|while|loop)\b")


def loop_header_positions(text):
    """[(kw_index, body_open_index)] for every loop in textual order (skipping comments/strings)."""
    res = []
    i = 0
    n = len(text)
    at_stmt_start = True
    while i < n:
        j = _skip_noncode(text, i)
        if j != i:
            i = j
            continue
        m = re.match(r"(?:'[a-z_]+:\s*)?(for|while|loop)\b", text[i:])
        prev = text[i - 1] if i > 0 else "\n"
        if m and (prev in " \t\n{;}") and not re.match(r'[A-Za-z0-9_]', prev):
            # exclude `for` in `impl X for Y` / HRTB `for<'a>`
            kw_end = i + m.end()
            if m.group(1) == "for" and text[kw_end:kw_end + 1] == "<":
                i = kw_end
                continue
            try:
                bo = find_body_open(text, kw_end)
            except ExtractError:
                i = kw_end
                continue
            res.append((i, bo))
            i = kw_end
            continue
        i += 1
    return res


def fuzzy_anchor(text, anchor, threshold=0.72, margin=0.08):
    """Index in `text` of the start of the unique line most similar to `anchor`, or None."""
    import difflib
    a = anchor.strip()
    best = []
    pos = 0
    for line in text.split("\n"):
        st = line.strip()
        if st and not st.startswith("//"):
            cand = st[:len(a) + 6]
            r = difflib.SequenceMatcher(None, a, cand, autojunk=False).ratio()
            best.append((r, pos + (len(line) - len(line.lstrip()))))
        pos += len(line) + 1
    best.sort(reverse=True)
    if not best or best[0][0] < threshold:
        return None
    if len(best) > 1 and best[1][0] > best[0][0] - margin:
        return None
    return best[0][1]


def process_template(tmpl_text, repo=None):
    repo = repo or overlay.REPO
    out = []
    log = []
    lines = tmpl_text.split("\n")
    i = 0
    while i < len(lines):
        line = lines[i]
        cm = re.match(r'^\s*//@const\s+(.*)$', line)
        if cm:
            # copy a `const NAME: T = EXPR;` item verbatim from the source (made `pub`)
            ckv = parse_kv(cm.group(1))
            cpath = os.path.join(repo, ckv["file"])
            if not os.path.exists(cpath):
                raise ExtractError(f"{ckv['file']} not found (lost anchor)")
            hits = re.findall(r'^[ \t]*(?:pub(?:\([a-z]+\))?[ \t]+)?(const[ \t]+' + re.escape(ckv["name"]) +
                              r'[ \t]*:[^=;]+=[^;]+;)', open(cpath).read(), flags=re.M)
            if len(hits) != 1:
                raise ExtractError(f"const `{ckv['name']}` found {len(hits)} times in {ckv['file']}")
            out.append(f"// ---- copied from {ckv['file']} ----")
            out.append("pub " + hits[0])
            log.append({"file": ckv["file"], "fn": "const " + ckv["name"], "impl": None, "line": 0,
                        "const": ckv["name"], "text": hits[0], "substitutions": [], "injections": []})
            i += 1
            continue
        m = re.match(r'^\s*//@extract\s+(.*)$', line)
        if not m:
            out.append(line)
            i += 1
            continue
        kv = parse_kv(m.group(1))
        block = []
        i += 1
        while i < len(lines) and not re.match(r'^\s*//@end\s*$', lines[i]):
            block.append(lines[i])
            i += 1
        if i >= len(lines):
            raise ExtractError("//@extract without //@end")
        i += 1
        path = os.path.join(repo, kv["file"])
        if not os.path.exists(path):
            raise ExtractError(f"{kv['file']} not found (lost anchor)")
        text, line_no = extract_fn(open(path).read(), kv["fn"], kv.get("impl"))
        entry = {"file": kv["file"], "fn": kv["fn"], "impl": kv.get("impl"), "line": line_no,
                 "substitutions": [], "injections": []}
        # parse directives
        directives = []
        cur = None
        for b in block:
            dm = re.match(r'^\s*//@(subst|sig|bodystart|loopbody|loopend|afterloop|loop|after|before|drop_line)\b\s*(.*)$', b)
            if dm:
                cur = {"kind": dm.group(1), "arg": dm.group(2).strip(), "payload": []}
                directives.append(cur)
                continue
            pm = re.match(r'^\s*//\|(.*)$', b)
            if pm and cur is not None:
                pl = pm.group(1)
                cur["payload"].append(pl[1:] if pl.startswith(" ") else pl)
                continue
            if b.strip() == "":
                continue
            raise ExtractError(f"bad line in extract block: {b}")
        # substitutions first
        t1 = text
        for d in directives:
            if d["kind"] == "subst":
                sm = re.match(r'^`(.*?)`\s*=>\s*`(.*?)`(?:\s+x(\d+))?$', d["arg"], flags=re.S)
                if not sm:
                    raise ExtractError(f"bad subst: {d['arg']}")
                frm = sm.group(1).replace("\\n", "\n")
                to = sm.group(2).replace("\\n", "\n")
                cnt = int(sm.group(3) or 1)
                if t1.count(frm) != cnt:
                    raise ExtractError(f"subst anchor `{frm[:60]}` occurs {t1.count(frm)}x, expected {cnt} "
                                       f"in {kv['fn']} (source drifted)")
                t1 = t1.replace(frm, to)
                entry["substitutions"].append({"from": frm, "to": to, "count": cnt})
            elif d["kind"] == "drop_line":
                sm = re.match(r'^`(.*?)`$', d["arg"])
                frm = sm.group(1)
                ls = t1.split("\n")
                hit = [k for k, l in enumerate(ls) if frm in l]
                if len(hit) != 1:
                    raise ExtractError(f"drop_line anchor `{frm}` occurs {len(hit)}x")
                entry["substitutions"].append({"dropped_line": ls[hit[0]].strip()})
                del ls[hit[0]]
                t1 = "\n".join(ls)
        if kv.get("rename"):
            old = re.search(r'fn\s+([A-Za-z0-9_]+)', t1).group(1)
            t1 = re.sub(r'fn\s+' + old + r'\b', "fn " + kv["rename"], t1, count=1)
            entry["substitutions"].append({"rename": [old, kv["rename"]]})
        # injections: compute insertion points on t1, apply from the back
        inserts = []  # (index, text)
        loops = None
        for d in directives:
            payload = "\n".join(d["payload"])
            if d["kind"] == "sig":
                bo = find_body_open(t1, 0)
                inserts.append((bo, "\n" + payload + "\n"))
                entry["injections"].append({"where": "signature", "text": payload})
            elif d["kind"] == "loop":
                if loops is None:
                    loops = loop_header_positions(t1[find_body_open(t1, 0):])
                    off = find_body_open(t1, 0)
                    loops = [(a + off, b + off) for a, b in loops]
                k = int(d["arg"])
                if k < 1 or k > len(loops):
                    raise ExtractError(f"loop {k} not found in {kv['fn']} ({len(loops)} loops)")
                inserts.append((loops[k - 1][1], "\n" + payload + "\n"))
                entry["injections"].append({"where": f"loop {k}", "text": payload})
            elif d["kind"] == "bodystart":
                bo = find_body_open(t1, 0)
                inserts.append((bo + 1, "\n" + payload + "\n"))
                entry["injections"].append({"where": "start of the function body", "text": payload})
            elif d["kind"] in ("loopbody", "loopend", "afterloop"):
                # structural anchors (loop ordinal, not statement text): ghost text at the start /
                # end of the K-th loop's body, or right after the loop.  They survive any change
                # of the statements inside the loop, so a changed statement is judged by the
                # verifier instead of being lost with its hint.
                if loops is None:
                    loops = loop_header_positions(t1[find_body_open(t1, 0):])
                    off = find_body_open(t1, 0)
                    loops = [(a + off, b + off) for a, b in loops]
                k = int(d["arg"])
                if k < 1 or k > len(loops):
                    raise ExtractError(f"loop {k} not found in {kv['fn']} ({len(loops)} loops)")
                bo = loops[k - 1][1]
                bc = find_matching_brace(t1, bo)
                if d["kind"] == "loopbody":
                    inserts.append((bo + 1, "\n" + payload + "\n"))
                elif d["kind"] == "loopend":
                    inserts.append((bc, "\n" + payload + "\n"))
                else:
                    inserts.append((bc + 1, "\n" + payload + "\n"))
                entry["injections"].append({"where": f"{d['kind']} {k}", "text": payload})
            elif d["kind"] in ("after", "before"):
                sm = re.match(r'^`(.*?)`$', d["arg"])
                anchor = sm.group(1).replace("\\n", "\n")
                idxs = [mm.start() for mm in re.finditer(re.escape(anchor), t1)]
                if len(idxs) == 0 and "\n" not in anchor:
                    # The anchored statement was edited.  Look for the unique line that still
                    # resembles it (a one-token change keeps > 70 % of the text): the hint then
                    # stays in place and the EDITED statement is judged by the verifier.  A hint
                    # that no longer type-checks there (renamed local) still ends as undecided.
                    fz = fuzzy_anchor(t1, anchor)
                    if fz is not None:
                        idxs = [fz]
                        entry.setdefault("fuzzy_anchors", []).append(anchor)
                if len(idxs) != 1:
                    # A ghost hint whose anchor statement is gone is skipped; the unit is then
                    # verified without it.  If that still verifies the hint was not needed; if
                    # it fails the verdict is `undecided` (lost anchor), never an alarm.
                    entry.setdefault("lost_anchors", []).append(anchor)
                    continue
                if d["kind"] == "after":
                    e = t1.find("\n", idxs[0])
                    e = len(t1) if e < 0 else e
                    inserts.append((e, "\n" + payload))
                else:
                    b = t1.rfind("\n", 0, idxs[0]) + 1
                    inserts.append((b, payload + "\n"))
                entry["injections"].append({"where": f"{d['kind']} `{anchor}`", "text": payload})
        t2 = t1
        for idx, txt in sorted(inserts, key=lambda x: -x[0]):
            t2 = t2[:idx] + "/*@inj*/" + txt + "/*@endinj*/" + t2[idx:]
        # round trip
        stripped = re.sub(r'/\*@inj\*/.*?/\*@endinj\*/', '', t2, flags=re.S)
        if stripped != t1:
            raise ExtractError("round-trip check failed (injection altered code text)")
        out.append(f"// ---- extracted from {kv['file']}:{line_no} `{kv['fn']}` ----")
        out.append(t2)
        out.append("// ---- end of extracted function ----")
        log.append(entry)
    return "\n".join(out), log


def run_one(unit, scratch, log_dir, prop):
    res = {"verdict": "undecided", "reason": "", "checks": 0, "failed_checks": [], "covers": [0, 0],
           "duration_s": None, "solver_s": None}
    tmpl = open(os.path.join(VERUS_DIR, unit["file"])).read()
    try:
        text, elog = process_template(tmpl)
    except ExtractError as e:
        res["reason"] = f"extraction: {e}"
        return res
    res["extraction"] = elog
    lost = [a for e in elog for a in e.get("lost_anchors", [])]
    os.makedirs(scratch, exist_ok=True)
    path = os.path.join(scratch, unit["name"] + ".rs")
    open(path, "w").write(text)
    if log_dir:
        open(os.path.join(log_dir, f"{prop}-verus-{unit['name']}.rs"), "w").write(text)
    cmd = ["verus", path, "--output-json", "--time", "--multiple-errors", "20", "--rlimit", str(unit.get("rlimit", 30))]
    t0 = time.time()
    try:
        p = subprocess.run(cmd, cwd=scratch, stdout=subprocess.PIPE, stderr=subprocess.STDOUT,
                           timeout=unit["timeout"], text=True, errors="replace")
        out = p.stdout
    except subprocess.TimeoutExpired:
        res["reason"] = "verus timed out"
        return res
    res["duration_s"] = round(time.time() - t0, 2)
    res["cmd"] = " ".join(cmd)
    res["output"] = (out[:jm0.start()] if (jm0 := re.search(r'^\{$', out, flags=re.M)) else out)[:6000]
    if log_dir:
        open(os.path.join(log_dir, f"{prop}-verus-{unit['name']}.log"), "w").write(out)
    jm = re.search(r'^\{$', out, flags=re.M)
    data = None
    if jm:
        try:
            data = json.loads(out[jm.start():])
        except Exception:
            data = None
    if data is None:
        res["reason"] = "verus produced no JSON (crash)"
        return res
    vr = data.get("verification-results", {})
    verified = int(vr.get("verified", 0) or 0)
    errors = int(vr.get("errors", 0) or 0)
    res["checks"] = verified + errors
    smt = data.get("times-ms", {}).get("smt", {})
    res["solver_s"] = round((smt.get("total", 0) or 0) / 1000.0, 3)
    failed_fns = []
    for mt in smt.get("smt-run-module-times", []) or []:
        for fb in mt.get("function-breakdown", []) or []:
            if not fb.get("success", True):
                failed_fns.append(fb.get("function"))
    if vr.get("encountered-vir-error"):
        res["verdict"] = "undecided"
        errs = re.findall(r'^error(?:\[E\d+\])?: (.*)$', out, flags=re.M)
        res["reason"] = "extracted code not accepted by Verus (unsupported construct / type error): " + "; ".join(errs[:3])
        return res
    if vr.get("success") and errors == 0 and verified > 0:
        res["verdict"] = "pass"
        return res
    if "Resource limit (rlimit) exceeded" in out or "rlimit" in out and "exceeded" in out:
        res["verdict"] = "undecided"
        res["reason"] = "solver resource limit exceeded"
        return res
    if errors > 0 and lost:
        res["verdict"] = "undecided"
        res["reason"] = "ghost-hint anchor(s) no longer present in the source (" + "; ".join(a[:50] for a in lost) + ") and the proof does not go through without them"
        return res
    if errors > 0:
        msgs = re.findall(r'^error: (.*)\n\s+--> [^\n]*:(\d+):\d+', out, flags=re.M)
        res["verdict"] = "fail"
        res["failed_checks"] = [{"function": f, "description": "verification condition not discharged"} for f in failed_fns] or \
                               [{"function": "?", "description": m[0], "line": m[1]} for m in msgs]
        res["reason"] = "; ".join(f"{m[0]} (line {m[1]})" for m in msgs[:4]) or "verification failed"
        return res
    res["reason"] = "verus failed without a verification error"
    return res


def run(units, scratch, log_dir, prop, tier):
    results = {}
    t0 = time.time()
    vdir = os.path.join(scratch, "verus")
    cmds = []
    for u in units:
        r = run_one(u, vdir, log_dir, prop)
        results[u["harness"]] = r
        if r.get("cmd"):
            cmds.append(r["cmd"])
    return results, {"cmd": "; ".join(sorted(set(c.split(" ")[0] + " <extracted>.rs --output-json --time" for c in cmds))),
                     "wall_s": time.time() - t0}
