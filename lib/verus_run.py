"""Verus units (filled in later in this file's history): mechanical extraction + verus run."""


def load_units():
    return []


def run(units, scratch, log_dir, prop, tier):
    return {}, {"cmd": "", "wall_s": 0.0}
