"""Counterexample replay on the real code with the ordinary toolchain (DESIGN.md 4.5).

A replay file is JSON:
  {property, unit, harness, failed_obligations:[..], inputs:[[bytes]..] | null,
   verifier_output: "...", reproduced: true|false|null, replay_output: "..."}
`run_replay` builds a *non-Kani* overlay of /repo's current tree (same harness text, the crate's
own `reusable!` macros, dev profile => debug assertions and overflow checks on, exactly like the
pinned test profile), generates one #[test] that loads the recorded values into the replay shim
and calls the harness function, and runs it with `cargo test`.
"""
import json
import os
import re
import shutil
import subprocess
import tempfile

import overlay


def _env():
    env = dict(os.environ)
    env["CARGO_NET_OFFLINE"] = "true"
    env["RUSTFLAGS"] = "--cfg flacenc_verif_replay -Awarnings"
    env.pop("RUSTUP_TOOLCHAIN", None)
    return env


def run_replay(unit_harness, unit_file, inputs, workdir=None, timeout=1200):
    """Returns (reproduced: bool|None, output_tail)."""
    own = workdir is None
    if own:
        workdir = tempfile.mkdtemp(prefix="flacverif-replay-")
    try:
        fn = unit_harness.split("::")[-1]
        vals = ", ".join("vec![" + ", ".join(str(b) for b in v) + "]" for v in inputs)
        test = (
            "\n#[cfg(test)]\n#[test]\nfn flacverif_replay() {\n"
            f"    crate::verif_support::kani::load(vec![{vals}]);\n"
            f"    {fn}();\n"
            "}\n")
        overlay.build(workdir, havoc=False, with_contracts=True, extra={unit_file: test},
                      only_files=overlay.harness_closure({unit_file}))
        cmd = ["cargo", "test", "--lib", "--offline", "--features", "decode", "--",
               "flacverif_replay", "--nocapture", "--test-threads", "1"]
        try:
            p = subprocess.run(cmd, cwd=workdir, env=_env(), stdout=subprocess.PIPE,
                               stderr=subprocess.STDOUT, timeout=timeout, text=True,
                               errors="replace")
        except subprocess.TimeoutExpired:
            return None, "replay timed out (possible hang on the real code)"
        out = p.stdout
        tail = out[-4000:]
        if "error: could not compile" in out or re.search(r'^error(\[E\d+\])?:', out, flags=re.M) and "test result" not in out:
            return None, "replay build failed:\n" + tail
        if "FLACVERIF-REPLAY-ASSUME-FAILED" in out or "FLACVERIF-REPLAY-INPUT-EXHAUSTED" in out:
            return False, tail
        if "test result: FAILED" in out or "panicked at" in out:
            return True, tail
        if "test result: ok" in out:
            return False, tail
        return None, tail
    finally:
        if own:
            shutil.rmtree(workdir, ignore_errors=True)


def replay_file(path):
    d = json.load(open(path))
    if not d.get("inputs"):
        print("replay file carries no concrete input (no-failing-input-found); verifier output:")
        print(d.get("verifier_output", "")[-3000:])
        return 1
    ok, out = run_replay(d["harness"], d["unit_file"], d["inputs"])
    print(out)
    if ok:
        print(f"REPRODUCED property={d['property']} unit={d['unit']}")
        return 1
    print("not reproduced on the current tree")
    return 0
