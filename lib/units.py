"""Unit registry: parsed from `//@ unit ...` annotation lines in /verif/kani/*.rs and from
/verif/verus/units/*.py descriptors (see verus_run.py).

Annotation grammar (one line, directly above the harness or with an explicit name=):
  //@ unit props=C11,C08 tier=quick kind=complete timeout=300 funcs="A::f; B::g" bound="n<=4"
           [name=harness_fn] [stubs="callee->contract; .."] [havoc=1] [replay=0] [note=".."]
kind: complete | contract | bounded      (DESIGN.md section 5)
tier: quick (run in both tiers) | thorough (thorough tier only)
"""
import os
import re
import shlex

from overlay import HARNESS_FILES, KANI_DIR, disabled_files


def module_path(hname):
    rel, modname = HARNESS_FILES[hname]
    p = rel[len("src/"):-len(".rs")].replace("/", "::")
    return p + "::" + modname


def parse_kv(s):
    out = {}
    for tok in shlex.split(s):
        if "=" in tok:
            k, _, v = tok.partition("=")
            out[k] = v
        else:
            out[tok] = "1"
    return out


def load_kani_units():
    units = []
    for hname in sorted(HARNESS_FILES):
        path = os.path.join(KANI_DIR, hname)
        if not os.path.exists(path) or hname in disabled_files():
            continue
        lines = open(path).read().split("\n")
        for i, line in enumerate(lines):
            m = re.match(r'^\s*//@ unit\s+(.*)$', line)
            if not m:
                continue
            kv = parse_kv(m.group(1))
            # the doc comment directly above the annotation states the contract in prose
            doc = []
            j = i - 1
            while j >= 0 and (lines[j].strip().startswith("///") or lines[j].strip().startswith("//@ unit")):
                if lines[j].strip().startswith("///"):
                    doc.insert(0, lines[j].strip()[3:].strip())
                j -= 1
            name = kv.get("name")
            if not name:
                for j in range(i + 1, min(i + 12, len(lines))):
                    fm = re.match(r'^\s*(?:pub\s+)?fn\s+([A-Za-z0-9_]+)\s*\(', lines[j])
                    if fm:
                        name = fm.group(1)
                        break
            if not name:
                raise RuntimeError(f"{hname}:{i+1}: unit annotation without harness fn")
            u = {
                "backend": "kani",
                "name": name,
                "harness": module_path(hname) + "::" + name,
                "file": hname,
                "props": [p for p in kv.get("props", "").split(",") if p],
                "tier": kv.get("tier", "quick"),
                "kind": kv.get("kind", "bounded"),
                "timeout": int(kv.get("timeout", "300")),
                "funcs": [f.strip() for f in kv.get("funcs", "").split(";") if f.strip()],
                "bound": kv.get("bound", ""),
                "stubs": [f.strip() for f in kv.get("stubs", "").split(";") if f.strip()],
                "havoc": kv.get("havoc", "0") == "1",
                "heavy": kv.get("heavy", "0") == "1",
                "nocontracts": kv.get("nocontracts", "0") == "1",
                "replay": kv.get("replay", "1") == "1",
                "note": kv.get("note", ""),
                "contract_of": kv.get("contract_of", ""),
                "finding": kv.get("finding", ""),
                "contract_text": " ".join(doc)[:700],
            }
            units.append(u)
    names = [u["harness"] for u in units]
    dup = {n for n in names if names.count(n) > 1}
    if dup:
        raise RuntimeError(f"duplicate unit names: {dup}")
    return units


# Property dependencies: a property on the left is only true if the properties on the right are, so
# its check also runs their units (DESIGN.md section 4.1):
#   C01 (an independent decoder recovers the input) needs a well-formed stream (C02);
#   C04 (frame-size fields == bytes emitted) and C09 (selection by reported size) need count_bits()
#   to be the number of bits written (C08).
#   every serialised bit goes through a sink operation, so C01, C02 and C08 need C11.
IMPLIED = {"C01": ["C02", "C11"], "C02": ["C11"], "C08": ["C11"], "C04": ["C08"], "C09": ["C08"]}


QUICK_IMPLIED_MAX_S = 100.0   # quick tier: units of a dependency only if they take less than this


def _times():
    import json
    try:
        return json.load(open(os.path.join(os.path.dirname(os.path.abspath(__file__)), "unit_times.json")))
    except Exception:
        return {}


def select(units, prop, tier):
    own = [u for u in units if prop in u["props"]]
    implied = [u for u in units if prop not in u["props"] and any(p in u["props"] for p in IMPLIED.get(prop, []))]
    if tier == "quick":
        # the quick command has to finish in minutes: the dependency's units are included when
        # they are cheap (last measured time, lib/unit_times.json); the thorough tier runs all.
        t = _times()
        own = [u for u in own if u["tier"] == "quick"]
        implied = [u for u in implied if u["tier"] == "quick" and not u.get("heavy")
                   and t.get(u["name"], 9999.0) <= QUICK_IMPLIED_MAX_S]
    return own + implied
