#!/usr/bin/env python3
"""Generates /verif/MANIFEST.json from the table below (kept valid at all times)."""
import json
import os

HERE = os.path.dirname(os.path.dirname(os.path.abspath(__file__)))

BASELINE_OFF = ("cd /repo && (cargo nextest run --workspace --no-fail-fast --offline || "
                "cargo test --workspace --no-fail-fast --offline)")

# property -> dict(level category, text, note, technique, design_ref) ; absent => not_applicable
CLAIMED = {
    "C11": dict(
        category="proof",
        text=("Every sink operation of both in-memory sinks (write/write_msbs/write_lsbs for u8..u64, every n from 0 "
              "to the width; write_twoc; write_zeros; align_to_byte; write_bytes_aligned; byte export) is proved by Kani "
              "against an independent ideal MSB-first bit string on an arbitrary well-formed state (all word contents, "
              "all bit offsets): full-domain symbolic inputs, loop-free or loops bounded by constants of the code => "
              "complete per operation; default trait methods proved on a minimal user sink."),
        note=("Sink state = empty or two storage words (longer prefixes rest on Vec::push/last_mut/resize not touching "
              "other elements); zero runs up to 130 bits on the real sink + word-count arithmetic for every n; slice "
              "lengths 0 and 2 for write_bytes_aligned; the 'every finite sequence' quantifier follows by induction "
              "from the per-operation contract (state invariant wf is both pre- and post-condition)."),
        technique="Kani/CBMC harness-encoded function contracts on the real code (overlay: harness modules appended, nothing edited)",
        design_ref="6 C11"),
}

NOT_APPLICABLE = {
    "C05": "quantifies over thread interleavings (std::thread, crossbeam, Mutex, Arc): Kani has no thread support and Verus only reasons about concurrency written with its own ghost permission types; no function contract on par.rs expresses 'for every schedule'",
    "C06": "liveness + thread lifetime + fault x schedule sequences: outside both deductive verifiers (termination is unverified by Kani even sequentially)",
    "C19": "behaviour lives in serde-derive expansions and the toml 0.5 string parser (a dev-dependency): Verus accepts neither derive output nor str byte reasoning, Kani on a text parser with symbolic strings is intractable; no contract within reach decides it",
    "C20": "quantifier ranges over four cargo-feature builds: a relational statement over different compiled programs, not a contract on one function; the feature-dependent code is mostly the floating-point estimator with no usable functional spec",
}


def main():
    props = [json.loads(l)["id"] for l in open(os.path.join(HERE, "properties.jsonl"))]
    checks = []
    na = []
    for p in props:
        if p in CLAIMED:
            c = CLAIMED[p]
            checks.append({
                "property_id": p,
                "quick_cmd": f"./check {p} --tier quick",
                "thorough_cmd": f"./check {p} --tier thorough",
                "evidence_file": f"/verif/evidence/{p}.json",
                "replay_cmd_template": "./check --replay {path}",
                "engine": "flacverif",
                "level_claimed": {"category": c["category"], "text": c["text"],
                                  "design_ref": "DESIGN.md section " + c["design_ref"]},
                "level_note": c["note"],
                "technique": c["technique"],
            })
        else:
            na.append({"property_id": p,
                       "reason": NOT_APPLICABLE.get(p, "not yet claimed: units for this property are still being built (see DESIGN.md section 6)")})
    man = {
        "version": 1,
        "setup_cmd": "true",
        "hooks": {
            "guard": "kani",
            "enable": ("no hook commits in /repo: every check copies /repo's working tree to a scratch dir and appends "
                       "#[cfg(any(kani, flacenc_verif_replay))] harness modules + cfg_attr(kani, ..) contract attributes "
                       "(lib/overlay.py; additions only, verified by diff on every run), then runs `cargo kani`"),
            "baseline_off_cmd": BASELINE_OFF,
            "source_commits": [],
            "add_only": True,
        },
        "engines": [{
            "name": "flacverif", "path": "/verif/check",
            "serves_properties": [c["property_id"] for c in checks],
            "kind_free_text": ("contract-based deductive verification of the real code: Kani 0.68/CBMC function-contract "
                               "harnesses on an additions-only overlay of /repo; Verus on functions extracted mechanically "
                               "every run; counterexamples replayed on the real code with the ordinary toolchain"),
        }],
        "checks": checks,
        "not_applicable": na,
        "notes": "See DESIGN.md. known findings: /verif/known_findings.json (committed, never written at run time).",
    }
    with open(os.path.join(HERE, "MANIFEST.json"), "w") as f:
        json.dump(man, f, indent=1)
    print(f"MANIFEST.json: {len(checks)} checks, {len(na)} not_applicable")


if __name__ == "__main__":
    main()
