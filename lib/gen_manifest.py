#!/usr/bin/env python3
"""Generates /verif/MANIFEST.json from the table below (kept valid at all times)."""
import json
import os

HERE = os.path.dirname(os.path.dirname(os.path.abspath(__file__)))

BASELINE_OFF = ("cd /repo && (cargo nextest run --workspace --no-fail-fast --offline || "
                "cargo test --workspace --no-fail-fast --offline)")

# property -> dict(level category, text, note, technique, design_ref) ; absent => not_applicable
KANI = "Kani/CBMC function-contract harnesses on the real code (additions-only overlay)"
VERUS = "Verus on functions extracted mechanically from /repo every run"

CLAIMED = {
    "C01": dict(
        category="proof",
        text=("Losslessness is cut into per-stage contracts, each proved against an independent RFC 9639 spec: zig-zag folding and its "
              "inverse (Kani function contracts, all i32), the Rice split (q<<p)+r == zigzag(e) complete over i32 x 0..=14, the "
              "partition plumbing encode_residual_partition / encode_residual_with_prc_parameter for ANY block length (Verus on the real "
              "loops), is_constant for any length (Verus), two's-complement fields and Rice codes as written by both sinks (Kani, complete "
              "per operation), subframe layouts on small blocks (Kani, bounded), frame number/range checks of the frame-level entry point; the residual WRITER "
              "(Residual::write) and the crate's residual / LPC DECODERS (Residual::copy_signal, decode_lpc) for ANY block length, order "
              "and warm-up (Verus: decode(encode(e)) == e, and the decoder reproduces s from the residual of s); frame assembly "
              "encode_frame_impl / encode_frame (one subframe per channel in order, side channel one bit wider); every C02 unit "
              "(a stream an independent decoder accepts must be well-formed)."),
        note=("Predictor inner loops (reset_fixed_lpc_errors, lpc::compute_error) are covered only by bounded units or not at all; the "
              "float LPC estimator is outside any contract; assumption A1 (exact LPC residual fits i32) is stated, not proved; the "
              "multi-thread path is unreachable for both verifiers."),
        technique=KANI + " + " + VERUS,
        design_ref="6 C01"),
    "C02": dict(
        category="proof",
        text=("Finite code spaces are enumerated symbolically and therefore complete: every block size 1..65535, every u32 sample rate, "
              "every sample-size and channel code, every coded number < 2^36 (per byte-count class) against an RFC decoder; frame header "
              "ASSEMBLY for every shape at once (Verus header_write over the complete leaf contracts) and bit-level layout + CRC-8 on sampled "
              "shapes; Residual::write for any block / partition order / warm-up (Verus); encode_frame_impl: header codes agree with "
              "STREAMINFO, one subframe per channel (Kani); CRC tables against the bitwise polynomials; subframe/residual/"
              "STREAMINFO/metadata layouts; frame = header ++ subframes ++ padding ++ CRC-16 and stream = fLaC ++ blocks ++ frames for any "
              "number of subframes/frames (Verus on Frame::write / Stream::write); frame numbering 0,1,2.. and full blocks for any number "
              "of frames (Verus on the real driver loop)."),
        note=("Bit-level header cross-checks: 2 of 54 shapes in the quick tier, 4 in the thorough tier (the assembly itself is proved for "
              "all shapes); the Rice / two's-complement BIT PATTERNS are leaf contracts proved on the sinks (C11), the Verus units compose "
              "them; CRC tables checked for messages up to 17 bytes; Source behaviour per trait docs."),
        technique=KANI + " + " + VERUS,
        design_ref="6 C02"),
    "C03": dict(
        category="proof",
        text=("Context::fill_interleaved feeds exactly the channel-interleaved little-endian bytes of the byte-rounded width for any number "
              "of samples, fill_le_bytes exactly the given bytes, both advance the counters identically (Verus on the real loops with the "
              "digest as a ghost byte sequence); the driver sets total_samples, the MD5 of everything delivered and the source's format for "
              "any number of frames (Verus on the real driver); STREAMINFO field layout (Kani, all field values); Kani companions that run "
              "the COMPILED bodies of Context::{fill_interleaved, fill_le_bytes, md5_digest} against a recording md-5 stand-in (blocks of "
              "3/2/0 samples for every width, 66 and 133 samples for 3 and 7 channels); i32s_to_le_bytes for any length (Verus)."),
        note="md-5 itself is trusted (assumption A-deps); a foreign Source honours its documentation (A-src); the hashing thread of the multi-thread path is not reachable.",
        technique=VERUS + " + " + KANI,
        design_ref="6 C03"),
    "C04": dict(
        category="proof",
        text=("update_frame_info step contract (Kani, complete over all field values) + the driver loop invariant over a ghost frame list "
              "(Verus on the real encode_with_fixed_block_size, any number of frames): max_block == requested, 16 <= min_block <= every "
              "non-final block, min/max frame size == min/max over emitted frames."),
        note="Single-thread driver only (par.rs is outside both verifiers; it received the same one-statement repair); frame byte length = count_bits()/8, equality with written bits is C08.",
        technique=VERUS + " + " + KANI,
        design_ref="6 C04"),
    "C08": dict(
        category="proof",
        text=("count_bits() == bits written, level by level: sink operations (C11 units), UTF-8 number and header extras (complete), frame "
              "header per shape, CONSTANT/VERBATIM/FIXED/LPC/RESIDUAL/STREAMINFO/metadata writers into an ideal bit string (Kani), cached "
              "residual sums on both sides of the overflow switch, frame and stream assembly incl. the precomputed branch (Verus); "
              "Residual::write and Residual::count_bits against one bit-string spec for ANY block / order / warm-up (Verus residual_write, "
              "residual_count); FrameHeader::write / count_bits for every header shape (Verus header_write); precompute_bitstream "
              "stores exactly the bytes write() emits (Verus frame_precompute)."),
        note="Frame::count_bits's iterator sum is not extracted (closures): bounded Kani unit only; cached quotient / parameter sums of a Residual are an assumed invariant of residual_count (established by from_parts: bounded Kani unit; re-checked by verify).",
        technique=KANI + " + " + VERUS,
        design_ref="6 C08"),
    "C09": dict(
        category="proof",
        text=("encode_subframe's selection logic is proved with the candidate generators replaced by callee contracts that return a "
              "subframe of ARBITRARY size: the result is never larger than the verbatim subframe, is CONSTANT only for constant blocks, "
              "uses no predictor below 64 samples and never calls a disabled generator (Kani, complete in all switches and sizes); "
              "try_stereo_coding keeps the cheapest ENABLED combination and never exceeds the independent-channel size (Kani, sizes "
              "symbolic); frame = header + subframes + < 8 padding bits + 16 (Verus frame_write)."),
        note="Sizes are the components' own count_bits(), tied to written bits by C08; the per-frame bound then follows arithmetically (header equal, each subframe <= verbatim, side channel one bit wider only when that pair is cheaper).",
        technique=KANI + " + " + VERUS,
        design_ref="6 C09"),
    "C14": dict(
        category="proof",
        text=("Sign-extending little-endian conversion for 1..4 bytes per sample against an independent spec (all byte values), its inverse, "
              "the channel-specialised de-interleavers (1, 2 quick; 3, 8 thorough; dispatcher 2..8) on arbitrary stale destination "
              "contents, and FrameBuf::fill_interleaved vs fill_le_bytes on differently dirty buffers: identical per-channel samples and "
              "fill state; Context counters/MD5 input identical for both paths for any length (Verus context_fill) and on the compiled bodies "
              "with a recording md-5 stand-in (Kani); i32s_to_le_bytes for any length (Verus)."),
        note="Lengths bounded (3 samples for conversions, stride 34 for the 32-way unrolled de-interleavers, capacity 2..3 for the buffer equivalence); values complete.",
        technique=KANI + " + " + VERUS,
        design_ref="6 C14"),
    "C07": dict(
        category="proof",
        text=("verify().is_ok() <=> every own field in its documented range /\\ every child verifies, proved struct by struct for Prc, "
              "OrderSel, Window (every f32 bit pattern incl. NaN/inf), Fixed, Qlpc, StereoCoding, SubFrameCoding, Encoder with the "
              "children's verdicts as symbolic callee contracts (Kani, complete), plus the real chain Encoder -> .. -> OrderSel; accepted "
              "=> the consumers' assertions hold: fingerprint_window, quantize_parameters/find_shift ranges, estimate_entropy "
              "(no division by zero / out-of-bounds for 1..=64 partitions), encode_subframe never calls a disabled generator."),
        note=("'encodes every valid input losslessly' is C01; the finite-ness asserts inside the float LPC estimator are assumed (A-float); "
              "CBMC's log2/fma models are replaced by range contracts in the estimate_entropy units; experimental options: the "
              "non-experimental build is the verified configuration."),
        technique=KANI,
        design_ref="6 C07"),
    "C10": dict(
        category="proof",
        text=("History independence = each scratch buffer's user produces its specified result from ARBITRARY previous buffer contents: "
              "fixed-predictor error vectors, mid/side frame buffer, SIMD cast buffer (reset_from_slice), de-interleave destination, "
              "frame-buffer refill (full block then shorter), scratch sinks (clear), frame CRC buffer and header CRC buffer (Verus frame_write / "
              "header_write quantify over an arbitrary incoming scratch sink, e.g. one left behind by a failed write); the window cache key is injective on (size, window) over all f32 alphas."),
        note=("Bounded sizes for the dirty-buffer units (previous block of 16/32 samples etc.); PrcParameterFinder::find and the float "
              "LpcEstimator buffers are argued from clear/resize/fill semantics, not under contract; other threads: thread_local storage "
              "is per thread by construction (Rust TLS)."),
        technique=KANI + " + " + VERUS,
        design_ref="6 C10"),
    "C11": dict(
        category="proof",
        text=("Every sink operation of both in-memory sinks (write/write_msbs/write_lsbs for u8..u64, every n from 0 "
              "to the width; write_twoc; write_zeros; align_to_byte; write_bytes_aligned; byte export) is proved by Kani "
              "against an independent ideal MSB-first bit string on an arbitrary well-formed state (all word contents, "
              "all bit offsets): full-domain symbolic inputs, loop-free or loops bounded by constants of the code => "
              "complete per operation; default trait methods proved on a minimal user sink."),
        note=("Sink state = empty or two storage words (longer prefixes rest on Vec::push/last_mut/resize not touching "
              "other elements); zero runs up to 130 bits on the real sink + word-count arithmetic for every n; slice "
              "lengths 0 and 2 for write_bytes_aligned; the 'every finite sequence' quantifier follows by induction "
              "from the per-operation contract (state invariant wf is both pre- and post-condition)."),
        technique=KANI,
        design_ref="6 C11"),
    "C12": dict(
        category="proof",
        text=("Stream::write, Frame::write, the four sub-frame writers, FrameHeader::write and Residual::write are verified by Verus against an "
              "ABSTRACT BitSink whose every operation may return Err: no unwrap/expect on a fallible sink result is provable, the error is "
              "returned, and the sink content stays a prefix of the correct bitstream - for any number of frames, subframes, samples, "
              "partitions (the chain is unbounded from the stream down to the sink operations)."),
        note=("STREAMINFO / metadata block / unknown body writers: Kani units against a sink that fails at its k-th primitive operation, k "
              "symbolic (bounded shapes). try_repeat! (the unrolling macro inside Residual::write) is replaced by its loop semantics, which "
              "Kani proves of the macro. A user sink is assumed append-only on error as its trait documentation implies."),
        technique=VERUS + " + " + KANI,
        design_ref="6 C12"),
    "C13": dict(
        category="proof",
        text=("PrcBitTable::minimizer == argmin with smallest-p tie-break over all tables below the saturation bound (Kani, 16 symbolic "
              "entries); merge == a+b-4 saturating (complete); finest_partition_order == largest admissible order (Kani function contract); "
              "from_errors exact-or-saturated for residuals up to 2^28-2^24 (bounded n, incl. the unrolled 16-element path); merge_partitions "
              "for any number of tables (Verus), eval_partitions (Kani); the chosen parameters reach the Residual unchanged (Verus)."),
        note=("Known finding F-C13-from-errors-wrap (u32 lane sums wrap for larger folded residuals). PrcParameterFinder::find: Verus prc_find "
              "(every order evaluated, cheapest returned, any number of partitions). Call sites: encode_residual and the bit-count order "
              "selection hand the search the CONFIGURED maximum for every sample width and apply what it returned (Kani)."),
        technique=KANI + " + " + VERUS,
        design_ref="6 C13"),
    "C15": dict(
        category="proof",
        text=("parser::residual accepts exactly the bits Residual::write emits for the component it returns, for ANY block size, partition "
              "order and warm-up (Verus, against the same bit-string specification the writer is proved against; nom primitives by their "
              "bit-level meaning). Parser o writer = identity on the leaf codes, complete over their code spaces (UTF-8 number per byte-count class, "
              "block-size and sample-rate codes, two's complement for widths 1..26, unary code on a byte), and on small components "
              "(CONSTANT, VERBATIM, one frame-header shape: parse of written bits returns the same component, consumes exactly "
              "count_bits() bits, re-serialises identically); the crate's own decoder: Residual::copy_signal and decode_lpc (fixed and LPC "
              "synthesis) invert the encoder's residual for ANY block length and order (Verus), stereo un-mixing equals the RFC spec (Kani)."),
        note=("The composition of the recognisers (sub-frame -> frame -> stream) is not run end to end: Kani cannot execute anything that goes "
              "through parser::residual (nom's closure plumbing; two input bytes exhaust memory) and Verus does not accept nom combinators, "
              "so parser::frame / fixed_lpc / lpc are verified with their sub-recognisers as assumed callee contracts (units parser_frame, "
              "parser_subframes under C16).  'Consumes all input' and 'verifies' for whole streams are NOT decided."),
        technique=KANI + " + " + VERUS,
        design_ref="6 C15"),
    "C16": dict(
        category="proof",
        text=("Three clauses are decided: (1) no panic of each sub-parser on ARBITRARY input bytes of fixed small length with arbitrary "
              "in-range parameters (utf8_code, block_size_code + block_size(), sample_rate_code for every tag, subframe_header, constant, "
              "verbatim, quantized_parameters, stream_info, metadata_block, frame_header with and without CRC, u_to_i for every width); "
              "(2) frame_header(true) returns Ok only if the stored CRC-8 equals the checksum of the consumed bytes; plus the residual "
              "recogniser parser::residual panic-free for ANY input, block size and warm-up (Verus, nom primitives as assumed contracts); "
              "(3) the frame recogniser parser::frame for ANY input: the slice handed to the CRC stays inside the input, a frame is accepted "
              "only if its footer is the CRC-16 of exactly the bytes from its first byte to the footer, and only with STREAMINFO's channel "
              "count and width (Verus parser_frame; header / sub-frame recognisers and nom's verify / Offset as assumed contracts)."),
        note=("Kani units bounded in input length (8 header bytes, 34 STREAMINFO bytes, ...), complete in byte values.  Not decided: 'an altered "
              "frame is never accepted with different audio' beyond 'CRC-16 enforced' (a probabilistic fact about 16-bit coincidences), and "
              "the composition subframe -> fixed_lpc/lpc -> residual inside parser::frame, which enters the Verus unit as an assumed callee "
              "contract (intractable for Kani; `impl FnMut`-returning parsers cannot be stubbed); the FIXED / LPC recognisers themselves "
              "cannot panic on any type tag (Verus parser_subframes)."),
        technique=KANI + " + " + VERUS,
        design_ref="6 C16"),
    "C17": dict(
        category="proof",
        text=("Argument contracts over the FULL symbolic domain (not a grid): StreamInfo::new / Stream::new / FrameHeader::new / "
              "FrameBuf::with_size / set_block_sizes Ok <=> untruncated arguments in range and stored == given; over-fill and bad "
              "bytes-per-sample are errors for both fill paths; encode_fixed_size_frame rejects frame numbers >= 2^31 and out-of-range "
              "samples before encoding; Context::fill_le_bytes rejects a disagreeing width (Verus)."),
        note="The multi-thread prologue (par.rs) cannot be compiled by Kani (thread::spawn ICE): its block-size check is not under contract.",
        technique=KANI + " + " + VERUS,
        design_ref="6 C17"),
    "C18": dict(
        category="proof",
        text=("For each public constructor (Residual, QuantizedParameters, Constant, Verbatim, FixedLpc, Lpc, Frame, unknown metadata; "
              "StreamInfo / FrameHeader under C17): the call RETURNS for every argument combination (no panic, overflow, failed assertion "
              "or out-of-bounds index inside the constructor or verify()); Ok implies verify() Ok; verify() Ok <=> an RFC 9639 "
              "well-formedness predicate written independently of the code; a well-formed component writes exactly count_bits() bits "
              "with the header fields in place; Frame::new Ok <=> channel count, block size and per-channel width agree with the header."),
        note=("Bounded: slice lengths and loop-steering scalars (partition order, block size, warm-up, LPC order) are enumerated shapes "
              "that contain every inconsistent combination the property names; all element values and remaining scalars are symbolic. "
              "'Parses back to an identical component' is NOT decided by running the nom parser (intractable for Kani, see C15/C16): it is "
              "carried by the layout obligations (write == RFC layout, count_bits exact) plus the C15 leaf inverses."),
        technique=KANI,
        design_ref="6 C18"),
}

NOT_APPLICABLE = {
    "C05": "quantifies over thread interleavings (std::thread, crossbeam, Mutex, Arc): Kani has no thread support and Verus only reasons about concurrency written with its own ghost permission types; no function contract on par.rs expresses 'for every schedule'",
    "C06": "liveness + thread lifetime + fault x schedule sequences: outside both deductive verifiers (termination is unverified by Kani even sequentially)",
    "C19": "behaviour lives in serde-derive expansions and the toml 0.5 string parser (a dev-dependency): Verus accepts neither derive output nor str byte reasoning, Kani on a text parser with symbolic strings is intractable; no contract within reach decides it",
    "C20": "quantifier ranges over four cargo-feature builds: a relational statement over different compiled programs, not a contract on one function; the feature-dependent code is mostly the floating-point estimator with no usable functional spec",
}


def main():
    props = [json.loads(l)["id"] for l in open(os.path.join(HERE, "properties.jsonl"))]
    checks = []
    na = []
    for p in props:
        if p in CLAIMED:
            c = CLAIMED[p]
            checks.append({
                "property_id": p,
                "quick_cmd": f"./check {p} --tier quick",
                "thorough_cmd": f"./check {p} --tier thorough",
                "evidence_file": f"/verif/evidence/{p}.json",
                "replay_cmd_template": "./check --replay {path}",
                "engine": "flacverif",
                "level_claimed": {"category": c["category"], "text": c["text"],
                                  "design_ref": "DESIGN.md section " + c["design_ref"]},
                "level_note": c["note"],
                "technique": c["technique"],
            })
        else:
            na.append({"property_id": p,
                       "reason": NOT_APPLICABLE.get(p, "not yet claimed: units for this property are still being built (see DESIGN.md section 6)")})
    man = {
        "version": 1,
        "setup_cmd": "true",
        "hooks": {
            "guard": "kani",
            "enable": ("no hook commits in /repo: every check copies /repo's working tree to a scratch dir and appends "
                       "#[cfg(any(kani, flacenc_verif_replay))] harness modules + cfg_attr(kani, ..) contract attributes "
                       "(lib/overlay.py; additions only, verified by diff on every run), then runs `cargo kani`"),
            "baseline_off_cmd": BASELINE_OFF,
            "source_commits": [],
            "add_only": True,
        },
        "engines": [{
            "name": "flacverif", "path": "/verif/check",
            "serves_properties": [c["property_id"] for c in checks],
            "kind_free_text": ("contract-based deductive verification of the real code: Kani 0.68/CBMC function-contract "
                               "harnesses on an additions-only overlay of /repo; Verus on functions extracted mechanically "
                               "every run; counterexamples replayed on the real code with the ordinary toolchain"),
        }],
        "checks": checks,
        "not_applicable": na,
        "notes": "See DESIGN.md. known findings: /verif/known_findings.json (committed, never written at run time).",
    }
    with open(os.path.join(HERE, "MANIFEST.json"), "w") as f:
        json.dump(man, f, indent=1)
    print(f"MANIFEST.json: {len(checks)} checks, {len(na)} not_applicable")


if __name__ == "__main__":
    main()
