"""Runs Kani harnesses on an overlay and classifies the result of each (DESIGN.md 4.6).

verdicts: 'pass' | 'fail' (property assertion or implicit safety check refuted, with the failed
checks) | 'undecided' (timeout, crash, unwinding assertion, vacuous cover, did not run).
"""
import json
import os
import re
import subprocess
import time

KANI_FLAGS = ["-Z", "unstable-options", "-Z", "function-contracts", "-Z", "stubbing"]
FEATURES = ["--features", "decode"]


def _env():
    env = dict(os.environ)
    env["CARGO_NET_OFFLINE"] = "true"
    env.pop("RUSTFLAGS", None)
    env.pop("RUSTUP_TOOLCHAIN", None)
    return env


CHUNK = int(os.environ.get("FLACVERIF_KANI_CHUNK", "14"))
WORKERS = int(os.environ.get("FLACVERIF_KANI_WORKERS", "6"))
_TIMES = None


def expected_time(u):
    """Last measured wall time of a unit (lib/unit_times.json, informational), else a guess."""
    global _TIMES
    if _TIMES is None:
        try:
            _TIMES = json.load(open(os.path.join(os.path.dirname(os.path.abspath(__file__)), "unit_times.json")))
        except Exception:
            _TIMES = {}
    return _TIMES.get(u["name"], u["timeout"] / 4.0)


def run(overlay_dir, units, jobs=8, log_path=None, extra_timeout=120, tag=""):
    """Run `units` in cargo-kani invocations of at most CHUNK harnesses each (the cargo-kani driver
    process keeps every result in memory: with 80 harnesses it was observed at 36 GB resident, and a
    driver that is killed loses all results).  The invocations run WORKERS at a time on the same
    build (cargo's own lock serialises the one compilation), the units are dealt out longest-first
    so that the invocations finish together.  Returns ({harness: result}, meta)."""
    if len(units) <= CHUNK:
        return _run_once(overlay_dir, units, jobs, log_path, extra_timeout, tag=tag)
    order = sorted(units, key=lambda u: -expected_time(u))
    nchunks = (len(order) + CHUNK - 1) // CHUNK
    parts = [order[k::nchunks] for k in range(nchunks)]
    workers = max(1, min(WORKERS, nchunks))
    jj = max(2, jobs // workers)
    results = {}
    metas = [None] * nchunks

    def work(k):
        lp = None
        if log_path:
            lp = log_path if k == 0 else log_path.replace(".log", f"-part{k + 1}.log")
        r, m = _run_once(overlay_dir, parts[k], jj, lp, extra_timeout, tag=f"{tag}-{k}")
        return k, r, m

    import concurrent.futures
    with concurrent.futures.ThreadPoolExecutor(max_workers=workers) as ex:
        for k, r, m in ex.map(work, range(nchunks)):
            results.update(r)
            metas[k] = m
    meta = dict(metas[0])
    meta["cmd"] = " ;; ".join(m.get("cmd", "") for m in metas)
    meta["wall_s"] = max(m.get("wall_s", 0) for m in metas)
    meta["invocations"] = len(metas)
    meta["overall_timeout"] = any(m.get("overall_timeout") for m in metas)
    return results, meta


def _run_once(overlay_dir, units, jobs=8, log_path=None, extra_timeout=120, tag=""):
    """Run all `units` (kani) in one cargo-kani invocation.  Returns {harness: result}."""
    results = {}
    if not units:
        return results, {"build_s": 0.0, "cmd": ""}
    out_json = os.path.join(overlay_dir, f"kani-out{tag}.json")
    if os.path.exists(out_json):
        os.remove(out_json)
    # per-harness limit: the largest annotated limit of the group, never below 15 minutes, plus 50 %
    # (the annotations were measured on an idle machine; under load a harness takes up to twice as long)
    tmo = int(max(900, max(u["timeout"] for u in units)) * 1.5)
    cmd = ["cargo", "kani"] + FEATURES + KANI_FLAGS + [
        "--harness-timeout", f"{tmo}s", "--exact", "-j", str(jobs),
        "--output-format", "terse", "--export-json", out_json]
    for u in units:
        cmd += ["--harness", u["harness"]]
    t0 = time.time()
    waves = (len(units) + jobs - 1) // jobs
    overall = 600 + tmo * waves + extra_timeout
    try:
        p = subprocess.run(cmd, cwd=overlay_dir, env=_env(), stdout=subprocess.PIPE,
                           stderr=subprocess.STDOUT, timeout=overall, text=True, errors="replace")
        out, rc, timed_out = p.stdout, p.returncode, False
    except subprocess.TimeoutExpired as e:
        out = (e.stdout or b"")
        if isinstance(out, bytes):
            out = out.decode(errors="replace")
        rc, timed_out = -1, True
        subprocess.run(["pkill", "-f", out_json], check=False)
    wall = time.time() - t0
    if log_path:
        with open(log_path, "w") as f:
            f.write("$ " + " ".join(cmd) + "\n" + out)
    meta = {"cmd": " ".join(cmd), "wall_s": wall, "rc": rc, "overall_timeout": timed_out}

    compile_error = None
    if "error: could not compile" in out or "error[E" in out or "Failed to execute cargo" in out:
        errs = re.findall(r'^(error(?:\[E\d+\])?: .*)$', out, flags=re.M)
        compile_error = "; ".join(errs[:5]) or "compile error"
    ice = "internal compiler error" in out or "Kani unexpectedly panicked" in out

    data = None
    if os.path.exists(out_json):
        try:
            data = json.load(open(out_json))
        except Exception:
            data = None

    by_id = {}
    stats = {}
    if data:
        for r in data.get("verification_results", {}).get("results", []):
            by_id[r["harness_id"]] = r
        for c in data.get("cbmc", []):
            stats[c["harness_id"]] = c.get("cbmc_stats") or {}
        meta["kani_version"] = data.get("metadata", {}).get("kani_version")
        meta["cbmc"] = data.get("tools", {}).get("cbmc")

    # terse output blocks, to find timeouts / per-harness messages
    for u in units:
        hid = u["harness"]
        r = by_id.get(hid)
        res = {"verdict": "undecided", "reason": "", "checks": 0, "failed_checks": [],
               "duration_s": None, "solver_s": None, "covers": [0, 0]}
        if r is None:
            if compile_error:
                res["reason"] = "overlay does not compile: " + compile_error
            elif ice:
                res["reason"] = "kani compiler crash"
            elif timed_out:
                res["reason"] = "overall timeout"
            else:
                res["reason"] = "harness produced no result (crash or not found)"
            results[hid] = res
            continue
        checks = r.get("checks", [])
        res["checks"] = len(checks)
        res["duration_s"] = r.get("duration_ms", 0) / 1000.0
        st = stats.get(hid) or {}
        res["solver_s"] = st.get("runtime_decision_procedure_s")
        failed = [c for c in checks if c.get("status") in ("Failure",)]
        undet = [c for c in checks if c.get("status") in ("Undetermined",)]
        covers = [c for c in checks if c.get("category") == "cover"
                  or c.get("status") in ("Satisfied", "Unsatisfiable")]
        sat = [c for c in covers if c.get("status") == "Satisfied"]
        res["covers"] = [len(sat), len(covers)]
        unwinding = [c for c in failed if "unwinding assertion" in c.get("description", "")
                     or c.get("category") == "unwind"]
        unsupported = [c for c in failed if "unsupported" in c.get("category", "")
                       or "is not currently supported by Kani" in c.get("description", "")]
        real = [c for c in failed if c not in unwinding and c not in unsupported]
        res["failed_checks"] = [
            {"function": c.get("function"), "description": c.get("description"),
             "file": (c.get("location") or {}).get("file"),
             "line": (c.get("location") or {}).get("line"),
             "category": c.get("category")} for c in real]
        status = r.get("status")
        if status == "Success":
            if len(sat) < len(covers):
                res["verdict"] = "undecided"
                res["reason"] = "vacuity guard: %d of %d cover probes unreachable" % (
                    len(covers) - len(sat), len(covers))
            elif len(checks) == 0:
                res["verdict"] = "undecided"
                res["reason"] = "vacuity guard: zero checks generated"
            else:
                res["verdict"] = "pass"
        else:
            if unsupported:
                res["verdict"] = "undecided"
                res["reason"] = "unsupported construct reachable: " + unsupported[0].get("description", "")
            elif unwinding:
                res["verdict"] = "undecided"
                res["reason"] = "unwinding assertion failed (bound too small for this code)"
            elif real:
                res["verdict"] = "fail"
                res["reason"] = "; ".join(sorted({f"{c['description']} [{c['function']}]" for c in res["failed_checks"]}))[:600]
            else:
                res["verdict"] = "undecided"
                res["reason"] = "kani reported failure without a failed check (timeout/solver/out of memory)"
                if undet:
                    res["reason"] += f"; {len(undet)} undetermined"
        results[hid] = res
    return results, meta


def concrete_playback(overlay_dir, unit, timeout=None, log_path=None):
    """Re-run one failed harness with concrete playback; returns list of byte vectors or None."""
    tmo = timeout or unit["timeout"]
    cmd = ["cargo", "kani"] + FEATURES + KANI_FLAGS + [
        "-Z", "concrete-playback", "--concrete-playback=print",
        "--harness-timeout", f"{tmo}s", "--exact", "--harness", unit["harness"]]
    try:
        p = subprocess.run(cmd, cwd=overlay_dir, env=_env(), stdout=subprocess.PIPE,
                           stderr=subprocess.STDOUT, timeout=tmo + 600, text=True, errors="replace")
        out = p.stdout
    except subprocess.TimeoutExpired:
        return None, "concrete playback timed out"
    if log_path:
        with open(log_path, "w") as f:
            f.write("$ " + " ".join(cmd) + "\n" + out)
    cands = []
    for tm in re.finditer(r'/// Check for `([a-z_]+)`: (.*?)\n.*?let concrete_vals: Vec<Vec<u8>> = vec!\[(.*?)\n\s*\];',
                          out, flags=re.S):
        if tm.group(1) == "cover":
            continue
        vals = []
        for vm in re.finditer(r'vec!\[([0-9,\s]*)\]', tm.group(3)):
            body = vm.group(1).strip()
            vals.append([int(x) for x in body.split(",") if x.strip()] if body else [])
        cands.append({"check": tm.group(2).strip()[:200], "vals": vals})
    if not cands:
        return None, "no concrete values printed for a failed check\n" + out[-3000:]
    return cands, out[-3000:]
